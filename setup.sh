#!/bin/sh
# Installs the only third-party dependency of the harness (icontract) beside the repository's interpreter,
# from the offline wheelhouse.  Idempotent.
set -e
HERE="$(cd "$(dirname "$0")" && pwd)"
if [ ! -d "$HERE/.deps/icontract" ]; then
  PIP_NO_INDEX=1 /venv/bin/pip install --quiet --no-index --find-links /opt/veriftools/wheels \
      --target "$HERE/.deps" icontract >/dev/null 2>&1 || {
    echo "setup: could not install icontract from /opt/veriftools/wheels" >&2; exit 3; }
fi
mkdir -p "$HERE/evidence" "$HERE/replays" "$HERE/.work"
echo "setup ok"
