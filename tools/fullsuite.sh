#!/bin/sh
# Non-binding extra signal: the repository's whole test-suite with the third-party shims applied.
cd /repo && PYTHONPATH=/verif env -u BIOCANTOR_VERIF /venv/bin/python -m pytest -p bcv.pytest_compat -q -p no:cacheprovider -n 8 "$@" 2>&1 | tail -15
find /repo -name __pycache__ -type d -prune -exec rm -rf {} + 2>/dev/null
