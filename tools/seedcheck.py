#!/usr/bin/env python3
"""Confirms a seeded change delivered by an independent fault-seeding agent and runs our checks against it.

usage: tools/seedcheck.py <PROPERTY_ID> <agent_out_dir> [--checks C01,C02] [--tier quick] [--keep-as NAME]

For each patch<k>.diff / demo<k>.py in the agent's output directory, in a scratch copy of /repo (outside /repo, /verif):
  1. the patch applies to /repo's HEAD;
  2. the pinned baseline test command still passes exactly the baseline's stable tests with the patch applied;
  3. the demo passes without the patch and fails with it;
  4. each named check (default: the property's own) is run with VERIF_REPO=<scratch>: exit 1 + VIOLATION expected.
Confirmed changes are stored as /verif/seeded/<ID>-<k>/ {patch.diff, demo.py, meta.json}.  The scratch copy is removed.
"""
import argparse
import json
import os
import shutil
import subprocess
import sys
import tempfile
import xml.etree.ElementTree as ET

HERE = os.path.dirname(os.path.dirname(os.path.abspath(__file__)))
PY = "/venv/bin/python"


def sh(cmd, cwd=None, env=None, timeout=3600):
    return subprocess.run(cmd, cwd=cwd, env=env, capture_output=True, text=True, timeout=timeout)


def baseline_ok(repo):
    j = tempfile.mktemp(suffix=".xml", prefix="bcv-junit-")
    e = {k: v for k, v in os.environ.items() if k != "BIOCANTOR_VERIF"}
    sh([PY, "-B", "-m", "pytest", "-q", "-p", "no:cacheprovider", "--timeout=900", "--continue-on-collection-errors", f"--junitxml={j}"], cwd=repo, env=e)
    base = set(json.load(open("/root/.vp/BASELINE.json"))["stable_pass"])
    passed = set()
    try:
        for tc in ET.parse(j).getroot().iter("testcase"):
            if not any(c.tag in ("failure", "error", "skipped") for c in tc):
                passed.add(f"{tc.get('classname')}::{tc.get('name')}")
    finally:
        if os.path.exists(j):
            os.remove(j)
    missing = sorted(base - passed)
    return not missing, missing[:5]


def main():
    ap = argparse.ArgumentParser()
    ap.add_argument("pid")
    ap.add_argument("outdir")
    ap.add_argument("--checks")
    ap.add_argument("--tier", default="quick")
    ap.add_argument("--only")
    ap.add_argument("--no-store", action="store_true")
    ap.add_argument("--wave", default="", help="infix for the stored directory name, e.g. w4 -> seeded/C02-w4-1")
    a = ap.parse_args()
    checks = a.checks.split(",") if a.checks else [a.pid]
    ks = sorted(f[5:-5] for f in os.listdir(a.outdir) if f.startswith("patch") and f.endswith(".diff"))
    summary = []
    for k in ks:
        if a.only and k != a.only:
            continue
        patch = os.path.join(a.outdir, f"patch{k}.diff")
        demo = os.path.join(a.outdir, f"demo{k}.py")
        scratch = tempfile.mkdtemp(prefix="bcvseed-", dir="/tmp")
        rec = {"property": a.pid, "k": k, "patch": patch}
        try:
            repo = os.path.join(scratch, "repo")
            shutil.copytree("/repo", repo, ignore=shutil.ignore_patterns(".git", "__pycache__", "*.egg-info"))
            sh(["git", "init", "-q"], cwd=repo)
            # demos of later waves start with `import thirdparty_shims` (= bcv/compat.py, third-party API drift only)
            shutil.copy(os.path.join(HERE, "bcv", "compat.py"), os.path.join(repo, "thirdparty_shims.py"))
            # demo on the clean copy
            e = dict(os.environ, PYTHONPATH=os.pathsep.join([repo, HERE]), PYTHONDONTWRITEBYTECODE="1")
            d0 = sh([PY, "-B", demo], cwd=repo, env=e) if os.path.exists(demo) else None
            rec["demo_clean_exit"] = d0.returncode if d0 else None
            r = sh(["git", "apply", "--whitespace=nowarn", patch], cwd=repo)
            if r.returncode != 0:
                r = sh(["patch", "-p1", "-s", "-i", patch], cwd=repo)
            rec["applies"] = r.returncode == 0
            if not rec["applies"]:
                rec["error"] = (r.stdout + r.stderr)[-400:]
                summary.append(rec)
                continue
            ok, missing = baseline_ok(repo)
            rec["baseline_passes"] = ok
            rec["baseline_missing"] = missing
            d1 = sh([PY, "-B", demo], cwd=repo, env=e) if os.path.exists(demo) else None
            rec["demo_patched_exit"] = d1.returncode if d1 else None
            rec["demo_patched_tail"] = (d1.stdout + d1.stderr)[-300:] if d1 else None
            rec["confirmed"] = bool(ok and d0 and d1 and d0.returncode == 0 and d1.returncode != 0)
            rec["checks"] = {}
            for c in checks:
                e2 = dict(os.environ, VERIF_REPO=repo, BCV_REPLAY_DIR=os.path.join(scratch, "replays"))
                p = sh([os.path.join(HERE, "check"), c, "--tier", a.tier, "--no-evidence"], env=e2, timeout=6 * 3600)
                viol = [ln for ln in p.stdout.splitlines() if ln.startswith("VIOLATION")]
                mons = [ln.strip()[:200] for ln in p.stderr.splitlines() if ln.strip().startswith("[")][:4]
                rec["checks"][c] = {"exit": p.returncode, "violations": len(viol), "monitors": mons,
                                    "tail": p.stdout.strip().splitlines()[-1][:300] if p.stdout.strip() else ""}
            caught = [c for c, v in rec["checks"].items() if v["exit"] == 1 and v["violations"]]
            rec["caught_by"] = caught
            print(f"{a.pid} change {k}: applies={rec['applies']} baseline={ok} demo clean/patched={rec['demo_clean_exit']}/{rec['demo_patched_exit']} "
                  f"confirmed={rec['confirmed']} caught_by={caught or 'NONE'}")
            for c, v in rec["checks"].items():
                print(f"    {c}: exit={v['exit']} {v['monitors'][:2]}")
            if rec["confirmed"] and not a.no_store:
                dst = os.path.join(HERE, "seeded", f"{a.pid}-{a.wave + '-' if a.wave else ''}{k}")
                os.makedirs(dst, exist_ok=True)
                shutil.copy(patch, os.path.join(dst, "patch.diff"))
                shutil.copy(demo, os.path.join(dst, "demo.py"))
                readme = os.path.join(a.outdir, "README.md")
                meta = {"breaks_property": a.pid, "source": "independent fault-seeding sub-agent (saw only the property text and its own worktree)",
                        "needs_to_manifest": "see README excerpt", "ran": {
                            "baseline": "pinned pytest command on a scratch copy with the patch: all BASELINE stable_pass tests still pass",
                            "demo": f"demo.py exit {rec['demo_clean_exit']} on the clean copy, {rec['demo_patched_exit']} with the patch",
                            "checks": rec["checks"]}, "caught_by": caught, "tier": a.tier}
                if os.path.exists(readme):
                    shutil.copy(readme, os.path.join(dst, "README.agent.md"))
                json.dump(meta, open(os.path.join(dst, "meta.json"), "w"), indent=1)
        finally:
            shutil.rmtree(scratch, ignore_errors=True)
        summary.append(rec)
    print(json.dumps([{k: v for k, v in r.items() if k in ("k", "confirmed", "caught_by", "applies", "baseline_passes")} for r in summary]))


if __name__ == "__main__":
    main()
