#!/bin/sh
# usage: tools/sweep.sh <tier> "<seeds>" [ids...]   - runs checks without touching evidence; one summary line per run
HERE="$(cd "$(dirname "$0")/.." && pwd)"
tier=$1; seeds=$2; shift 2
ids="$@"; [ -z "$ids" ] && ids="C01 C02 C03 C04 C05 C06 C07 C08 C09 C10 C11 C12 C13 C14 C15 C16 C17 C18 C19 C20"
for s in $seeds; do for i in $ids; do
  t0=$(date +%s)
  out=$(VERIF_SEED=$s "$HERE/check" $i --tier $tier --no-evidence 2>"$HERE/.work/sweep-$i-$tier-$s.err"); rc=$?
  echo "$i tier=$tier seed=$s exit=$rc secs=$(( $(date +%s)-t0 )) :: $(echo "$out" | grep -v '^KNOWN-FINDING' | tail -1 | cut -c1-260)"
  [ $rc -ne 0 ] && { echo "$out" | head -8; head -c 2500 "$HERE/.work/sweep-$i-$tier-$s.err"; echo; }
done; done
exit 0
