#!/usr/bin/env python3
"""Re-runs our checks against the stored seeded changes (seeded/<ID>-<k>/patch.diff) on scratch copies of /repo.

usage: tools/reseed.py [name-filter ...] [--tier quick] [--checks C07,C10] [-j 3]
For each stored change: scratch copy of /repo/inscripta (outside /repo and /verif), apply patch, run the property's check
(and any extra checks listed in meta.json 'also_checks' or --checks) with VERIF_REPO, record caught/missed in meta.json
('now': {...}).  Scratch copies are removed at once.  Prints one line per change.
"""
import argparse
import concurrent.futures
import json
import os
import shutil
import subprocess
import sys
import tempfile

HERE = os.path.dirname(os.path.dirname(os.path.abspath(__file__)))


def one(name, tier, extra):
    d = os.path.join(HERE, "seeded", name)
    meta_p = os.path.join(d, "meta.json")
    meta = json.load(open(meta_p)) if os.path.exists(meta_p) else {}
    pid = meta.get("breaks_property") or name.split("-")[0]
    checks = [pid] + [c for c in (meta.get("also_checks") or []) if c != pid]
    for c in extra:
        if c not in checks:
            checks.append(c)
    scratch = tempfile.mkdtemp(prefix="bcvreseed-", dir="/tmp")
    out = {}
    try:
        shutil.copytree("/repo/inscripta", os.path.join(scratch, "inscripta"), ignore=shutil.ignore_patterns("__pycache__"))
        subprocess.run(["git", "init", "-q"], cwd=scratch)
        r = subprocess.run(["git", "apply", "--whitespace=nowarn", "--include=inscripta/*", os.path.join(d, "patch.diff")], cwd=scratch, capture_output=True, text=True)
        if r.returncode != 0:
            r = subprocess.run(["patch", "-p1", "-s", "-f", "-i", os.path.join(d, "patch.diff")], cwd=scratch, capture_output=True, text=True)
        if r.returncode != 0:
            return name, {"error": "patch does not apply: " + (r.stdout + r.stderr)[-300:]}
        for c in checks:
            p = subprocess.run([os.path.join(HERE, "check"), c, "--tier", tier, "--no-evidence"], env=dict(os.environ, VERIF_REPO=scratch, BCV_REPLAY_DIR=os.path.join(scratch, "replays")),
                               capture_output=True, text=True)
            mons = sorted({ln.strip().split("]")[0][1:] for ln in p.stderr.splitlines() if ln.strip().startswith("[")})
            out[c] = {"exit": p.returncode, "violations": sum(ln.startswith("VIOLATION") for ln in p.stdout.splitlines()), "monitors": mons[:8],
                      "tail": (p.stdout.strip().splitlines() or [""])[-1][:300]}
    finally:
        shutil.rmtree(scratch, ignore_errors=True)
    caught = [c for c, v in out.items() if v["exit"] == 1 and v["violations"]]
    meta["now"] = {"tier": tier, "checks": out, "caught_by": caught}
    json.dump(meta, open(meta_p, "w"), indent=1)
    return name, {"caught_by": caught, "checks": out}


def main():
    ap = argparse.ArgumentParser()
    ap.add_argument("filt", nargs="*")
    ap.add_argument("--tier", default="quick")
    ap.add_argument("--checks", default="")
    ap.add_argument("-j", type=int, default=3)
    a = ap.parse_args()
    names = sorted(n for n in os.listdir(os.path.join(HERE, "seeded")) if os.path.isdir(os.path.join(HERE, "seeded", n)))
    if a.filt:
        names = [n for n in names if any(f in n for f in a.filt)]
    extra = [c for c in a.checks.split(",") if c]
    with concurrent.futures.ThreadPoolExecutor(max_workers=a.j) as ex:
        for name, r in ex.map(lambda n: one(n, a.tier, extra), names):
            if "error" in r:
                print(f"{name}: ERROR {r['error']}")
                continue
            det = "; ".join(f"{c}: exit={v['exit']} {','.join(v['monitors'][:3])}" for c, v in r["checks"].items())
            print(f"{name}: {'CAUGHT by ' + ','.join(r['caught_by']) if r['caught_by'] else 'MISSED'}   [{det}]", flush=True)


if __name__ == "__main__":
    main()
