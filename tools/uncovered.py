#!/usr/bin/env python3
"""usage: tools/uncovered.py C05 [--tier quick] [--never]   - which lines of the property's anchored files the workload never executed
(inside functions it did enter; with --never also the functions never entered).  Guide for widening workloads; not a verdict."""
import json, os, subprocess, sys, tempfile, linecache
HERE = os.path.dirname(os.path.dirname(os.path.abspath(__file__)))
pid = sys.argv[1]; tier = sys.argv[sys.argv.index("--tier") + 1] if "--tier" in sys.argv else "quick"
out = tempfile.mktemp(suffix=".json")
subprocess.run([os.path.join(HERE, "check"), pid, "--tier", tier, "--no-evidence"], env=dict(os.environ, BCV_COVER_DETAIL=out), capture_output=True)
d = json.load(open(out)); os.remove(out)
repo = os.environ.get("VERIF_REPO", "/repo")
for k, v in d["files"].items():
    print(f"{k}: {v['executed_lines']}/{v['executable_lines']} lines, {v['functions_entered']}/{v['functions']} functions")
for fn, lines in sorted(d.get("partial", {}).items()):
    rel, name = fn.split(":", 1)
    print(f"\n== {fn}  (never executed: {len(lines)} lines)")
    for ln in lines:
        print(f"   {ln:5d}  {linecache.getline(os.path.join(repo, rel), ln).rstrip()[:150]}")
if "--never" in sys.argv:
    print("\nnever entered:"); print("\n".join("  " + x for x in d["functions_never_entered"]))
