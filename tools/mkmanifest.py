#!/usr/bin/env python3
"""Regenerates MANIFEST.json from the table below (run from /verif)."""
import json, os, sys

HERE = os.path.dirname(os.path.dirname(os.path.abspath(__file__)))
BASELINE = ("cd /repo && /venv/bin/python -m pytest -ra -q -p no:cacheprovider --timeout=900 "
            "--continue-on-collection-errors")
NOTE = ("Trusted base: CPython 3.12, icontract, Biopython tables/GenBank reader as independent oracle, the harness' own "
        "reference models (self-tested against documented examples at start-up), third-party API shims of bcv/compat.py "
        "(marshmallow 4 / Biopython 1.88 / missing pyvcf). Pure-Python paths only (cgranges absent). Verdict is 'held on "
        "the executions listed in the evidence file'.")

# id -> (technique, level text, design section)
CHECKS = {}
exec(open(os.path.join(HERE, "tools", "checks_table.py")).read())

props = [json.loads(l) for l in open(os.path.join(HERE, "properties.jsonl"))]
checks, na = [], []
for p in props:
    pid = p["id"]
    if pid in CHECKS:
        tech, text, ref = CHECKS[pid]
        checks.append({
            "property_id": pid,
            "quick_cmd": f"./check {pid} --tier quick",
            "thorough_cmd": f"./check {pid} --tier thorough",
            "evidence_file": f"evidence/{pid}.json",
            "replay_cmd_template": f"./check {pid} --replay {{path}}",
            "engine": "bcv",
            "level_claimed": {"category": "exploration", "text": text, "design_ref": ref},
            "level_note": NOTE,
            "technique": tech,
        })
    else:
        na.append({"property_id": pid, "reason": "check not built yet in this session (planned, see DESIGN.md section 5); not claimed until its monitor is vetted on the unchanged tree"})
m = {
    "version": 1,
    "setup_cmd": "./setup.sh",
    "hooks": {
        "guard": "BIOCANTOR_VERIF",
        "enable": "no source hooks: the harness (bcv/) attaches icontract contracts, boundary wrappers and sys.monitoring counters to the real classes at import time when BIOCANTOR_VERIF=1 (set by ./check); /repo is imported from its working tree (VERIF_REPO, default /repo), never byte-compiled",
        "baseline_off_cmd": BASELINE,
        "source_commits": [],
        "add_only": True,
    },
    "engines": [{"name": "bcv", "path": "bcv/", "serves_properties": sorted(CHECKS),
                 "kind_free_text": "runtime monitoring: icontract contracts on the real classes, reference-model oracles, history/twin monitors, independent file readers, sys.monitoring reach counters; sharded seeded + exhaustive small-scope workloads"}],
    "checks": checks,
    "not_applicable": na,
    "notes": "All checks: ./check <ID> [--tier quick|thorough] [--replay FILE]; exit 0 held / 1 VIOLATION / 2 INCONCLUSIVE. Known findings in KNOWN_FINDINGS.json (never written at run time).",
}
if not na:
    m["not_applicable"] = []
json.dump(m, open(os.path.join(HERE, "MANIFEST.json"), "w"), indent=1)
print("MANIFEST.json:", len(checks), "checks,", len(na), "not claimed")
