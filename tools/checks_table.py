CHECKS["C15"] = (
    "runtime monitoring: reference-table oracle (Biopython NCBI tables, IUPAC data, modular/group laws) evaluated on every element of the finite domains through the real API",
    "complete sweep of the finite domains (64 codons, 3x4096 IUPAC triplet spellings, all alphabet letters/pairs, frames x shifts, strand pairs/triples, biotype names) on every run; exhaustive for the stated domains",
    "DESIGN.md 5/C15",
)
