CHECKS["C15"] = (
    "runtime monitoring: reference-table oracle (Biopython NCBI tables, IUPAC data, modular/group laws) evaluated on every element of the finite domains through the real API",
    "complete sweep of the finite domains (64 codons, 3x4096 IUPAC triplet spellings, all alphabet letters/pairs, frames x shifts, strand pairs/triples, biotype names) on every run; exhaustive for the stated domains",
    "DESIGN.md 5/C15",
)

CHECKS["C16"] = (
    "runtime monitoring: reference-model monitor (transcription of kent binRange.c) on every bins() call of the workload, stored-bin invariant on constructed interval objects, end-to-end strict range queries across bin boundaries",
    "exhaustive for (start,end) pairs in bands around every multiple k*2^j (j=17..29) in both coordinate conventions and for (interval, query) pairs on a thinner grid; random pairs up to 2^30; one recorded finding (K6)",
    "DESIGN.md 5/C16",
)

CHECKS["C01"] = (
    "runtime monitoring: position-list reference model checked against every point / interval / location conversion call of SingleInterval, CompoundInterval and the FeatureInterval wrappers under exhaustive small-scope and seeded random workloads",
    "exhaustive for all 1..3-block layouts over a small genome x strands x every position and sub-interval, and all (location, query) pairs of <=2-block layouts; random layouts incl. self-overlapping blocks; one recorded finding (K16), two repaired (F6, F10)",
    "DESIGN.md 5/C01",
)

CHECKS["C02"] = (
    "runtime monitoring: position-set reference model and structural invariant monitors (well-formed / span / normalised / no-empty-block) evaluated on every result of every set-algebra, optimisation, extension, reversal, shift and distance call under exhaustive small-scope and seeded random workloads",
    "exhaustive for all ordered pairs of <=2-block locations over a small genome x 3 strands x all flag combinations and all unary operations on <=3-block layouts; random larger pairs incl. engineered touching/nesting, self-overlapping operands and mismatched parents; three defects repaired (F10, F11, F13)",
    "DESIGN.md 5/C02",
)

CHECKS["C05"] = (
    "runtime monitoring: reading-frame reference model (exon walker + Biopython tables) compared with codon locations, both extract_sequence paths, scan_codons, translate, start/stop flags, chromosome windows and generated frames of real CDSInterval objects",
    "exhaustive for all 1..3-block CDS layouts over a small genome x strands x every frame vector in {0,1,2}^k x every chromosome window; random CDS with IUPAC/lower-case letters and engineered start/stop codons; two recorded findings (K13, K18), one repaired (F14)",
    "DESIGN.md 5/C05",
)
CHECKS["C20"] = (
    "runtime monitoring: plain-Python aggregate oracle (min/max, set union, documented primary rule, frame/sequence models) and twin comparison evaluated on real GeneInterval / FeatureIntervalCollection / AnnotationCollection objects",
    "all tuples of 1..3 children over a palette of (CDS length, spliced length) pairs in every order (all tie patterns), flags none/one/several, same/mixed strands, five parent kinds; random genes and collections; one recorded finding (K2), one repaired (F15)",
    "DESIGN.md 5/C20",
)

CHECKS["C14"] = (
    "runtime monitoring: independent BED12 reader (format invariants + decoding) evaluated on every record exported by the real to_bed12 of TranscriptInterval / FeatureInterval in both coordinate modes",
    "complete sweep of 1..3-exon layouts x strands x object kinds x every chunk window overlapping the interval x both modes; seeded random larger intervals; one defect repaired (F4)",
    "DESIGN.md 5/C14",
)
CHECKS["C18"] = (
    "runtime monitoring: independent reference implementation of the documented priority rule and twin (re-ordered input) comparison run next to every extract / merge / filter call; LOCUS_TAG GenBank parsing of every permutation of generated feature records",
    "all subsets of the recognised / look-alike keys in ALL insertion orders (<=5 quick, <=7 thorough), seeded merge/filter pairs, all permutations (<=6/7 features) of locus-tag-complete GenBank records; two recorded findings (K30, K31), one repaired (K32)",
    "DESIGN.md 5/C18",
)

CHECKS["C03"] = (
    "runtime monitoring: position-list + IUPAC-complement reference model compared with every extract_sequence / reverse_strand / split / slice / reverse_complement / append result of the real Location and Sequence classes",
    "exhaustive small layouts x strands, all slice bounds of short sequences, all append-compatible pairs, all five nucleotide alphabets with every letter in both cases; random genomes and layouts incl. self-overlapping blocks; two defects repaired (slice with open bound/step, append of self-overlapping operands)",
    "DESIGN.md 5/C03",
)
CHECKS["C07"] = (
    "runtime monitoring: twin monitor (same spec built on the whole chromosome and on a sequence chunk) plus position / sequence / reading-frame models restricted to the chunk, evaluated on features, transcripts, CDS, genes, feature collections and annotation collections (built on a chunk and obtained by query_by_position)",
    "seven engineered layouts x strands x start frames under EVERY window of a small genome, random transcripts under engineered and random windows, window+chunk combinations, collections; two recorded findings (K18, K8), three repaired (K5, K20, K21)",
    "DESIGN.md 5/C07",
)
CHECKS["C08"] = (
    "runtime monitoring: round-trip equality monitors (library == plus an independent deep snapshot through public accessors) for dict / schema-JSON / pickle, cross-process guid monitor (child interpreters under a PYTHONHASHSEED sweep with shuffled insertion orders), guid sensitivity / locality monitors under single-field perturbation",
    "generated collections with genes, features, variants, all parent kinds; 16 (quick) / 256 (thorough) child interpreters; exhaustive qualifier-key orders on single objects; one recorded finding (K19), two repaired",
    "DESIGN.md 5/C08",
)
CHECKS["C11"] = (
    "runtime monitoring: independent GFF3 reader (9 columns, percent-decoding, ID/Parent/order/phase invariants) on every exported file, and export -> BioCantor parse -> structural comparison / re-export on generated collections with hostile qualifier text",
    "seeded random collections x seven export modes (chromosome / chunk-relative, with/without FASTA, with/without sequence) with keys/values from a hostile alphabet; two recorded findings (K41, K13), four repaired (F7, F9, K4, F18)",
    "DESIGN.md 5/C11",
)
CHECKS["C17"] = (
    "runtime monitoring: independent NCBI feature-table reader on every file written by collection_to_tbl, compared with a plain-Python model of intervals, partial marks (reading-frame model + Biopython start tables), codon_start, pseudo, locus tags; reproducibility by a second export under a perturbed global random state",
    "full grid of layouts x strands x start frames x length mod 3 x first codon x stop / in-frame stop, random multi-gene collections x 2 flavours x 3 translation tables x jump sizes / seeds; one recorded finding (K13), one repaired (F19)",
    "DESIGN.md 5/C17",
)
CHECKS["C19"] = (
    "runtime monitoring: exception-boundary monitor (classifies every escaping exception from its traceback: documented family vs internal error) and structural invariant monitors on every returned object, driven by a 344-entry constructor corruption matrix and an inspect-driven sweep of every public property/method with boundary arguments",
    "complete corruption matrix; API sweep over fixed edge objects and seeded random objects of every class on four parent kinds; fourteen leaks repaired (see KNOWN_FINDINGS.json fixed entries)",
    "DESIGN.md 5/C19",
)

CHECKS["C04"] = (
    "runtime monitoring: lift-over reference model (composition of position lists through a hierarchy the harness builds itself; level strings by the IUPAC complement model; chunk push-down) compared with every lift_over_to_first_ancestor_of_type / lift_over_to_sequence / lift_child_location_to_parent / chunk lift result, plus refusal and ancestor-search monitors",
    "exhaustive depth-1 and depth-2 hierarchies over small roots x all strand mixes x every child location; random hierarchies of depth 1..4 (all 30 strand mixes); every chunk window x strand x location over a small genome; one defect repaired (lift of a child with leading empty blocks)",
    "DESIGN.md 5/C04",
)
CHECKS["C06"] = (
    "runtime monitoring: position-list reference model (exon list E, CDS list C) compared with every conversion method of TranscriptInterval / CDSInterval / FeatureInterval, path-commutation and inverse monitors (library vs library), UTR partition and intron monitors",
    "exhaustive: all 1..3-exon layouts x strands x every CDS placement x every position and sub-interval in chromosome and chunk-relative flavours on four parent kinds; random 1..4-exon transcripts; no finding on the current tree (F6 repaired earlier)",
    "DESIGN.md 5/C06",
)
CHECKS["C10"] = (
    "runtime monitoring: history/twin monitor (object asked after a random call history with Parent-cache eviction storms, cache clears and look-alike collisions vs a freshly built twin; value AND type), repeat and anchor monitors, operand / argument immutability snapshots around every catalogue call",
    "inspect-driven accessor catalogue (memoised members unwrapped) + ~150 fixed-argument calls on locations, sequences, codons and all gene-layer classes on five parent kinds; 1284 (quick) histories with confirmed cache evictions; three defects repaired (F2, F3, sequence-type spelling)",
    "DESIGN.md 5/C10",
)

CHECKS["C13"] = (
    "runtime monitoring: edit-script reference model (literal substitution with per-base coordinate map) compared with alternative sequences, lifted locations and spliced sequences after incorporate_variants on features / transcripts / CDS / genes / collections, on chromosome and chunk parents; duck-typed VCF records for the phase-set grouping",
    "complete sweep of single variants and variant pairs over a small reference x every contain-or-avoid 1..2-block location x strands; random references with 1..4 variants; one recorded finding (K1), one repaired (minus-strand start frame after incorporation)",
    "DESIGN.md 5/C13",
)

CHECKS["C12"] = (
    "runtime monitoring: independent GenBank reader (Bio.SeqIO) on every file written by collection_to_genbank compared with the source model (types, join parts, strand, identifiers, /translation vs independent translation), export -> parse_genbank in SORTED / LOCUS_TAG / HYBRID modes with mode-agreement monitor, and an independent-writer leg (Biopython-written records with /codon_start) for the parsers",
    "random collections of 1..6 single-transcript genes (coding with start frames 0/1/2, five non-coding biotypes, multi-exon, both strands, feature collections) x 2 flavours x update_translations x 3 parser modes, plus a single-gene grid; one defect repaired (writer omitted /codon_start)",
    "DESIGN.md 5/C12",
)

CHECKS["C09"] = (
    "runtime monitoring: brute-force integer membership model and posmodel/seqmodel sequence oracle evaluated on every result of query_by_position (all 8 flag combinations, bin shortcut on and off) and of the five id / guid queries of real AnnotationCollections, first and second generation (queries on query results), with refusal monitor for invalid ranges",
    "seeded random collections (genes, feature collections, variant collections; chromosome / chunk / no parent; explicit and inferred bounds) over genomes <= 500 bp and sequence-less collections in bands around k*2^17; ranges at member end points +-1, 1-bp ranges, bounds, start 0; all subsets of <= 4 identifiers; one recorded finding (K42), two repaired (F20, F32); pure-Python query path only (cgranges absent)",
    "DESIGN.md 5/C09",
)
