CHECKS["C15"] = (
    "runtime monitoring: reference-table oracle (Biopython NCBI tables, IUPAC data, modular/group laws) evaluated on every element of the finite domains through the real API",
    "complete sweep of the finite domains (64 codons, 3x4096 IUPAC triplet spellings, all alphabet letters/pairs, frames x shifts, strand pairs/triples, biotype names) on every run; exhaustive for the stated domains",
    "DESIGN.md 5/C15",
)

CHECKS["C16"] = (
    "runtime monitoring: reference-model monitor (transcription of kent binRange.c) on every bins() call of the workload, stored-bin invariant on constructed interval objects, end-to-end strict range queries across bin boundaries",
    "exhaustive for (start,end) pairs in bands around every multiple k*2^j (j=17..29) in both coordinate conventions and for (interval, query) pairs on a thinner grid; random pairs up to 2^30; one recorded finding (K6)",
    "DESIGN.md 5/C16",
)

CHECKS["C01"] = (
    "runtime monitoring: position-list reference model checked against every point / interval / location conversion call of SingleInterval, CompoundInterval and the FeatureInterval wrappers under exhaustive small-scope and seeded random workloads",
    "exhaustive for all 1..3-block layouts over a small genome x strands x every position and sub-interval, and all (location, query) pairs of <=2-block layouts; random layouts incl. self-overlapping blocks; one recorded finding (K16), two repaired (F6, F10)",
    "DESIGN.md 5/C01",
)

CHECKS["C02"] = (
    "runtime monitoring: position-set reference model and structural invariant monitors (well-formed / span / normalised / no-empty-block) evaluated on every result of every set-algebra, optimisation, extension, reversal, shift and distance call under exhaustive small-scope and seeded random workloads",
    "exhaustive for all ordered pairs of <=2-block locations over a small genome x 3 strands x all flag combinations and all unary operations on <=3-block layouts; random larger pairs incl. engineered touching/nesting, self-overlapping operands and mismatched parents; three defects repaired (F10, F11, F13)",
    "DESIGN.md 5/C02",
)

CHECKS["C05"] = (
    "runtime monitoring: reading-frame reference model (exon walker + Biopython tables) compared with codon locations, both extract_sequence paths, scan_codons, translate, start/stop flags, chromosome windows and generated frames of real CDSInterval objects",
    "exhaustive for all 1..3-block CDS layouts over a small genome x strands x every frame vector in {0,1,2}^k x every chromosome window; random CDS with IUPAC/lower-case letters and engineered start/stop codons; two recorded findings (K13, K18), one repaired (F14)",
    "DESIGN.md 5/C05",
)
CHECKS["C20"] = (
    "runtime monitoring: plain-Python aggregate oracle (min/max, set union, documented primary rule, frame/sequence models) and twin comparison evaluated on real GeneInterval / FeatureIntervalCollection / AnnotationCollection objects",
    "all tuples of 1..3 children over a palette of (CDS length, spliced length) pairs in every order (all tie patterns), flags none/one/several, same/mixed strands, five parent kinds; random genes and collections; one recorded finding (K2), one repaired (F15)",
    "DESIGN.md 5/C20",
)
