#!/bin/sh
# Runs the pinned baseline test command (guard off) and compares the set of passing tests with BASELINE.json.
J=$(mktemp /tmp/bcv-junit-XXXX.xml)
cd /repo && env -u BIOCANTOR_VERIF /venv/bin/python -m pytest -ra -q -p no:cacheprovider --timeout=900 --continue-on-collection-errors --junitxml=$J >/tmp/bcv-baseline.log 2>&1
tail -3 /tmp/bcv-baseline.log
python3 - "$J" <<'PY'
import sys, json, xml.etree.ElementTree as ET
base = set(json.load(open('/root/.vp/BASELINE.json'))['stable_pass'])
passed = set()
for tc in ET.parse(sys.argv[1]).getroot().iter('testcase'):
    if not any(c.tag in ('failure', 'error', 'skipped') for c in tc):
        passed.add(f"{tc.get('classname')}::{tc.get('name')}")
missing = sorted(base - passed)
print(f"baseline stable_pass={len(base)} passed_now={len(passed)} missing_from_baseline={len(missing)}")
for m in missing[:20]: print("  MISSING", m)
sys.exit(1 if missing else 0)
PY
rc=$?; rm -f $J; find /repo -name __pycache__ -type d -prune -exec rm -rf {} + 2>/dev/null; exit $rc
