#!/opt/veriftools/pyvenv/bin/python
"""Validates MANIFEST.json and every evidence file against the schemas."""
import json, sys, glob, os, jsonschema
HERE = os.path.dirname(os.path.dirname(os.path.abspath(__file__)))
ms = json.load(open("/root/.vp/MANIFEST.schema.json")); es = json.load(open("/root/.vp/EVIDENCE.schema.json"))
jsonschema.validate(json.load(open(os.path.join(HERE, "MANIFEST.json"))), ms); print("MANIFEST ok")
for f in sorted(glob.glob(os.path.join(HERE, "evidence", "*.json"))):
    jsonschema.validate(json.load(open(f)), es); print("evidence ok", os.path.basename(f))
