#!/bin/sh
# usage: tools/applyfix.sh <diff> "<commit message>"   - applies a proposed fix to /repo, runs baseline + shimmed suite, commits if green
set -e
cd /repo
git apply --whitespace=nowarn "$1" || patch -p1 -s -i "$1"
git diff --stat
if /verif/tools/baseline.sh | tail -1 | grep -q "missing_from_baseline=0"; then echo "baseline ok"; else echo "BASELINE BROKEN"; /verif/tools/baseline.sh | grep MISSING | head; git checkout -- .; exit 1; fi
/verif/tools/fullsuite.sh | tail -1
git commit -qam "$2"
git log --oneline | head -1
