#!/usr/bin/env python3
"""Mutation self-test: applies each catalogued one-token edit to a scratch copy of /repo (outside /repo and /verif),
runs the property's check against it (VERIF_REPO) and expects exit 1 + VIOLATION.  Scratch copies are removed at once.

usage: tools/muttest.py C15 [name-substring] [--tier quick|thorough] [--patch FILE]
"""
import os, shutil, subprocess, sys, tempfile, json, importlib.util, argparse

HERE = os.path.dirname(os.path.dirname(os.path.abspath(__file__)))

def load_catalogue():
    import glob
    muts = {}
    for f in sorted(glob.glob(os.path.join(HERE, "bcv", "selftest", "cat*.py"))):
        spec = importlib.util.spec_from_file_location("catalogue", f)
        m = importlib.util.module_from_spec(spec); spec.loader.exec_module(m); muts.update(m.MUTATIONS)
    return muts

def scratch():
    d = tempfile.mkdtemp(prefix="bcvmut-", dir=os.environ.get("TMPDIR", "/tmp"))
    shutil.copytree("/repo/inscripta", os.path.join(d, "inscripta"), ignore=shutil.ignore_patterns("__pycache__"))
    return d

def run_check(pid, repo, tier):
    e = dict(os.environ, VERIF_REPO=repo, BCV_REPLAY_DIR=os.path.join(repo, "replays"))
    p = subprocess.run([os.path.join(HERE, "check"), pid, "--tier", tier, "--no-evidence"], env=e, capture_output=True, text=True)
    return p.returncode, p.stdout, p.stderr

def main():
    ap = argparse.ArgumentParser(); ap.add_argument("pid"); ap.add_argument("filt", nargs="?", default="")
    ap.add_argument("--tier", default="quick"); ap.add_argument("--patch")
    a = ap.parse_args()
    results = []
    if a.patch:
        d = scratch()
        try:
            subprocess.run(["git", "init", "-q"], cwd=d); 
            r = subprocess.run(["patch", "-p1", "-s", "-i", os.path.abspath(a.patch)], cwd=d, capture_output=True, text=True)
            if r.returncode: print("patch failed", r.stdout, r.stderr); sys.exit(3)
            rc, out, err = run_check(a.pid, d, a.tier)
            print(f"{a.pid} patch {a.patch}: exit={rc}"); print(out[-1500:]); print(err[-1500:])
        finally:
            shutil.rmtree(d, ignore_errors=True)
        return
    for name, (pids, path, old, new) in load_catalogue().items():
        if a.pid not in pids or a.filt not in name: continue
        d = scratch()
        try:
            f = os.path.join(d, path); s = open(f).read()
            if s.count(old) != 1:
                print(f"SKIP {name}: pattern occurs {s.count(old)}x"); results.append((name, "skip")); continue
            open(f, "w").write(s.replace(old, new))
            rc, out, err = run_check(a.pid, d, a.tier)
            verdict = "CAUGHT" if rc == 1 and "VIOLATION property=" in out else f"MISSED(exit {rc})"
            print(f"{verdict:14s} {a.pid} {name}")
            if rc != 1: print("   ", out.strip()[-400:].replace("\n", "\n    "))
            results.append((name, verdict))
        finally:
            shutil.rmtree(d, ignore_errors=True)
    missed = [n for n, v in results if v.startswith("MISSED")]
    print(f"{a.pid}: {sum(v=='CAUGHT' for _,v in results)}/{len(results)} caught; missed: {missed}")

if __name__ == "__main__":
    main()
