"""C13  Variant haplotypes: alternative sequence and lift-over match the edit model.

Reference model: bcv.models.editmodel (one left-to-right walk over the reference that literally substitutes each
variant's bases; per-base map and per-alt-base origin).  No BioCantor code is used to compute an expectation.

Monitors
  alt.single             str(VariantInterval.alternative_genomic_sequence) == model string (chromosome and chunk parents)
  alt.collection         str(VariantIntervalCollection.alternative_genomic_sequence) == model string (input order shuffled)
  alt.parent             parent_with_alternative_sequence carries that string, keeps the sequence type and (chunk) the
                         chromosome start of the chunk
  lift.single            VariantInterval.lift_over_location(L): for L each of whose blocks contains or avoids the variant
                         entirely, the result covers exactly the edited image of L (position set on the alternative
                         haplotype), keeps the strand, and str(extract_sequence()) == edited reference bases (reverse
                         complemented on the minus strand)
  lift.collection        the same through VariantIntervalCollection.lift_over_location (1..4 variants)
  lift.deleted-empty     a location whose image is empty (every block is exactly a run of unpadded deletions, or lies inside
                         the deleted part of a deletion whose alt allele is a literal left pad) becomes empty
  lift.sequenceless      the same coordinates from variants that carry no sequence
  incorporate.feature / .transcript / .cds
                         X.incorporate_variants(variant | collection): new chunk-relative and chromosome locations == image,
                         get_spliced_sequence() == edited spliced reference sequence; a transcript's CDS likewise
  incorporate.cds-frame  CDSInterval.extract_sequence() of the incorporated CDS == edited spliced sequence minus the start
                         offset, cut to whole codons (only where that statement is unambiguous, see latitude)
  incorporate.deleted    incorporating variants that delete the interval entirely is refused with EmptyLocationException
  incorporate.gene / .feature-collection / .annotation-collection
                         every child of the incorporated aggregate has the edited location / sequence
  incorporate.haplotype-map   AnnotationCollection(variant_collections=[vc]).alternative_haplotype_mapping holds, under
                         vc.guid, exactly the genes / feature collections overlapping the collection's span, edited
  vcf.grouping / vcf.alleles  convert_vcf_records_to_model: one collection per (CHROM, phase set) with id str(PS), one
                         single-variant collection per unphased allele, one variant per ALT allele with the record's
                         interval (start == end widened by one), ALT sequence and type

Latitude (the property leaves these open; every admissible answer is accepted)
  * Only locations each of whose blocks contains or avoids every variant entirely are judged; a block that straddles a
    variant edge is never judged (except the `deleted` leg below).
  * Block structure of a lifted location is free (merged / split blocks are fine): position sets, strand and sequence are
    compared.  Parent ids / guids of the results are not compared.
  * "Becomes empty": an EmptyLocation / zero-length result *or* an EmptyLocationException are both accepted (variants that
    carry a sequence raise it from EmptyLocation.reset_parent, sequence-less ones return EmptyLocation()).
  * Which reference bases a *padded* deletion deletes is taken from the module docstring ("left-padded deletion",
    deletion_11_13 = start 10, alt "T"): only deletions whose alt allele is literally the first len(alt) reference
    bases are used for the inside-the-deletion leg.
  * Sequence-less single variants answer some lifts with NullSequenceException (same-length variants and locations left
    of the variant); that refusal is accepted, only returned locations are compared.
  * incorporate.cds-frame is evaluated only when the reference CDS itself reads as "spliced sequence minus start offset,
    whole codons" and, for a start offset 1/2, no variant touches the first three 5' bases and the 5' exon keeps >= 3 bases.
  * A haplotype whose alternative sequence is empty (the variants delete the whole reference / chunk) is not judged: an
    empty Sequence is falsy, BioCantor then reports "no sequence" (NullSequenceException) - degenerate, outside the claim.
  * VCF: order of collections and of variants inside a collection is free; records are passed grouped by CHROM; PS is
    either an int attribute or absent (what a FORMAT column without PS gives); nothing is claimed for PS=None.

Findings on the unchanged tree (see classify() and /verif/proposed_fixes/C13-cds-incorporate-start-frame.diff)
  * K1 (recorded, mechanistic classifier): VariantIntervalCollection.lift_over_location applies the variants left to right
    while each keeps reference coordinates; wrong as soon as a variant that is not the last one changes length and a
    later variant's reference interval meets the already shifted block.  Reversing the loop repairs every judged case
    but four upstream tests (test_variants.py: test_gene_variant_collection, 2x test_annotation_collection,
    TestAnnotationCollection) pin the wrong block "5-11" of their third transcript.
  * CDSInterval.incorporate_variants hands frames[0] - on the minus strand the frame of the 3' exon - to
    construct_frames_from_location as the 5' start frame (incorporate.cds-frame); proposed fix keeps the shimmed suite green.
"""
import itertools

from bcv.gen import loc as GL
from bcv.gen import variants as G
from bcv.models import editmodel as EM
from bcv.models import posmodel as PM
from bcv.models import seqmodel as SM

ID = "C13"
LEVEL = "exploration"
EXHAUSTIVE = False
K1 = "K1-collection-liftover-left-to-right"
RULE = (
    "sweep: every single SNV / padded insertion (1-2 bases, left and right pad) / deletion (1-3 bases, unpadded and left "
    "padded) over a small reference x every 1..2-block location whose blocks contain or avoid it x both strands, and every "
    "non-overlapping pair from a thinner menu likewise (chromosome and chunk parents alternate); random: references of "
    "8..60 bp, 1..4 non-overlapping variants (SNV, left/right padded insertions, unpadded / left / right padded deletions; "
    "biased to adjacency and to position 0 / the last base), 1..3-block locations on both strands with ends biased to "
    "variant ends, chunk parents at random chromosome offsets, transcripts with a CDS sub-range, genes / collections built "
    "from those locations; VCF: duck-typed records over 1..3 CHROMs with 0..3 phase sets, 1..3 ALT alleles.  A signature is "
    "(parent mode, location form, per-variant (class, length change, pad), gap classes between variants, strand, per block "
    "the contain/before/after relation to each variant and whether its ends coincide with variant ends); it is non-trivial "
    "when a length-changing variant lies inside or left of some block (coordinates really shift) - VCF cases: the multiset "
    "of (phase set or none, #ALT) per CHROM."
)
SCOPE = {
    "quick": {"N1": 7, "N2": 7, "NR": 4500, "NV": 320, "PAIR_STEP": 4},
    "thorough": {"N1": 9, "N2": 8, "NR": 50000, "NV": 4000, "PAIR_STEP": 1},
}
FLOOR = {"quick": 8000, "thorough": 30000}
REQUIRED_MONITORS = [
    "incorporate.repeatable", "alt.single", "alt.collection", "alt.parent", "lift.single", "lift.collection", "lift.deleted-empty", "lift.sequenceless",
    "incorporate.feature", "incorporate.transcript", "incorporate.cds", "incorporate.cds-frame", "incorporate.deleted",
    "incorporate.gene", "incorporate.feature-collection", "incorporate.annotation-collection", "incorporate.haplotype-map",
    "vcf.grouping", "vcf.alleles",
]
_V = "inscripta.biocantor.gene.variants:"
REACH = [
    _V + "VariantInterval.alternative_genomic_sequence",
    _V + "VariantInterval.parent_with_alternative_sequence",
    _V + "VariantInterval.lift_over_location",
    _V + "VariantInterval._lift_over_chromosome_location_single_interval",
    _V + "VariantInterval._lift_over_chromosome_location_compound_interval",
    _V + "VariantIntervalCollection.alternative_genomic_sequence",
    _V + "VariantIntervalCollection.parent_with_alternative_sequence",
    _V + "VariantIntervalCollection.lift_over_location",
    "inscripta.biocantor.gene.feature:FeatureInterval.incorporate_variants",
    "inscripta.biocantor.gene.feature:FeatureIntervalCollection.incorporate_variants",
    "inscripta.biocantor.gene.transcript:TranscriptInterval.incorporate_variants",
    "inscripta.biocantor.gene.cds:CDSInterval.incorporate_variants",
    "inscripta.biocantor.gene.gene:GeneInterval.incorporate_variants",
    "inscripta.biocantor.gene.collections:AnnotationCollection.incorporate_variants",
    "inscripta.biocantor.gene.collections:AnnotationCollection._associate_intervals_with_variant_intervals",
    "inscripta.biocantor.io.vcf.parser:convert_vcf_records_to_model",
]
REACH_REQUIRED = REACH
ASSUMPTIONS = [
    "oracle: edit-script model (bcv/models/editmodel.py), self-tested against the literal examples of the variants.py module docstring",
    "VCF leg: no VCF reader is installed; convert_vcf_records_to_model is driven with duck-typed records exposing exactly the "
    "attributes it reads (CHROM, POS, samples[i].data[.PS], affected_start, affected_end, ALT[i].sequence/.type)",
    "pure-Python branch of AnnotationCollection._associate_intervals_with_variant_intervals (cgranges is not installed)",
    "input CDS frames are built with CDSInterval.construct_frames_from_location (C05's subject) and validated on the reference before use",
]
WATCHDOG = {"quick": 1200, "thorough": 3 * 3600}


def setup(ctx):
    from bcv import core

    core.codon_storm(ctx)


def selftest():
    from bcv.core import HarnessError

    try:
        EM.selftest()
        PM.selftest()
        SM.selftest()
    except AssertionError as e:
        raise HarnessError(f"model self-test: {e!r}")


# ------------------------------------------------------------------------------------------------------------------
# workload
# ------------------------------------------------------------------------------------------------------------------
def _rand_hap_case(rng, tier):
    n = rng.choice([8, 12, 20, 20, 30, 40, 60])
    seq = G.rand_seq(rng, n)
    chunk = rng.random() < 0.5
    start = rng.choice([1, 7, 100, 1000, 131070]) if chunk else 0
    k = rng.choice([1, 2, 2, 3, 3, 4]) if n >= 12 else rng.choice([1, 2])
    edits = G.rand_edits(rng, seq, k)
    while not EM.alt_string(seq, edits):      # a haplotype that deletes the whole reference is not judged (see latitude)
        edits = G.rand_edits(rng, seq, k)
    order = list(range(k))
    rng.shuffle(order)
    locs = []
    for _ in range(rng.choice([4, 6, 8])):
        nb = rng.choice([1, 1, 2, 2, 3])
        blocks = G.rand_blocks(rng, n, edits, nb)
        if blocks is None:
            continue
        loc = {"blocks": blocks, "strand": rng.choice("+-"), "form": rng.choice(["parent", "bare"]), "cds": None,
               "frame": rng.choice([0, 0, 0, 1, 2])}
        # CDS sub-range: two allowed boundaries inside exons
        allowed = [b for b in G.allowed_boundaries(n, edits)]
        starts = [b for b in allowed if any(s <= b < e for s, e in blocks)]
        ends = [b for b in allowed if any(s < b <= e for s, e in blocks)]
        if starts and ends and rng.random() < 0.7:
            cs = rng.choice(starts)
            ces = [b for b in ends if b > cs]
            if ces:
                loc["cds"] = [cs, rng.choice(ces)]
        locs.append(loc)
    deleted = G.deleted_blocks(rng, seq, edits)
    return {"kind": "hap", "seq": seq, "start": start, "chunk": chunk, "edits": [edits[i] for i in order], "locs": locs,
            "deleted": deleted, "dstrand": rng.choice("+-")}


class _Obj:
    pass


def _rand_vcf_case(rng):
    recs = []
    seq = G.rand_seq(rng, 40)
    for ci in range(rng.choice([1, 1, 2, 3])):
        chrom = f"chr{ci + 1}"
        sets = rng.sample([0, 0, 1, 2, 5, 18, 77, 1000], rng.choice([0, 1, 2, 3]))   # 0 is a legal phase set (VCF: non-negative integer)
        pos = 0
        for _ in range(rng.choice([1, 2, 3, 5, 8])):
            pos += rng.choice([1, 2, 3, 5])
            if pos >= 36:
                break
            span = rng.choice([0, 1, 1, 1, 2, 3])
            nalt = rng.choice([1, 1, 1, 2, 3])
            alts = []
            for _a in range(nalt):
                kind = rng.choice(["SNV", "ins", "del", "MNV"])
                alts.append([G.rand_seq(rng, rng.choice([0, 1, 1, 2, 3])), kind])
            ps = rng.choice(sets) if sets and rng.random() < 0.7 else None
            recs.append({"chrom": chrom, "pos": pos + 1, "s": pos, "e": pos + span, "alts": alts, "ps": ps,
                         "nsamples": rng.choice([1, 1, 1, 2])})
            pos += max(span, 1)
    return {"kind": "vcf", "seq": seq, "records": recs}


def _sweep_cases(sc):
    """Deterministic sweep cases (same list in every shard; sharded by index)."""
    out = []
    seq1 = "GATTACAGCT"[: sc["N1"]]
    for j, ed in enumerate(G.single_menu(seq1)):
        out.append({"kind": "sweep", "seq": seq1, "start": 100 if j % 2 else 0, "chunk": bool(j % 2), "edits": [ed], "max_blocks": 2})
    seq2 = "CATGGTACAT"[: sc["N2"]]
    menu = G.single_menu(seq2, max_del=2, ins_lens=(2,))
    j = 0
    for a, b in itertools.combinations(menu, 2):
        if a[1] > b[0]:
            continue
        j += 1
        if j % sc["PAIR_STEP"]:
            continue
        out.append({"kind": "sweep", "seq": seq2, "start": 7 if j % 3 == 0 else 0, "chunk": j % 3 == 0, "edits": [a, b], "max_blocks": 2})
    return out


def cases(spec, ctx):
    i, n = spec["i"], spec["n"]
    sc = SCOPE[ctx.tier]
    for idx, c in enumerate(_sweep_cases(sc)):
        if idx % n == i:
            yield c
    rng = ctx.rng
    for _ in range(sc["NR"] // n + 1):
        yield _rand_hap_case(rng, ctx.tier)
    for _ in range(sc["NV"] // n + 1):
        yield _rand_vcf_case(rng)
    # scale: two haplotypes at one site whose (long) inserted alleles have the same length and the same ends and differ only in the middle
    if i < 4:
        lrng = __import__("random").Random(f"C13-long:{ctx.seed}:{i}")
        yield {"kind": "long-alt", "n": lrng.choice([3000, 9000, 20000, 70000]), "seed": lrng.randrange(1 << 30), "chunk": bool(i % 2)}


# ------------------------------------------------------------------------------------------------------------------
# helpers
# ------------------------------------------------------------------------------------------------------------------
def _parent(seq, start, chunk):
    from inscripta.biocantor.io.parser import seq_chunk_to_parent, seq_to_parent

    if chunk:
        return seq_chunk_to_parent(seq, "chrT", start, start + len(seq))
    return seq_to_parent(seq)


def _mk_loc(blocks, strand, form, start, parent):
    """form 'parent': coordinates relative to `parent` (chunk-relative for a chunk); 'bare': chromosome coordinates, no parent."""
    from inscripta.biocantor.location.location_impl import SingleInterval, CompoundInterval

    st = GL.strand_of(strand)
    if form == "parent":
        bl, par = blocks, parent
    else:
        bl, par = [(s + start, e + start) for s, e in blocks], None
    if len(bl) == 1:
        return SingleInterval(bl[0][0], bl[0][1], st, parent=par)
    return CompoundInterval([b[0] for b in bl], [b[1] for b in bl], st, parent=par)


def _read(loc, offset=0):
    """(sorted positions - offset, strand symbol) of a result location; (None, None) when it is empty."""
    if loc is None or loc.is_empty:
        return None, None
    blocks, st = PM.read_location(loc)
    return sorted(p - offset for p in PM.positions(blocks, st)), st


def _want_seq(H, blocks, strand):
    s = H.plus_sequence(blocks)
    return SM.revcomp(s) if strand == "-" else s


def _multi(edits):
    return "multi" if len(edits) > 1 else "single"


def _detail(H, blocks, strand, **kw):
    d = {"edits": [list(e) for e in H.edits], "blocks": [list(b) for b in blocks], "strand": strand}
    d.update(kw)
    return d


def _is_empty_exc(exc):
    from inscripta.biocantor.exc import EmptyLocationException

    return isinstance(exc, EmptyLocationException)


def _judge_location(ctx, monitor, where, H, blocks, strand, res, exc, offset=0, with_seq=True):
    """Compare one returned location with the model image of (blocks, strand) under haplotype H."""
    im = H.location_image(blocks)
    m = _multi(H.edits)
    if not im:
        got, _ = (None, None) if exc is not None else _read(res, offset)
        ok = (exc is None and got is None) or _is_empty_exc(exc)
        ctx.check("lift.deleted-empty", ok, key=(where, "not-empty" if exc is None else "raised:" + type(exc).__name__, m),
                  **_detail(H, blocks, strand, got=got, want=[], exc=repr(exc)[:200] if exc else None, where=where))
        return
    if exc is not None:
        ctx.check(monitor, False, key=(where, "raised:" + type(exc).__name__, m),
                  **_detail(H, blocks, strand, got=None, want=im, exc=repr(exc)[:200], where=where))
        return
    got, gst = _read(res, offset)
    want_seq = _want_seq(H, blocks, strand)
    got_seq = None
    if got is not None and with_seq:
        got_seq, e2 = ctx.call(lambda: str(res.extract_sequence()))
        if e2 is not None:
            got_seq = "raised " + repr(e2)[:120]
    aspect = None
    if got != im:
        aspect = "positions"
    elif gst != strand:
        aspect = "strand"
    elif with_seq and got_seq != want_seq:
        aspect = "sequence"
    ctx.check(monitor, aspect is None, key=(where, aspect, m),
              **_detail(H, blocks, strand, got=got, want=im, got_strand=gst, got_seq=got_seq, want_seq=want_seq, where=where))


def _judge_interval(ctx, monitor, where, H, blocks, strand, new, exc, start, cds_blocks=None):
    """Compare an incorporated interval (feature / transcript / CDS) with the model.  cds_blocks: the CDS carried by a
    transcript (its incorporation happens inside the transcript's and may be what raises)."""
    im = H.location_image(blocks)
    m = _multi(H.edits)
    if not im:
        ok = _is_empty_exc(exc) or (exc is None and new.chunk_relative_location.is_empty)
        ctx.check("incorporate.deleted", ok, key=(where, m), **_detail(H, blocks, strand, exc=repr(exc)[:200] if exc else None,
                                                                       got=None if exc else _read(new.chunk_relative_location)[0], want=[], where=where))
        return False
    if exc is not None:
        ctx.check(monitor, False, key=(where, "raised:" + type(exc).__name__, m),
                  **_detail(H, blocks, strand, got=None, want=im, exc=repr(exc)[:200], where=where, cds_blocks=cds_blocks))
        return False
    got_rel, st_rel = _read(new.chunk_relative_location)
    got_chr, st_chr = _read(new.chromosome_location, start)
    want_seq = _want_seq(H, blocks, strand)
    got_seq, e2 = ctx.call(lambda: str(new.get_spliced_sequence()))
    if e2 is not None:
        got_seq = "raised " + repr(e2)[:120]
    aspect = None
    if got_rel != im:
        aspect = "positions"
    elif got_chr != im:
        aspect = "chromosome-positions"
    elif st_rel != strand or st_chr != strand:
        aspect = "strand"
    elif got_seq != want_seq:
        aspect = "sequence"
    ctx.check(monitor, aspect is None, key=(where, aspect, m),
              **_detail(H, blocks, strand, got=got_rel, got_chromosome=got_chr, want=im, got_strand=st_rel, got_seq=got_seq,
                        want_seq=want_seq, where=where))
    return aspect is None


def _cds_blocks(blocks, cds):
    cs, ce = cds
    out = [[max(s, cs), min(e, ce)] for s, e in blocks]
    return [b for b in out if b[1] > b[0]]


def _frames(blocks, strand, frame):
    from inscripta.biocantor.gene import CDSInterval, CDSFrame

    loc = _mk_loc([(s, e) for s, e in blocks], strand, "bare", 0, None)
    return CDSInterval.construct_frames_from_location(loc, CDSFrame(frame))


def _codons(s, frame):
    s = s[frame:]
    return s[: len(s) - len(s) % 3]


def _frame_precondition(H, ref, blocks, strand, frame, ref_cds_seq):
    """incorporate.cds-frame is stated only where 'edited spliced sequence minus start offset, whole codons' is unambiguous."""
    ref_spliced = SM.extract(PM.positions([tuple(b) for b in blocks], strand), strand, ref)
    if ref_cds_seq != _codons(ref_spliced, frame):
        return False
    if frame == 0:
        return True
    five = PM.positions([tuple(b) for b in blocks], strand)[:3]
    if len(five) < 3 or any(ed[0] <= p < ed[1] for ed in H.edits for p in five):
        return False
    b5 = tuple(blocks[-1] if strand == "-" else blocks[0])
    im5 = H.image(b5)
    return b5[1] - b5[0] >= 3 and im5 is not None and len(im5) >= 3


def _check_cds_frame(ctx, where, H, ref, blocks, strand, frame, old_cds, new_cds):
    ref_seq, e0 = ctx.call(lambda: str(old_cds.extract_sequence()))
    if e0 is not None or not _frame_precondition(H, ref, blocks, strand, frame, ref_seq):
        ctx.bump("cds-frame-precondition-not-met")
        return
    got, e1 = ctx.call(lambda: str(new_cds.extract_sequence()))
    want = _codons(_want_seq(H, blocks, strand), frame)
    ctx.check("incorporate.cds-frame", e1 is None and got == want,
              key=(where, "raised:" + type(e1).__name__ if e1 else "sequence", _multi(H.edits), strand, "multi-exon" if len(blocks) > 1 else "single-exon"),
              **_detail(H, blocks, strand, frame=frame, got_seq=got, want_seq=want, exc=repr(e1)[:200] if e1 else None, where=where,
                        old_frames=[f.value for f in old_cds.frames], new_frames=[f.value for f in new_cds.frames]))


def _signature(case, seq, edits_sorted, blocks, strand, form):
    kinds = tuple(G.edit_kind(seq, ed) for ed in edits_sorted)
    gaps = tuple(min(edits_sorted[j + 1][0] - edits_sorted[j][1], 2) for j in range(len(edits_sorted) - 1))
    starts = {ed[0] for ed in edits_sorted}
    ends = {ed[1] for ed in edits_sorted}
    per = []
    shifting = False
    for bs, be in blocks:
        rel = []
        for ed in edits_sorted:
            r = "c" if (bs <= ed[0] and ed[1] <= be) else ("b" if ed[1] <= bs else "a")
            rel.append(r)
            if r in "cb" and len(ed[2]) != ed[1] - ed[0]:
                shifting = True
        per.append((tuple(rel), bs in starts or bs in ends, be in ends or be in starts, bs == 0, be == len(seq)))
    return ("chunk" if case["chunk"] else "chrom", form, kinds, gaps, strand, tuple(per)), shifting


# ------------------------------------------------------------------------------------------------------------------
# haplotype cases
# ------------------------------------------------------------------------------------------------------------------
class _Hap:
    """Real objects of one case: parent, variants (input order), collection, models."""

    def __init__(self, case):
        from inscripta.biocantor.gene.variants import VariantInterval, VariantIntervalCollection

        self.seq, self.start, self.chunk = case["seq"], case["start"], case["chunk"]
        self.edits_in = [list(e) for e in case["edits"]]
        self.H = EM.Haplotype(self.seq, self.edits_in)
        self.singles = [EM.Haplotype(self.seq, [e]) for e in self.edits_in]
        self.parent = _parent(self.seq, self.start, self.chunk)
        self.variants = [VariantInterval(s + self.start, e + self.start, alt, vt, parent_or_seq_chunk_parent=self.parent)
                         for s, e, alt, vt in self.edits_in]
        self.collection = VariantIntervalCollection(
            [VariantInterval(s + self.start, e + self.start, alt, vt, parent_or_seq_chunk_parent=self.parent) for s, e, alt, vt in self.edits_in],
            parent_or_seq_chunk_parent=self.parent)


def _check_alt(ctx, hap):
    from inscripta.biocantor.location.location_impl import SingleInterval
    from inscripta.biocantor.location.strand import Strand

    def parent_ok(obj, want):
        pwa, e = ctx.call(lambda: obj.parent_with_alternative_sequence)
        if e is not None:
            return False, {"exc": repr(e)[:200]}
        got = str(pwa.sequence)
        typ = getattr(pwa.sequence.sequence_type, "value", pwa.sequence.sequence_type)
        want_typ = "sequence_chunk" if hap.chunk else "chromosome"
        span = None
        if hap.chunk:
            up, e2 = ctx.call(lambda: SingleInterval(0, len(got), Strand.PLUS, parent=pwa).lift_over_to_first_ancestor_of_type("chromosome"))
            span = [up.start, up.end] if e2 is None else repr(e2)[:100]
            ok_span = span == [hap.start, hap.start + len(want)]
        else:
            ok_span = True
        return got == want and typ == want_typ and ok_span, {"got": got, "want": want, "type": typ, "span": span}

    for v, S in zip(hap.variants, hap.singles):
        got, e = ctx.call(lambda: str(v.alternative_genomic_sequence))
        ctx.check("alt.single", e is None and got == S.alt, key=("value", G.edit_kind(hap.seq, S.edits[0])[0], "chunk" if hap.chunk else "chrom"),
                  edits=S.edits, got=got, want=S.alt, exc=repr(e)[:200] if e else None)
        ok, d = parent_ok(v, S.alt)
        ctx.check("alt.parent", ok, key=("single", "chunk" if hap.chunk else "chrom"), edits=S.edits, **d)
    got, e = ctx.call(lambda: str(hap.collection.alternative_genomic_sequence))
    ctx.check("alt.collection", e is None and got == hap.H.alt, key=("value", _multi(hap.H.edits), "chunk" if hap.chunk else "chrom"),
              edits=hap.H.edits, got=got, want=hap.H.alt, exc=repr(e)[:200] if e else None)
    ok, d = parent_ok(hap.collection, hap.H.alt)
    ctx.check("alt.parent", ok, key=("collection", "chunk" if hap.chunk else "chrom"), edits=hap.H.edits, **d)
    # the same haplotype arriving through the data model (what the VCF parser and the schema loaders produce): model -> collection on
    # the same parent is the same haplotype
    from inscripta.biocantor.io.models import VariantIntervalCollectionModel

    def via_model():
        m = VariantIntervalCollectionModel.Schema().load(hap.collection.to_dict())
        return m.to_variant_interval_collection(hap.parent)

    vc2, e = ctx.call(via_model)
    got, e2 = ctx.call(lambda: str(vc2.alternative_genomic_sequence)) if e is None else (None, e)
    ctx.check("alt.collection", e2 is None and got == hap.H.alt, key=("via-data-model", _multi(hap.H.edits), "chunk" if hap.chunk else "chrom"),
              edits=hap.H.edits, got=got, want=hap.H.alt, exc=repr(e2)[:200] if e2 else None)


def _check_lifts(ctx, case, hap, blocks, strand, form, singles=True):
    blocks_t = [tuple(b) for b in blocks]
    sig, shifting = _signature(case, hap.seq, hap.H.edits, blocks_t, strand, form)
    in_all = hap.H.in_scope(blocks_t)
    ctx.note(sig, nontrivial=shifting and in_all, klass=None)
    L = _mk_loc(blocks_t, strand, form, hap.start, hap.parent)
    if singles:
        for v, S in zip(hap.variants, hap.singles):
            if not S.in_scope(blocks_t):
                continue
            res, exc = ctx.call(v.lift_over_location, L)
            _judge_location(ctx, "lift.single", "single", S, blocks_t, strand, res, exc)
    if in_all:
        res, exc = ctx.call(hap.collection.lift_over_location, L)
        _judge_location(ctx, "lift.collection", "collection", hap.H, blocks_t, strand, res, exc)
    return in_all


def _check_sequenceless(ctx, hap, blocks, strand):
    from inscripta.biocantor.exc import NullSequenceException
    from inscripta.biocantor.gene.variants import VariantInterval, VariantIntervalCollection

    blocks_t = [tuple(b) for b in blocks]
    L = _mk_loc(blocks_t, strand, "bare", hap.start, None)
    bare = [VariantInterval(s + hap.start, e + hap.start, alt, vt) for s, e, alt, vt in hap.edits_in]
    if hap.H.in_scope(blocks_t):
        vc = VariantIntervalCollection(bare)
        res, exc = ctx.call(vc.lift_over_location, L)
        if True:
            _judge_location(ctx, "lift.sequenceless", "sequenceless-collection", hap.H, blocks_t, strand, res, exc, offset=hap.start, with_seq=False)
    for v, S in zip(bare, hap.singles):
        if not S.in_scope(blocks_t):
            continue
        res, exc = ctx.call(v.lift_over_location, L)
        if isinstance(exc, NullSequenceException):
            ctx.bump("sequenceless-single-refused")
            continue
        _judge_location(ctx, "lift.sequenceless", "sequenceless-single", S, blocks_t, strand, res, exc, offset=hap.start, with_seq=False)


def _chrom(blocks, start):
    return [b[0] + start for b in blocks], [b[1] + start for b in blocks]


def _check_intervals(ctx, hap, loc, j, variants_obj, H, tag):
    """Feature / transcript (+CDS) / CDS built on loc, incorporated with `variants_obj` (model H).  Returns the objects
    that can be reused in aggregates: (feature, transcript) or (None, None)."""
    from inscripta.biocantor.gene import FeatureInterval, TranscriptInterval, CDSInterval

    blocks = [tuple(b) for b in loc["blocks"]]
    strand = loc["strand"]
    st = GL.strand_of(strand)
    starts, ends = _chrom(blocks, hap.start)
    ft = FeatureInterval(starts, ends, st, parent_or_seq_chunk_parent=hap.parent, feature_id=f"f{j}")
    new, exc = ctx.call(ft.incorporate_variants, variants_obj)
    ok_f = _judge_interval(ctx, "incorporate.feature", tag + "feature", H, blocks, strand, new, exc, hap.start)

    cds_blocks = _cds_blocks(blocks, loc["cds"]) if loc.get("cds") else None
    frame = loc.get("frame", 0)
    if cds_blocks:
        cstarts, cends = _chrom(cds_blocks, hap.start)
        tx = TranscriptInterval(starts, ends, st, cds_starts=cstarts, cds_ends=cends, cds_frames=_frames(cds_blocks, strand, frame),
                                parent_or_seq_chunk_parent=hap.parent, transcript_id=f"t{j}")
    else:
        tx = TranscriptInterval(starts, ends, st, parent_or_seq_chunk_parent=hap.parent, transcript_id=f"t{j}")
    new, exc = ctx.call(tx.incorporate_variants, variants_obj)
    ok_t = False
    if cds_blocks and not H.location_image(cds_blocks) and H.location_image(blocks):
        # the CDS is deleted entirely although the transcript is not: refusal is the documented answer
        got = None
        if exc is None and getattr(new, "cds", None) is not None:
            got = _read(new.cds.chunk_relative_location)[0]
        ctx.check("incorporate.deleted", _is_empty_exc(exc), key=(tag + "transcript-cds-deleted", _multi(H.edits)),
                  **_detail(H, cds_blocks, strand, exc=repr(exc)[:200] if exc else None, got=got, want=[], where="transcript-cds",
                            cds_blocks=[list(b) for b in blocks]))   # the enclosing transcript is lifted by the same call
    else:
        ok_t = _judge_interval(ctx, "incorporate.transcript", tag + "transcript", H, blocks, strand, new, exc, hap.start, cds_blocks=cds_blocks)
        if ok_t and cds_blocks:
            ncds = new.cds
            if ncds is None:
                ctx.check("incorporate.transcript", False, key=(tag + "transcript-cds", "lost", _multi(H.edits)), **_detail(H, cds_blocks, strand, where="transcript-cds"))
                ok_t = False
            else:
                ok_t = _judge_interval(ctx, "incorporate.transcript", tag + "transcript-cds", H, cds_blocks, strand, ncds, None, hap.start)
                if ok_t:
                    _check_cds_frame(ctx, tag + "transcript-cds", H, hap.seq, cds_blocks, strand, frame, tx.cds, ncds)

    cds = CDSInterval(starts, ends, st, _frames(blocks, strand, frame), parent_or_seq_chunk_parent=hap.parent)
    new, exc = ctx.call(cds.incorporate_variants, variants_obj)
    if _judge_interval(ctx, "incorporate.cds", tag + "cds", H, blocks, strand, new, exc, hap.start):
        _check_cds_frame(ctx, tag + "cds", H, hap.seq, blocks, strand, frame, cds, new)
    # incorporation builds NEW objects: asked a second time on the same operands it answers the same, and feature / transcript / CDS
    # and the variants are what they were (dictionary forms before the first and after the second incorporation)
    if j % 2 == 0:
        for kind, obj in (("feature", ft), ("transcript", tx), ("cds", cds)):
            d0, e0 = ctx.call(obj.to_dict)
            v0, ev = ctx.call(variants_obj.to_dict)
            a, ea = ctx.call(obj.incorporate_variants, variants_obj)
            b, eb = ctx.call(obj.incorporate_variants, variants_obj)
            d1, e1 = ctx.call(obj.to_dict)
            v1, _ = ctx.call(variants_obj.to_dict)
            same = (ea is None) == (eb is None) and (type(ea) is type(eb)) and (ea is not None or _read(a.chunk_relative_location) == _read(b.chunk_relative_location))
            ctx.check("incorporate.repeatable", same, key=(tag + kind, "second-incorporation-differs"), first=repr(a)[:120] if ea is None else repr(ea)[:120],
                      second=repr(b)[:120] if eb is None else repr(eb)[:120], **_detail(H, blocks, strand, where=kind))
            ctx.check("incorporate.repeatable", e0 is None and e1 is None and d0 == d1 and (ev is not None or v0 == v1), key=(tag + kind, "operand-changed"),
                      **_detail(H, blocks, strand, where=kind))
    return (ft if ok_f else None), (tx if ok_t else None)


def _children_check(ctx, monitor, where, hap, new_children, specs):
    """new_children: incorporated transcripts / features; specs: {id: (blocks, strand, cds_blocks)}."""
    seen = set()
    for ch in new_children:
        cid = getattr(ch, "transcript_id", None) or getattr(ch, "feature_id", None)
        if cid not in specs:
            ctx.check(monitor, False, key=(where, "unknown-child"), child=repr(ch)[:200])
            continue
        seen.add(cid)
        blocks, strand, cds_blocks = specs[cid]
        if _judge_interval(ctx, monitor, where, hap.H, blocks, strand, ch, None, hap.start) and cds_blocks and getattr(ch, "cds", None) is not None:
            _judge_interval(ctx, monitor, where + "-cds", hap.H, cds_blocks, strand, ch.cds, None, hap.start)
    ctx.check(monitor, seen == set(specs), key=(where, "children-missing"), missing=sorted(set(specs) - seen))


def _check_aggregates(ctx, hap, feats, txs, specs_f, specs_t):
    from inscripta.biocantor.gene import GeneInterval, FeatureIntervalCollection, AnnotationCollection

    vc = hap.collection
    gene = fc = None
    if txs:
        gene = GeneInterval(txs, parent_or_seq_chunk_parent=hap.parent, gene_id="g0")
        new, exc = ctx.call(gene.incorporate_variants, vc)
        if exc is not None:
            ctx.check("incorporate.gene", False, key=("gene", "raised:" + type(exc).__name__, _multi(hap.H.edits)), edits=hap.H.edits, exc=repr(exc)[:300])
        else:
            _children_check(ctx, "incorporate.gene", "gene", hap, list(new.transcripts), specs_t)
    if feats:
        fc = FeatureIntervalCollection(feats, parent_or_seq_chunk_parent=hap.parent, feature_collection_id="fc0")
        new, exc = ctx.call(fc.incorporate_variants, vc)
        if exc is not None:
            ctx.check("incorporate.feature-collection", False, key=("fc", "raised:" + type(exc).__name__, _multi(hap.H.edits)), edits=hap.H.edits, exc=repr(exc)[:300])
        else:
            _children_check(ctx, "incorporate.feature-collection", "feature-collection", hap, list(new.feature_intervals), specs_f)
    if gene is None and fc is None:
        return
    ac = AnnotationCollection([fc] if fc else None, [gene] if gene else None, parent_or_seq_chunk_parent=hap.parent)
    new, exc = ctx.call(ac.incorporate_variants, vc)
    if exc is not None:
        ctx.check("incorporate.annotation-collection", False, key=("ac", "raised:" + type(exc).__name__, _multi(hap.H.edits)), edits=hap.H.edits, exc=repr(exc)[:300])
    else:
        if gene:
            _children_check(ctx, "incorporate.annotation-collection", "ac-gene", hap, [t for g in new.genes for t in g.transcripts], specs_t)
        if fc:
            _children_check(ctx, "incorporate.annotation-collection", "ac-feature-collection", hap,
                            [f for c in new.feature_collections for f in c.feature_intervals], specs_f)

    # alternative_haplotype_mapping: members = children of the collection whose span overlaps the variant collection's span
    n = len(hap.seq)
    vs, ve = hap.H.edits[0][0], hap.H.edits[-1][1]
    far = None
    if vs >= 2:
        far = (0, min(vs, 3))
    elif n - ve >= 2:
        far = (max(ve, n - 3), n)
    genes = [gene] if gene else []
    from inscripta.biocantor.gene import TranscriptInterval

    if far:
        genes.append(GeneInterval([TranscriptInterval([far[0] + hap.start], [far[1] + hap.start], GL.strand_of("+"),
                                                      parent_or_seq_chunk_parent=hap.parent, transcript_id="tfar")],
                                  parent_or_seq_chunk_parent=hap.parent, gene_id="gfar"))
    ac2, exc = ctx.call(AnnotationCollection, [fc] if fc else None, genes or None, [vc], parent_or_seq_chunk_parent=hap.parent)
    if exc is not None:
        ctx.check("incorporate.haplotype-map", False, key=("map", "raised:" + type(exc).__name__, _multi(hap.H.edits)), edits=hap.H.edits, exc=repr(exc)[:300])
        return
    mp = ac2.alternative_haplotype_mapping

    def overlaps(specs):
        lo = min(b[0] for bl, _, _ in specs.values() for b in bl)
        hi = max(b[1] for bl, _, _ in specs.values() for b in bl)
        return lo < ve and vs < hi

    want_members = set()
    if gene and overlaps(specs_t):
        want_members.add("g0")
    if fc and overlaps(specs_f):
        want_members.add("fc0")
    members = list(mp.get(vc.guid, [])) if isinstance(mp, dict) else None
    got_members = sorted(getattr(x, "gene_id", None) or getattr(x, "feature_collection_id", None) for x in members) if members is not None else None
    ok_keys = isinstance(mp, dict) and set(mp) <= {vc.guid} and (bool(mp) == bool(want_members))
    ctx.check("incorporate.haplotype-map", ok_keys and got_members == sorted(want_members), key=("map", "members"),
              edits=hap.H.edits, got=got_members, want=sorted(want_members), nkeys=len(mp) if isinstance(mp, dict) else None)
    for x in members or []:
        if getattr(x, "gene_id", None) == "g0":
            _children_check(ctx, "incorporate.haplotype-map", "map-gene", hap, list(x.transcripts), specs_t)
        elif getattr(x, "feature_collection_id", None) == "fc0":
            _children_check(ctx, "incorporate.haplotype-map", "map-feature-collection", hap, list(x.feature_intervals), specs_f)


def _run_hap(case, ctx):
    if not EM.alt_string(case["seq"], case["edits"]):
        ctx.bump("empty-haplotype-not-judged")
        return
    hap = _Hap(case)
    _check_alt(ctx, hap)
    ctx.note(("hap", hap.chunk, tuple(G.edit_kind(hap.seq, e) for e in hap.H.edits)), nontrivial=False,
             klass=f"random-{len(hap.edits_in)}var-{'chunk' if hap.chunk else 'chrom'}")
    feats, txs, specs_f, specs_t = [], [], {}, {}
    for j, loc in enumerate(case["locs"]):
        blocks = [tuple(b) for b in loc["blocks"]]
        in_all = _check_lifts(ctx, case, hap, blocks, loc["strand"], loc["form"])
        if j < 2:
            _check_sequenceless(ctx, hap, blocks, loc["strand"])
        if in_all:
            ft, tx = _check_intervals(ctx, hap, loc, j, hap.collection, hap.H, "")
            cds_blocks = _cds_blocks(blocks, loc["cds"]) if loc.get("cds") else None
            if ft is not None:
                feats.append(ft)
                specs_f[f"f{j}"] = (blocks, loc["strand"], None)
            if tx is not None:
                txs.append(tx)
                specs_t[f"t{j}"] = (blocks, loc["strand"], cds_blocks)
        # one single variant as the argument of incorporate_variants
        k = j % len(hap.variants)
        if hap.singles[k].in_scope(blocks):
            _check_intervals(ctx, hap, loc, j, hap.variants[k], hap.singles[k], "by-single-")
    if case.get("deleted"):
        db = [tuple(b) for b in case["deleted"]]
        ds = case.get("dstrand", "+")
        # inside the deleted part of a literally left-padded deletion: every other variant is avoided by construction
        covering = [e for e in hap.H.edits if any(e[0] <= b[0] and b[1] <= e[1] for b in db)]
        if covering and all(EM.true_left_pad(hap.seq, e) for e in covering) and EM.deleted_entirely(len(hap.seq), hap.H.edits, db):
            k = [tuple(e[:3]) for e in hap.edits_in].index(tuple(covering[0]))
            for form in ("parent", "bare"):
                L = _mk_loc(db, ds, form, hap.start, hap.parent)
                for obj, where in ((hap.collection, "collection"), (hap.variants[k], "single")):
                    res, exc = ctx.call(obj.lift_over_location, L)
                    got, _ = (None, None) if exc is not None else _read(res)
                    ok = (exc is None and got is None) or _is_empty_exc(exc)
                    ctx.check("lift.deleted-empty", ok, key=("inside-padded-deletion", where, "raised:" + type(exc).__name__ if exc else "not-empty"),
                              edits=hap.H.edits if where == "collection" else hap.singles[k].edits, blocks=db, strand=ds, got=got, want=[],
                              exc=repr(exc)[:200] if exc else None, where="inside-" + where)
    if len(txs) + len(feats) > 0:
        _check_aggregates(ctx, hap, feats, txs, specs_f, specs_t)
    _check_sub_haplotypes(ctx, hap)


def _check_sub_haplotypes(ctx, hap):
    """Sub-haplotypes taken out of a haplotype that has been USED (everything above ran on it) with query_by_guids - from the collection as built
    and from a twin whose variants were listed in descending order: each is the haplotype of exactly the requested variants (alternative
    sequence and alternative parent of the edit model for that subset), and the source still answers for all of them afterwards."""
    from inscripta.biocantor.gene.variants import VariantInterval, VariantIntervalCollection

    n = len(hap.edits_in)
    if n < 2:
        return
    twin, e = ctx.call(lambda: VariantIntervalCollection(
        [VariantInterval(s + hap.start, t + hap.start, alt, vt, parent_or_seq_chunk_parent=hap.parent) for s, t, alt, vt in reversed(hap.edits_in)],
        parent_or_seq_chunk_parent=hap.parent))
    if e is None:
        _ = ctx.call(lambda: str(twin.alternative_genomic_sequence))
    subsets = [list(range(1, n)), [n - 1, 0] if n > 2 else [1], [0]]
    for label, src in (("as-built", hap.collection), ("listed-descending", twin if e is None else None)):
        if src is None:
            continue
        kids, e1 = ctx.call(lambda: sorted(src.variant_intervals, key=lambda v: (v.start, v.end)))
        by_pos = sorted(range(n), key=lambda j: (hap.edits_in[j][0], hap.edits_in[j][1]))
        if e1 is not None or len(kids) != n:
            continue
        for idxs in subsets:
            want = EM.Haplotype(hap.seq, [hap.edits_in[by_pos[j]] for j in idxs])
            if not want.alt:
                continue
            sub, e2 = ctx.call(src.query_by_guids, [kids[j].guid for j in idxs])
            got, e3 = ctx.call(lambda: str(sub.alternative_genomic_sequence)) if e2 is None and sub is not None else (None, e2)
            ctx.check("alt.collection", e3 is None and got == want.alt, key=("sub-haplotype-by-guids", label, "chunk" if hap.chunk else "chrom"),
                      edits=want.edits, requested=idxs, n_variants=n, got=got, want=want.alt, exc=repr(e3)[:200] if e3 else None)
            if e3 is None:
                pa, e4 = ctx.call(lambda: str(sub.parent_with_alternative_sequence.sequence))
                ctx.check("alt.parent", e4 is None and pa == want.alt, key=("sub-haplotype-by-guids", label), edits=want.edits, got=pa, want=want.alt,
                          exc=repr(e4)[:200] if e4 else None)
        got, e5 = ctx.call(lambda: str(src.alternative_genomic_sequence))
        ctx.check("alt.collection", e5 is None and got == hap.H.alt, key=("source-after-sub-haplotypes", label), edits=hap.H.edits, got=got, want=hap.H.alt,
                  exc=repr(e5)[:200] if e5 else None)


def _run_sweep(case, ctx):
    if not EM.alt_string(case["seq"], case["edits"]):
        ctx.bump("empty-haplotype-not-judged")
        return
    hap = _Hap(case)
    _check_alt(ctx, hap)
    n = len(hap.seq)
    ctx.note(("sweep", hap.chunk, tuple(map(tuple, hap.H.edits))), nontrivial=False, klass=f"sweep-{len(hap.edits_in)}var")
    idx = 0
    for blocks in G.enum_blocks(n, hap.H.edits, case["max_blocks"]):
        for strand in "+-":
            idx += 1
            form = "parent" if idx % 2 else "bare"
            _check_lifts(ctx, case, hap, blocks, strand, form, singles=len(hap.edits_in) == 1)
            if idx % 3 == 0:
                loc = {"blocks": blocks, "strand": strand, "cds": None, "frame": 0}
                _check_intervals(ctx, hap, loc, 0, hap.collection, hap.H, "")
            if idx % 7 == 0:
                _check_sequenceless(ctx, hap, blocks, strand)


# ------------------------------------------------------------------------------------------------------------------
# VCF leg
# ------------------------------------------------------------------------------------------------------------------
def _records(case):
    out = []
    for r in case["records"]:
        rec = _Obj()
        rec.CHROM, rec.POS = r["chrom"], r["pos"]
        rec.affected_start, rec.affected_end = r["s"], r["e"]
        rec.ALT = []
        for seq, typ in r["alts"]:
            a = _Obj()
            a.sequence, a.type = seq, typ
            rec.ALT.append(a)
        rec.samples = []
        for _ in range(r["nsamples"]):
            smp = _Obj()
            smp.data = _Obj()
            if r["ps"] is not None:
                smp.data.PS = r["ps"]
            rec.samples.append(smp)
        out.append(rec)
    return out


def _run_vcf(case, ctx):
    import warnings
    from collections import Counter

    from inscripta.biocantor.io.vcf.parser import convert_vcf_records_to_model

    recs = _records(case)
    with warnings.catch_warnings():
        warnings.simplefilter("ignore")
        out, exc = ctx.call(convert_vcf_records_to_model, recs)
    sig = tuple(sorted((r["chrom"], -1 if r["ps"] is None else r["ps"], len(r["alts"]), r["s"] == r["e"]) for r in case["records"]))
    ctx.note(("vcf", sig), nontrivial=len(case["records"]) > 1, klass="vcf")
    if exc is not None:
        ctx.check("vcf.grouping", False, key=("raised", type(exc).__name__), exc=repr(exc)[:300])
        return
    # model: chrom -> phased {ps: [variant tuples]}, unphased [variant tuple]
    want = {}
    for r in case["records"]:
        w = want.setdefault(r["chrom"], {"phased": {}, "unphased": []})
        e = r["e"] if r["e"] != r["s"] else r["e"] + 1
        for seq, typ in r["alts"]:
            t = (r["s"], e, seq, typ, r["ps"])
            if r["ps"] is None:
                w["unphased"].append(t)
            else:
                w["phased"].setdefault(r["ps"], []).append(t)
    ctx.check("vcf.grouping", isinstance(out, dict) and set(out) == set(want), key="chromosomes", got=sorted(out) if isinstance(out, dict) else repr(out)[:100],
              want=sorted(want))
    if not isinstance(out, dict):
        return
    for chrom, w in want.items():
        models = out.get(chrom) or []
        got_groups = []
        names_ok = True
        for m in models:
            vs = tuple(sorted((v.start, v.end, v.sequence, v.variant_type, v.phase_block) for v in m.variant_intervals))
            got_groups.append((m.variant_collection_id, vs))
            names_ok = names_ok and m.sequence_name == chrom
        want_groups = [(str(ps), tuple(sorted(vs))) for ps, vs in w["phased"].items()] + [(None, (t,)) for t in w["unphased"]]
        ctx.check("vcf.grouping", Counter(got_groups) == Counter(want_groups) and names_ok, key="groups", chrom=chrom,
                  got=sorted(got_groups, key=repr), want=sorted(want_groups, key=repr), names_ok=names_ok)
        got_all = Counter(v for _, vs in got_groups for v in vs)
        want_all = Counter(list(w["unphased"]) + [t for vs in w["phased"].values() for t in vs])
        ctx.check("vcf.alleles", got_all == want_all, key="one-variant-per-alt", chrom=chrom, got=sorted(got_all.elements(), key=repr),
                  want=sorted(want_all.elements(), key=repr))
        # a phased group of mutually non-overlapping variants is a haplotype: its alternative sequence is the edit model's
        seq = case["seq"]
        parent = _parent(seq, 0, False)
        for m in models:
            edits = [[v.start, v.end, v.sequence, v.variant_type] for v in m.variant_intervals]
            try:
                H = EM.Haplotype(seq, edits)
            except ValueError:
                continue
            vc, e1 = ctx.call(m.to_variant_interval_collection, parent)
            got, e2 = (None, e1) if e1 is not None else ctx.call(lambda: str(vc.alternative_genomic_sequence))
            ctx.check("alt.collection", e2 is None and got == H.alt, key=("from-vcf-model", _multi(H.edits)), edits=H.edits, got=got, want=H.alt,
                      exc=repr(e2)[:200] if e2 else None)


def _run_long_alt(case, ctx):
    """Two insertions at the same site, equally long, identical for the first and last thousands of bases, different in the middle: two
    different haplotypes - different identifiers, two entries of the haplotype map, each with its own alternative sequence."""
    import random

    from inscripta.biocantor.gene import GeneInterval, TranscriptInterval
    from inscripta.biocantor.gene.collections import AnnotationCollection
    from inscripta.biocantor.gene.variants import VariantInterval, VariantIntervalCollection
    from inscripta.biocantor.location.strand import Strand

    r = random.Random(case["seed"])
    n = case["n"]
    ref = "".join(r.choice("ACGT") for _ in range(40))
    start = 1000 if case["chunk"] else 0
    body = [r.choice("ACGT") for _ in range(n)]
    alt1 = "".join(body)
    mid = n // 2
    body[mid] = {"A": "C", "C": "G", "G": "T", "T": "A"}[body[mid]]
    alt2 = "".join(body)
    ctx.note(("long-alt", n, case["chunk"]), nontrivial=True, klass="long-insertion-twins")

    def build():
        parent = _parent(ref, start, case["chunk"])
        vcs = [VariantIntervalCollection([VariantInterval(start + 10, start + 11, ref[10] + alt, "insertion", parent_or_seq_chunk_parent=parent)],
                                         parent_or_seq_chunk_parent=parent) for alt in (alt1, alt2)]
        gene = GeneInterval([TranscriptInterval([start + 2], [start + 30], Strand.PLUS, parent_or_seq_chunk_parent=parent)], parent_or_seq_chunk_parent=parent)
        ac = AnnotationCollection(genes=[gene], variant_collections=vcs, parent_or_seq_chunk_parent=parent)
        return vcs, ac

    out, exc = ctx.call(build)
    if exc is not None:
        ctx.check("incorporate.haplotype-map", False, key=("long-alt", "raised", type(exc).__name__), exc=repr(exc)[:300], n=n)
        return
    vcs, ac = out
    g1, g2 = vcs[0].guid, vcs[1].guid
    v1, v2 = vcs[0].variant_intervals[0].guid, vcs[1].variant_intervals[0].guid
    ctx.check("incorporate.haplotype-map", g1 != g2 and v1 != v2, key=("long-alt", "twins-share-an-identifier"), n=n, collection_guids_equal=g1 == g2, variant_guids_equal=v1 == v2)
    m = ac.alternative_haplotype_mapping or {}
    ctx.check("incorporate.haplotype-map", len(m) == 2 and all(len(v) == 1 for v in m.values()), key=("long-alt", "map-entries"), n=n,
              got={str(k): len(v) for k, v in m.items()})
    for vc, alt in zip(vcs, (alt1, alt2)):
        want = ref[:10] + ref[10] + alt + ref[11:]
        got, e = ctx.call(lambda: str(vc.alternative_genomic_sequence))
        ctx.check("alt.collection", e is None and got == want, key=("long-alt", "value"), n=n, got_len=len(got) if got else None, want_len=len(want),
                  first_difference=next((j for j, (a, b) in enumerate(zip(got or "", want)) if a != b), None), exc=repr(e)[:200] if e else None)


def run_case(case, ctx):
    k = case["kind"]
    if k == "hap":
        return _run_hap(case, ctx)
    if k == "sweep":
        return _run_sweep(case, ctx)
    if k == "vcf":
        return _run_vcf(case, ctx)
    if k == "long-alt":
        return _run_long_alt(case, ctx)
    from bcv.core import HarnessError

    raise HarnessError(f"unknown kind {k}")


# ------------------------------------------------------------------------------------------------------------------
# classifier of the recorded finding K1
# ------------------------------------------------------------------------------------------------------------------
_K1_MONITORS = {"lift.collection", "lift.sequenceless", "lift.deleted-empty", "incorporate.feature", "incorporate.transcript", "incorporate.cds",
                "incorporate.deleted", "incorporate.gene", "incorporate.feature-collection", "incorporate.annotation-collection",
                "incorporate.haplotype-map"}


def _chain(edits, blocks, strand, order):
    """Re-apply BioCantor's *own* single-variant lift (the private per-variant step the collection loops over) to
    (blocks, strand), one variant after the other in the given order.  Returns sorted positions or None (empty)."""
    from inscripta.biocantor.gene.variants import VariantInterval
    from inscripta.biocantor.location.location_impl import SingleInterval, CompoundInterval, EmptyLocation

    loc = _mk_loc([tuple(b) for b in blocks], strand, "bare", 0, None)
    single = isinstance(loc, SingleInterval)
    vs = [VariantInterval(s, e, alt, "x") for (s, e, alt, *_) in edits]
    if order == "rtl":
        vs = vs[::-1]
    for v in vs:
        if loc is EmptyLocation():
            break
        if single:
            loc = v._lift_over_chromosome_location_single_interval(loc)
        else:
            loc = v._lift_over_chromosome_location_compound_interval(loc)
    if loc is EmptyLocation() or loc.is_empty:
        return None
    return sorted(PM.positions([(b.start, b.end) for b in loc.blocks], loc.strand.to_symbol()))


def _k1(case, edits, blocks, strand, want, got, exc):
    """The K1 predicate for one judged location (see classify)."""
    seq = case.get("seq") or ""
    if len(seq) < max(max(e[1] for e in edits), max(b[1] for b in blocks)):
        return False
    H = EM.Haplotype(seq, [e[:3] for e in edits])
    bl = [tuple(b) for b in blocks]
    if H.in_scope(bl):
        model = H.location_image(bl)
    elif EM.deleted_entirely(len(seq), H.edits, bl) and all(EM.true_left_pad(seq, e) for e in H.edits if any(e[0] <= b[0] and b[1] <= e[1] for b in bl)):
        model = []      # the inside-a-left-padded-deletion leg
    else:
        return False
    if want is not None and model != want:
        return False
    rtl = _chain(edits, blocks, strand, "rtl") or []
    ltr = _chain(edits, blocks, strand, "ltr") or []
    if rtl != model or ltr == model:
        return False
    # what is visible of the left-to-right result: a chunk parent silently clips a location to the chunk (an empty
    # intersection is an EmptyLocation), a chromosome parent refuses a location past its end
    alt_len = len(H.alt)
    visible = [p for p in ltr if p < alt_len] if case.get("chunk") else ltr
    if exc:
        if "EmptyLocationException" in exc and not visible:
            return True
        if "InvalidPositionException" in exc and ltr and max(ltr) >= alt_len:
            return True
        return False
    return (got or []) in (ltr, visible)


def classify(v):
    """K1: VariantIntervalCollection.lift_over_location applies its variants left to right although every variant keeps
    reference coordinates.  Recognised mechanistically from the witness: >= 2 variants, a variant that is not the last
    one changes length, BioCantor's own per-variant lift re-applied right to left gives exactly the model's image, re-applied
    left to right it does not, and what was observed is what left to right gives: the same positions (clipped to the
    chunk for chunk parents), or - when nothing was returned - an EmptyLocationException although left to right leaves
    nothing on the haplotype / an InvalidPositionException although it reaches past the end of the alternative sequence
    (for a transcript the CDS it carries is examined as well, because it is incorporated by the same call - and vice versa).  Anything else - single
    variants, SNV-only sets, sets whose only length change is the last variant, alternative-sequence strings, strand /
    sequence disagreements on correct positions, other exceptions, failures the re-ordering does not explain - stays a
    violation."""
    if v.get("monitor") not in _K1_MONITORS:
        return None
    d = v.get("detail") or {}
    case = v.get("case") or {}
    edits, blocks, strand, want = d.get("edits"), d.get("blocks"), d.get("strand"), d.get("want")
    if not edits or not blocks or strand not in ("+", "-") or want is None:
        return None
    edits = sorted([list(e) for e in edits])
    if len(edits) < 2 or not any(len(e[2]) != e[1] - e[0] for e in edits[:-1]):
        return None
    if _k1(case, edits, blocks, strand, want, d.get("got"), d.get("exc")):
        return K1
    if d.get("exc") and d.get("cds_blocks") and _k1(case, edits, d["cds_blocks"], strand, None, None, d.get("exc")):
        return K1
    return None
