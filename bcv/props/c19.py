"""C19  Invalid input is refused with documented errors; nothing ill-formed is built.

Two legs, one exception-boundary classifier (bcv/monitors/c19_boundary.py; decision from exception type + traceback only):

 1. corruption matrix (bcv/gen/c19_matrix.py): for every constructor / derivation a valid argument set and, per argument,
    each applicable corruption of the property's list.  Expectation derived from the docstrings / ``raise`` statements:
      ctor.refuses           a documented check: the call must raise (a BioCantorException subclass, NotImplementedError, or
                             an explicit / third-party ValueError / TypeError)
      ctor.nothing-ill-formed  no documented check: the call may return, but then the returned object must satisfy the
                             structural monitors (locmon.wellformed for locations, interval_problem for intervals)
      ctor.exception-class   whatever is raised must not be an internal error
      ctor.valid-baseline    counts the uncorrupted argument sets that were accepted (a refusal there is reported as
                             INCONCLUSIVE harness error, not as a violation: the property does not speak about it)
 2. API sweep (bcv/gen/c19_objects.py + bcv/monitors/c19_sweep.py): every public property / method (``inspect``; lru_cache
    wrappers unwrapped) of valid objects of every class on every kind of parent, incl. the edge objects, called with typed
    boundary arguments.
      api.exception-class    no internal error escapes (key = exception type, file, function of the innermost BioCantor frame)
      api.result-wellformed  every returned Location / interval (also inside lists, tuples, exhausted iterators) is well-formed

Latitude: (i) any documented exception type is accepted where a refusal is due - the property names the family, not the
member; (ii) exception types outside both families (neither documented nor in the property's internal list) are counted
as ``other`` and not flagged; (iii) an intronic CDS block is not a documented constructor check and is not in the matrix;
(iv) ``Sequence.__getitem__`` follows the sequence protocol (IndexError out of range) and is only driven in range.
"""
from bcv.gen import c19_matrix as MX
from bcv.gen import c19_objects as OBJ
from bcv.monitors import c19_boundary as B
from bcv.monitors import c19_sweep as SW

ID = "C19"
LEVEL = "exploration"
EXHAUSTIVE = False
RULE = (
    "corruption matrix: every (constructor or derivation, argument, corruption) triple of the property's list, complete; "
    "API sweep: every public member (inspect) of fixed edge objects (CDS without a complete codon, full-length CDS / no UTR, "
    "1-bp blocks, non-coding, empty bounded/unbounded collections, chunk windows that cover / cut / miss the object) and of "
    "seeded random objects of every class on parents none / chromosome / chromosome without sequence / sequence chunk, with "
    "typed boundary arguments (ints -1,0,1,len-1,len,len+1,start/end+-1,huge; edge intervals; every enum member). "
    "Non-trivial = distinct (class, parent mode, edge tag, member, argument labels, outcome type)."
)
SCOPE = {"quick": {"NR": 260, "BUDGET": 28}, "thorough": {"NR": 4000, "BUDGET": 90}}
FLOOR = {"quick": 3000, "thorough": 20000}
REQUIRED_MONITORS = ["api.exception-class", "api.result-wellformed"]
REACH = []
REACH_REQUIRED = []
ASSUMPTIONS = ["exception classes are decided from the exception type and the traceback (innermost BioCantor frame, linecache) only",
               "arguments are of the annotated parameter types; methods with untypable parameters are skipped (counted in evidence)"]
WATCHDOG = {"quick": 1500, "thorough": 4 * 3600}


def selftest():
    pass


def cases(spec, ctx):
    i, n = spec["i"], spec["n"]
    sc = SCOPE[ctx.tier]
    import random

    for idx, name in enumerate(MX.names()):
        if idx % n == i:
            yield {"kind": "matrix", "name": name}

    rng = random.Random(f"C19-objects:{ctx.seed}")
    for idx, case in enumerate(OBJ.object_cases(rng, sc["NR"])):
        if idx % n == i:
            case["budget"] = sc["BUDGET"]
            yield case


_MATRIX = {}


def run_matrix(case, ctx):
    from bcv.core import HarnessError

    if not _MATRIX:
        _MATRIX.update({e[0]: e for e in MX.build_matrix()})
    name = case["name"]
    if name not in _MATRIX:
        raise HarnessError(f"unknown matrix entry {name}")
    _, must, doc, thunk, post = _MATRIX[name]
    ctor, arg, corr = (name.split("/") + ["", ""])[:3]
    ctx.note(("matrix", name), klass="matrix-" + ("valid" if must is None else "legal-edge" if must == "legal" else "documented-check" if must else "undocumented-check"))
    res, exc = ctx.call(SW.guarded, thunk)
    if exc is not None:
        verdict, key, info = B.classify_exception(exc)
        if verdict == "harness":
            if "Schema.load" not in name:
                raise HarnessError(f"matrix entry {name}: exception without a BioCantor frame: {exc!r}")
            verdict = "other"      # the marshmallow schema of the model class refused the record itself
        ctx.bump("matrix-" + verdict)
        ctx.check("ctor.exception-class", verdict not in B.FLAGGED, key=key, entry=name, verdict=verdict, exception=type(exc).__name__,
                  message=str(exc)[:200], frame=info, expectation=doc)
        if must is None and verdict not in B.FLAGGED:
            raise HarnessError(f"valid baseline {name} was refused: {exc!r}")
        if must == "legal":
            ctx.check("edge.answered", False, key=(name, type(exc).__name__), entry=name, exception=type(exc).__name__, message=str(exc)[:200], expectation=doc)
        elif must:
            ctx.seen("ctor.refuses")
        return
    if must is True:
        ctx.check("ctor.refuses", False, key=(name,), entry=name, returned=B.safe_repr(res), expectation=doc)
        return
    p = B.value_problem(res)
    if must == "legal":
        ok = p is None and (post is None or bool(post(res)))
        ctx.check("edge.answered", ok, key=(name, "value"), entry=name, problem=p, returned=B.safe_repr(res), expectation=doc)
    elif must is None:
        ctx.check("ctor.valid-baseline", p is None, key=(name,), entry=name, problem=p, returned=B.safe_repr(res))
    else:
        ctx.check("ctor.nothing-ill-formed", p is None, key=(ctor, (p or "").split(" ")[0]), entry=name, problem=p, returned=B.safe_repr(res), expectation=doc)


def run_case(case, ctx):
    if case["kind"] == "matrix":
        return run_matrix(case, ctx)
    if case["kind"] == "sweep":
        ps = case.get("parent") or {}
        sigbase = (case["cls"], ps.get("mode"), case.get("tag"))
        built, exc = ctx.call(OBJ.build, case)
        if exc is not None:
            verdict, key, info = B.classify_exception(exc)
            if verdict == "harness":
                raise exc
            ctx.bump("build-" + verdict)
            ctx.check("api.exception-class", verdict not in B.FLAGGED, key=key, member=case["cls"] + ".<construct>", verdict=verdict,
                      exception=type(exc).__name__, message=str(exc)[:200], frame=info)
            return
        obj, fr = built
        ctx.note(sigbase, klass=f"sweep-{case['cls']}-{ps.get('mode')}")
        SW.sweep(ctx, obj, fr, case["aseed"], case.get("budget", 20), sigbase, only=case.get("only"))
        return
    from bcv.core import HarnessError

    raise HarnessError(f"unknown kind {case['kind']}")


def classify(v):
    return None
