"""C19  Invalid input is refused with documented errors; nothing ill-formed is built.

Two legs, one exception-boundary classifier (bcv/monitors/c19_boundary.py; the decision uses the exception type and the
traceback - innermost BioCantor frame, linecache - only, never the message):

 1. corruption matrix (bcv/gen/c19_matrix.py): for every constructor / derivation a valid argument set and, per argument,
    each applicable corruption of the property's list.  The expectation of every entry is derived from the docstrings /
    ``raise`` statements of the source and quoted in the entry, never from observed behaviour.
      ctor.refuses             documented check: the call must raise
      ctor.exception-class     whatever a corrupted call raises must not be an internal error
      ctor.nothing-ill-formed  no documented check: the call may return, but the returned object must then satisfy the
                               structural monitors (locmon.wellformed / span for locations, interval_problem for intervals)
      ctor.valid-baseline      the uncorrupted argument sets return well-formed objects (a *refusal* there is a harness
                               error -> INCONCLUSIVE, not a violation: the property does not speak about it)
      edge.answered            the edge requests the property names as legal (zero-length request at the 3' end, window ==
                               length, an absent UTR, a CDS without a complete codon) are answered - with the documented
                               value - and not refused
 2. API sweep (bcv/gen/c19_objects.py, bcv/monitors/c19_sweep.py): every public property / method found with ``inspect``
    (lru_cache wrappers unwrapped), plus the data-model protocol each class defines (len/str/repr/hash/==/iter/</pickle),
    the static constructors fed with the object's own export and the io.models round trip, on valid objects of every class
    on every kind of parent (none, chromosome, chromosome without sequence, chunk covering / cutting / missing the object,
    id-only, non-chromosome sequence) including the edge objects, with typed boundary arguments.
      api.exception-class      no internal error escapes; key = (exception type, file, function) of the innermost BioCantor frame
      api.result-wellformed    every returned Location / interval (also inside lists, tuples, exhausted iterators) is well-formed

Classifier: allowed = BioCantorException subclasses (the io exception modules derive from it), NotImplementedError,
ValueError/TypeError raised by an explicit ``raise`` inside BioCantor or whose innermost frame is outside BioCantor;
flagged = AttributeError, IndexError, KeyError, RecursionError, StopIteration, UnboundLocalError, ZeroDivisionError,
AssertionError, and ValueError/TypeError whose innermost frame is a BioCantor line that is not a ``raise``.

Latitude: (i) where a refusal is due any exception of the documented families is accepted - the property names the family,
not the member; (ii) exception types of neither family (e.g. the schema library's ValidationError) are counted as ``other``
and never flagged; (iii) an intronic CDS block is not a documented constructor check and is not in the matrix; (iv)
``Sequence.__getitem__`` follows the sequence protocol (IndexError out of range ends iteration) and is driven in range only;
(v) ``None`` is passed for a parameter only if its default is ``None`` ("Optional[int] = 60" is annotation sloppiness);
(vi) methods with a parameter that cannot be typed from its annotation are skipped and counted in the evidence.

Development aid (environment, not used by the MANIFEST commands): C19_LEGS=matrix|sweep restricts the legs.
"""
import os

from bcv.gen import c19_matrix as MX
from bcv.gen import c19_objects as OBJ
from bcv.monitors import c19_boundary as B
from bcv.monitors import c19_sweep as SW

ID = "C19"
LEVEL = "exploration"
EXHAUSTIVE = False
RULE = (
    "corruption matrix: every (constructor or derivation, argument, corruption) triple of the property's list, complete "
    "(one case each, expectation quoted from the source); API sweep: every public member (inspect) + protocol / static "
    "constructor / io.models round-trip calls of fixed edge objects (CDS without a complete codon, full-length CDS / absent "
    "UTRs, 1-bp and overlapping blocks, non-coding and unstranded intervals, empty bounded / unbounded / zero-width "
    "collections, chunk windows that cover / cut / miss the object, odd parents) and of seeded random objects of every class "
    "on parents none / chromosome / chromosome without sequence / sequence chunk, with typed boundary arguments (ints -1, 0, "
    "1, len-1, len, len+1, start/end +-1, sequence length +-1, huge; edge intervals on same / other / no parent; every enum "
    "member). Non-trivial = distinct (class, parent mode, edge tag, member, argument labels, outcome type)."
)
SCOPE = {"quick": {"NR": 1200, "BUDGET": 40}, "thorough": {"NR": 20000, "BUDGET": 120}}
FLOOR = {"quick": 100000, "thorough": 400000}
REQUIRED_MONITORS = ["ctor.refuses", "ctor.exception-class", "ctor.nothing-ill-formed", "ctor.valid-baseline", "edge.answered",
                     "api.exception-class", "api.result-wellformed", "api.refusal-stable"]
_OV = "inscripta.biocantor.util.object_validation:ObjectValidation."
REACH = [_OV + x for x in ("require_location_has_parent", "require_location_has_parent_with_sequence", "require_parent_has_location",
                           "require_parent_has_parent", "require_parent_has_parent_with_location", "require_parents_equal_except_location",
                           "require_parents_equal_except_location_and_sequence", "require_locations_overlap", "require_object_has_type")] + [
    "inscripta.biocantor.location.location:Location.scan_windows",
    "inscripta.biocantor.location.strand:Strand.assert_directional",
    "inscripta.biocantor.location.location_impl:SingleInterval.__init__",
    "inscripta.biocantor.location.location_impl:CompoundInterval.__init__",
    "inscripta.biocantor.location.location_impl:CompoundInterval.from_single_intervals",
    "inscripta.biocantor.location.location_impl:SingleInterval.shift_position",
    "inscripta.biocantor.location.location_impl:SingleInterval.extend_absolute",
    "inscripta.biocantor.location.location_impl:CompoundInterval.extend_absolute",
    "inscripta.biocantor.location.location_impl:CompoundInterval.relative_interval_to_parent_location",
    "inscripta.biocantor.parent.parent:Parent.__init__",
    "inscripta.biocantor.parent.parent:_unique_value_or_none",
    "inscripta.biocantor.sequence.sequence:Sequence.__init__",
    "inscripta.biocantor.sequence.sequence:Sequence.validate_alphabet",
    "inscripta.biocantor.gene.cds:CDSInterval.__init__",
    "inscripta.biocantor.gene.transcript:TranscriptInterval.__init__",
    "inscripta.biocantor.gene.feature:FeatureInterval.__init__",
    "inscripta.biocantor.gene.feature:FeatureIntervalCollection.__init__",
    "inscripta.biocantor.gene.gene:GeneInterval.__init__",
    "inscripta.biocantor.gene.variants:VariantInterval.__init__",
    "inscripta.biocantor.gene.variants:VariantIntervalCollection.__init__",
    "inscripta.biocantor.gene.collections:AnnotationCollection.__init__",
    "inscripta.biocantor.gene.collections:AnnotationCollection.query_by_position",
    "inscripta.biocantor.gene.interval:AbstractInterval.initialize_location",
    "inscripta.biocantor.gene.interval:AbstractInterval.liftover_location_to_seq_chunk_parent",
    "inscripta.biocantor.gene.interval:AbstractFeatureIntervalCollection._find_primary_feature",
    "inscripta.biocantor.io.models:ParentModel.to_parent",
]
REACH_REQUIRED = REACH
ASSUMPTIONS = ["exception classes are decided from the exception type and the traceback (innermost BioCantor frame, linecache) only",
               "arguments are of the annotated parameter types; methods with untypable parameters are skipped (counted in evidence)",
               "structural monitors: bcv/monitors/locmon.py (shared with C02) and c19_boundary.interval_problem"]
WATCHDOG = {"quick": 2400, "thorough": 6 * 3600}


def _legs():
    return set(os.environ.get("C19_LEGS", "matrix,sweep").split(","))


def selftest():
    """Classifier self-test on synthetic tracebacks (code compiled under a virtual file name inside the tree under test, so that
    nothing of BioCantor's own checks is relied on) plus the claim that the io exception modules derive from BioCantorException."""
    import linecache

    from bcv import env
    from bcv.core import HarnessError

    fname = os.path.join(env.REPO, "inscripta", "biocantor", "_c19_selftest_virtual.py")
    src = ("import json\n"
           "def explicit():\n"
           "    raise ValueError('refused')\n"
           "def implicit():\n"
           "    return next(None)\n"
           "def implicit_value():\n"
           "    return min(())\n"
           "def internal():\n"
           "    return [][0]\n"
           "def outside():\n"
           "    return json.loads('{')\n"
           "def stop():\n"
           "    return next(iter(()))\n"
           "def other():\n"
           "    raise RuntimeError('x')\n"
           "def notimpl():\n"
           "    raise NotImplementedError\n")
    linecache.cache[fname] = (len(src), None, src.splitlines(True), fname)
    ns = {}
    exec(compile(src, fname, "exec"), ns)
    want = {"explicit": "explicit", "implicit": "IMPLICIT", "implicit_value": "IMPLICIT", "internal": "INTERNAL", "outside": "outside",
            "stop": "INTERNAL", "other": "other", "notimpl": "documented"}
    try:
        for fn, verdict in want.items():
            try:
                ns[fn]()
            except Exception as e:  # noqa: BLE001
                got = B.classify_exception(e)
                if got[0] != verdict or got[1][2] != fn:
                    raise HarnessError(f"classifier self-test: {fn} classified {got[:2]}, expected {verdict}")
            else:
                raise HarnessError(f"classifier self-test: {fn} did not raise")
    finally:
        linecache.cache.pop(fname, None)
    from inscripta.biocantor.exc import BioCantorException, InvalidPositionException
    from inscripta.biocantor.io.exc import InvalidInputError
    from inscripta.biocantor.io.genbank.exc import GenBankParserError
    from inscripta.biocantor.io.gff3.exc import GFF3MissingSequenceNameError

    for k in (InvalidPositionException, GFF3MissingSequenceNameError, GenBankParserError, InvalidInputError):
        if not issubclass(k, BioCantorException):
            raise HarnessError(f"{k.__name__} does not derive from BioCantorException: the documented family must be widened")
    try:
        raise InvalidPositionException("x")
    except InvalidPositionException as e:
        if B.classify_exception(e)[0] != "harness":      # no BioCantor frame on the stack
            raise HarnessError("classifier self-test: frame-less exception not recognised as harness-side")
    names = MX.names()
    if len(set(names)) != len(names):
        dup = sorted({n for n in names if names.count(n) > 1})
        raise HarnessError(f"duplicate matrix entry names: {dup[:5]}")


def cases(spec, ctx):
    i, n = spec["i"], spec["n"]
    sc = SCOPE[ctx.tier]
    import random

    legs = _legs()
    if "matrix" in legs:
        for idx, name in enumerate(MX.names()):
            if idx % n == i:
                yield {"kind": "matrix", "name": name}
    if "sweep" in legs:
        rng = random.Random(f"C19-objects:{ctx.seed}")
        for idx, case in enumerate(OBJ.object_cases(rng, sc["NR"])):
            if idx % n == i:
                case["budget"] = sc["BUDGET"]
                yield case


    # refused container constructions (own stream): what they were handed stays what it was
    rrng = random.Random(f"C19-refused-container:{ctx.seed}:{i}")
    for _ in range(6 if ctx.tier == "quick" else 40):
        yield {"kind": "refused-container", "seed": rrng.randrange(1 << 30), "cls": rrng.choice(["gene", "fcoll", "vcoll"]),
               "children_on": rrng.choice(["none", "chromosome"]), "n": rrng.randint(2, 4)}


    for _ in range(4 if ctx.tier == "quick" else 30):
        yield {"kind": "fromdict-corrupt", "seed": rrng.randrange(1 << 30)}


_MATRIX = {}


def run_matrix(case, ctx):
    from bcv.core import HarnessError

    if not _MATRIX:
        _MATRIX.update({e[0]: e for e in MX.build_matrix()})
    name = case["name"]
    if name not in _MATRIX:
        raise HarnessError(f"unknown matrix entry {name}")
    _, must, doc, thunk, post = _MATRIX[name]
    ctor = name.split("/")[0]
    ctx.note(("matrix", name), klass="matrix-" + ("valid" if must is None else "legal-edge" if must == "legal" else "documented-check" if must else "undocumented-check"))
    res, exc = ctx.call(SW.guarded, thunk)
    if exc is not None:
        verdict, key, info = B.classify_exception(exc)
        if verdict == "harness":
            if "Schema.load" not in name:
                raise HarnessError(f"matrix entry {name}: exception without a BioCantor frame: {exc!r}")
            verdict = "other"      # the marshmallow schema of the model class refused the record itself
        ctx.bump("matrix-" + verdict)
        ctx.check("ctor.exception-class", verdict not in B.FLAGGED, key=key, entry=name, verdict=verdict, exception=type(exc).__name__,
                  message=str(exc)[:200], frame=info, expectation=doc)
        if must is None and verdict not in B.FLAGGED:
            raise HarnessError(f"valid baseline {name} was refused: {exc!r}")
        if must == "legal":
            ctx.check("edge.answered", False, key=(name, type(exc).__name__), entry=name, exception=type(exc).__name__, message=str(exc)[:200], expectation=doc)
        elif must:
            ctx.seen("ctor.refuses")
        return
    if must is True:
        ctx.check("ctor.refuses", False, key=(name,), entry=name, returned=B.safe_repr(res), expectation=doc)
        return
    p = B.value_problem(res)
    if must == "legal":
        ok = p is None and (post is None or bool(post(res)))
        ctx.check("edge.answered", ok, key=(name, "value"), entry=name, problem=p, returned=B.safe_repr(res), expectation=doc)
    elif must is None:
        ctx.check("ctor.valid-baseline", p is None, key=(name,), entry=name, problem=p, returned=B.safe_repr(res))
    else:
        ctx.check("ctor.nothing-ill-formed", p is None, key=(ctor, (p or "").split(" ")[0]), entry=name, problem=p, returned=B.safe_repr(res), expectation=doc)


def run_case(case, ctx):
    if case["kind"] == "matrix":
        return run_matrix(case, ctx)
    if case["kind"] == "sweep":
        ps = case.get("parent") or {}
        sigbase = (case["cls"], ps.get("mode"), case.get("tag"))
        built, exc = ctx.call(OBJ.build, case)
        if exc is not None:
            verdict, key, info = B.classify_exception(exc)
            if verdict == "harness":
                raise exc
            ctx.bump("build-" + verdict)
            ctx.check("api.exception-class", verdict not in B.FLAGGED, key=key, member=case["cls"] + ".<construct>", verdict=verdict,
                      exception=type(exc).__name__, message=str(exc)[:200], frame=info)
            return
        obj, fr = built
        ctx.note(sigbase, klass=f"sweep-{case['cls']}-{ps.get('mode')}")
        SW.sweep(ctx, obj, fr, case["aseed"], case.get("budget", 20), sigbase, only=case.get("only"))
        return
    if case["kind"] == "refused-container":
        return run_refused_container(case, ctx)
    if case["kind"] == "fromdict-corrupt":
        return run_fromdict_corrupt(case, ctx)
    from bcv.core import HarnessError

    raise HarnessError(f"unknown kind {case['kind']}")


def run_fromdict_corrupt(case, ctx):
    """The dictionary route into the constructors: the exported dictionary of a valid coding transcript (alone and inside its gene's dictionary)
    with ONE of the CDS fields emptied or shortened is inconsistent data exactly as the same arguments are for the constructor - refused, never a
    (non-coding or half-coding) object."""
    import random

    from inscripta.biocantor.exc import BioCantorException
    from inscripta.biocantor.gene import GeneInterval, TranscriptInterval, CDSFrame
    from inscripta.biocantor.location import Strand

    rs = random.Random(case["seed"])
    strand = rs.choice([Strand.PLUS, Strand.MINUS])
    a = rs.randint(0, 9)
    exons = [(a, a + 12), (a + 20, a + 33), (a + 40, a + 52)][: rs.randint(2, 3)]
    cds = [(exons[0][0] + 3, exons[0][1])] + [tuple(e) for e in exons[1:-1]] + [(exons[-1][0], exons[-1][1] - 2)]
    tx = TranscriptInterval([e[0] for e in exons], [e[1] for e in exons], strand, cds_starts=[c[0] for c in cds], cds_ends=[c[1] for c in cds],
                            cds_frames=[CDSFrame.ZERO] * len(cds), transcript_id="t0")
    gene = GeneInterval([tx], gene_id="g0")
    td, gd = tx.to_dict(), gene.to_dict()
    ctx.note(("fromdict-corrupt", len(exons), strand.name), klass="fromdict-corrupt")
    base, e0 = ctx.call(TranscriptInterval.from_dict, dict(td))
    ctx.check("ctor.valid-baseline", e0 is None and base.is_coding, key=("from_dict", "transcript"), exc=repr(e0)[:200] if e0 else None)
    for field in ("cds_starts", "cds_ends", "cds_frames"):
        for label, val in (("None", None), ("empty", []), ("shortened", list(td[field][:1]))):
            if label == "shortened" and len(td[field]) == 1:
                continue
            for route in ("transcript", "gene"):
                bad = dict(td, **{field: val})
                if route == "transcript":
                    res, exc = ctx.call(TranscriptInterval.from_dict, bad)
                else:
                    res, exc = ctx.call(GeneInterval.from_dict, dict(gd, transcripts=[bad]))
                ok = isinstance(exc, (BioCantorException, ValueError))
                ctx.check("ctor.refuses", ok, key=("from_dict", route, field, label), field=field, value=val, route=route,
                          built=None if res is None else type(res).__name__,
                          is_coding=getattr(res, "is_coding", None) if res is not None else None, exc=repr(exc)[:200] if exc else None)


def run_refused_container(case, ctx):
    """GeneInterval / FeatureIntervalCollection / VariantIntervalCollection(children, parent_or_seq_chunk_parent=P) where P's sequence is too short
    for the container (its last child ends beyond it): refused with a documented exception; every child handed over - a valid object of its own,
    parentless or living on the real chromosome - answers afterwards what it answered before (dictionary form, parent, sequence)."""
    import random

    from inscripta.biocantor.exc import BioCantorException
    from inscripta.biocantor.gene import GeneInterval, TranscriptInterval, FeatureInterval, FeatureIntervalCollection
    from inscripta.biocantor.gene.variants import VariantInterval, VariantIntervalCollection
    from inscripta.biocantor.location import Strand
    from inscripta.biocantor.parent import Parent, SequenceType
    from inscripta.biocantor.sequence import Sequence, Alphabet

    rs = random.Random(case["seed"])
    n = case["n"]
    glen = 40 * n + 20
    genome = "".join(rs.choice("ACGT") for _ in range(glen))
    short_len = rs.randint(12 + 40 * (n - 2), 40 * (n - 1))     # the first n-1 children fit on the short sequence, the last one does not
    short = "".join(rs.choice("ACGT") for _ in range(short_len))
    chrom = Parent(id="chr1", sequence=Sequence(genome, Alphabet.NT_STRICT, id="chr1", type=SequenceType.CHROMOSOME))
    did = rs.choice(["draft", "chr1"])
    draft = Parent(id=did, sequence=Sequence(short, Alphabet.NT_STRICT, id=did, type=SequenceType.CHROMOSOME))
    par = chrom if case["children_on"] == "chromosome" else None
    strand = rs.choice([Strand.PLUS, Strand.MINUS])
    kids = []
    for j in range(n):
        s = 40 * j + rs.randint(1, 6)
        e = s + rs.randint(4, 9)
        if case["cls"] == "gene":
            kids.append(TranscriptInterval([s, e + 3], [e, e + 9], strand, transcript_id=f"t{j}", parent_or_seq_chunk_parent=par))
        elif case["cls"] == "fcoll":
            kids.append(FeatureInterval([s, e + 3], [e, e + 9], strand, feature_name=f"f{j}", parent_or_seq_chunk_parent=par))
        else:
            kids.append(VariantInterval(s, s + 1, rs.choice("ACGT"), "SNV", variant_name=f"v{j}", parent_or_seq_chunk_parent=par))
    order = list(range(n))
    if rs.random() < 0.3:
        rs.shuffle(order)
    listed = [kids[j] for j in order]

    def snap(o):
        loc = o.chunk_relative_location
        seq = None
        if loc.parent is not None and loc.parent.sequence is not None:
            seq = str(loc.extract_sequence())
        return {"dict": o.to_dict(), "parent_id": getattr(loc.parent, "id", None), "has_parent": loc.parent is not None, "sequence": seq,
                "blocks": [(b.start, b.end) for b in loc.blocks], "strand": loc.strand.name}

    before = [snap(o) for o in listed]
    ctor = {"gene": lambda: GeneInterval(listed, gene_id="g", parent_or_seq_chunk_parent=draft),
            "fcoll": lambda: FeatureIntervalCollection(listed, feature_collection_id="fc", parent_or_seq_chunk_parent=draft),
            "vcoll": lambda: VariantIntervalCollection(listed, variant_collection_id="vc", parent_or_seq_chunk_parent=draft)}[case["cls"]]
    ctx.note(("refused-container", case["cls"], case["children_on"], n), klass="refused-container-" + case["cls"])
    res, exc = ctx.call(ctor)
    ok = ctx.check("ctor.refuses", isinstance(exc, (BioCantorException, ValueError)), key=("container-on-too-short-parent", case["cls"]), cls=case["cls"],
                   got=repr(res)[:120], exc=repr(exc)[:200] if exc else None, short_len=short_len)
    if not ok:
        return
    for j, (o, b) in enumerate(zip(listed, before)):
        a, e = ctx.call(snap, o)
        ctx.check("api.refusal-stable", e is None and a == b, key=("refused-container-changed-its-argument", case["cls"], case["children_on"]),
                  child=j, n=n, first_difference=next((k for k in b if e is None and a.get(k) != b[k]), None), exc=repr(e)[:200] if e else None,
                  before={k: v for k, v in b.items() if k != "dict"}, after={k: v for k, v in (a or {}).items() if k != "dict"})


# ---------------------------------------------------------------------------------------------------------------
# mechanistic classifiers of recorded findings (used only if the lead records a finding instead of applying the
# proposed fix; each predicate re-derives the mechanism from the stored case, never from hashes / seeds / messages)
# ---------------------------------------------------------------------------------------------------------------
def _empty_unbounded_collection(case):
    """The documented-legal empty AnnotationCollection for which no bounds can be inferred: no children, no start/end,
    and a parent that has no chromosome-typed ancestor carrying a location (none / chromosome without sequence / id only)."""
    if case.get("kind") != "sweep" or case.get("cls") != "coll":
        return False
    sp = case.get("spec") or {}
    if sp.get("genes") or sp.get("fcolls") or sp.get("variants") or sp.get("start") is not None or sp.get("end") is not None:
        return False
    return (case.get("parent") or {}).get("mode") in ("none", "chrom-noseq", "bare-id", None)


def classify(v):
    d = v.get("detail") or {}
    case = v.get("case") or {}
    fr = d.get("frame") or {}
    if v["monitor"] == "api.exception-class" and d.get("exception") == "AttributeError" and _empty_unbounded_collection(case) \
            and fr.get("file") in ("inscripta/biocantor/gene/collections.py", "inscripta/biocantor/gene/interval.py"):
        # K9: such a collection never gets start / end / bin attributes; everything that reads them dies
        return "K9-empty-unbounded-annotation-collection-has-no-start-end"
    if v["monitor"] == "api.exception-class" and d.get("exception") == "AttributeError" and fr.get("func") in ("_query_by_position", "_optimized_query_by_position") \
            and case.get("cls") == "coll" and (case.get("spec") or {}).get("variants"):
        # same root cause as proposed_fixes/C09-variant-collection-is-coding.diff: coding_only=True reads child.is_coding,
        # which VariantIntervalCollection does not define
        labels = d.get("args") or []          # argument labels in parameter order: start, end, coding_only, ...
        if d.get("member") == "AnnotationCollection.query_by_position" and labels[2:3] == ["T"]:
            return "C09-variant-collection-has-no-is-coding"
    return None
