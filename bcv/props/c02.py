"""C02  Location set algebra equals position-set semantics; results are normalised.

Reference model: frozenset of covered parent positions (bcv.models.posmodel).  Monitors:
  inv.wellformed     every Location returned by any operation is structurally well-formed (locmon.wellformed)
  inv.span           start == min(block starts), end == max(block ends) of every returned Location
  inv.normalised     results of optimize_blocks / optimize_and_combine_blocks: no empty / touching (/overlapping) blocks
  set.has_overlap, set.intersection, set.union, set.union_preserve, set.minus, set.contains   (all flag combinations)
  set.gaps, set.merge, set.optimize, set.extend, set.reverse, set.shift, set.strand-ops, set.distance
  set.parent-flags   mismatched parents: False / EmptyLocation / unchanged, MismatchedParentException when strict
  ambient.*          the same invariant and set-model monitors attached as icontract contracts (bcv/pytest_plugin.py) to the
                     real classes while the repository's own tests run (quick: tests/minimal/location; thorough: all tests)
"""
import sys
from collections import Counter

from bcv.gen import loc as G
from bcv.models import posmodel as PM
from bcv.monitors import locmon as LM

ID = "C02"
LEVEL = "exploration"
EXHAUSTIVE = False
RULE = (
    "exhaustive: all ordered pairs of locations with <=2 sorted blocks (lengths/gaps incl. 0) over a genome of GP "
    "positions x 3 strands each x all flag combinations of every binary operation; all unary operations on every "
    "layout with <=3 blocks over GU positions; seeded random pairs (<=5 blocks, genome<=1000, 25% engineered to "
    "touch/nest/share an end point, 20% with self-overlapping operands, parents none/with sequence/mismatched). "
    "Non-trivial = distinct (shape A, shape B, offset, strands) whose spans touch or overlap (not 'far apart')."
)
SCOPE = {"quick": {"GP": 5, "GU": 7, "NR": 9000}, "thorough": {"GP": 7, "GU": 10, "NR": 40000}}
EXHAUSTIVE_SCOPE = {t: f"pairs: genome {s['GP']}, <=2 blocks, 3 strands; unary: genome {s['GU']}, <=3 blocks" for t, s in SCOPE.items()}
FLOOR = {"quick": 20000, "thorough": 100000}
REQUIRED_MONITORS = ["inv.wellformed", "inv.span", "inv.normalised", "inv.no-empty-block", "inv.result-as-literal", "set.has_overlap", "set.intersection", "set.union",
                     "set.union_preserve", "set.minus", "set.contains", "set.gaps", "set.merge", "set.optimize", "set.extend",
                     "set.reverse", "set.shift", "set.strand-ops", "set.distance", "set.parent-flags",
                     "ambient.inv.wellformed", "ambient.set.intersection"]
_L = "inscripta.biocantor.location.location_impl:"
REACH = [_L + x for x in (
    "SingleInterval._has_overlap_single_interval", "SingleInterval._intersection_single_interval", "SingleInterval._union_single_interval",
    "SingleInterval.minus", "SingleInterval.extend_absolute", "SingleInterval._distance_to_single_interval",
    "CompoundInterval.has_overlap", "CompoundInterval._intersection_single_interval", "CompoundInterval._intersection_compound_interval",
    "CompoundInterval._union_single_interval", "CompoundInterval._union_compound_interval", "CompoundInterval.minus",
    "CompoundInterval._combine_blocks", "CompoundInterval.gap_list", "CompoundInterval.extend_absolute", "CompoundInterval.reverse",
    "CompoundInterval.distance_to", "CompoundInterval.merge_overlapping", "_union_preserve_overlaps")] + [
    "inscripta.biocantor.location.location:Location.contains"]
REACH_REQUIRED = REACH
ASSUMPTIONS = ["oracle: position-set model (bcv/models/posmodel.py)",
               "difference / containment compared only for operands whose own blocks do not overlap each other (as the property states)",
               "full_span semantics = both spans (documented on CompoundInterval.has_overlap/intersection)"]
WATCHDOG = {"quick": 1500, "thorough": 4 * 3600}


def selftest():
    from bcv.core import HarnessError

    try:
        PM.selftest()
    except AssertionError as e:
        raise HarnessError(f"posmodel self-test: {e!r}")


AMBIENT = {"quick": [["minimal/location"]],
           "thorough": [["minimal/location"], ["minimal/gene"], ["minimal/parent", "minimal/sequence", "minimal/util"], ["io"]]}


def shards(tier, seed):
    out = [{"i": i, "n": 16} for i in range(16)]
    out += [{"i": 100 + k, "n": 16, "kind": "ambient", "paths": p} for k, p in enumerate(AMBIENT[tier])]
    return out


def run_shard(spec, ctx):
    from bcv.monitors import ambient

    if spec.get("kind") == "ambient":
        ambient.run(ctx, spec["paths"])
        ctx.note(("ambient", tuple(spec["paths"])), klass="ambient-repo-tests")
    else:
        ambient.default_loop(sys.modules[__name__], spec, ctx)


def replay_case(case, ctx):
    if case.get("kind") == "ambient":
        from bcv.monitors import ambient

        test = case.get("test") or ""
        ambient.run(ctx, [test.split("tests/", 1)[-1]] if test else AMBIENT["quick"][0])
    else:
        run_case(case, ctx)


def cases(spec, ctx):
    i, n = spec["i"], spec["n"]
    sc = SCOPE[ctx.tier]
    idx = 0
    modes = ("none", "seq")
    for blocks in G.enum_layouts(sc["GP"], 2):
        for strand in G.STRANDS:
            idx += 1
            if idx % n == i:
                yield {"kind": "pairs", "blocks": blocks, "strand": strand, "genome": sc["GP"], "parent": modes[(idx // n) % 2]}
    idx = 0
    for blocks in G.enum_layouts(sc["GU"], 3):
        for strand in G.STRANDS:
            idx += 1
            if idx % n == i:
                yield {"kind": "unary", "blocks": blocks, "strand": strand, "genome": sc["GU"], "parent": modes[(idx // n) % 2]}
    rng = ctx.rng
    for _ in range(sc["NR"] // n + 1):
        g = rng.choice([10, 40, 200, 1000])
        ova = rng.random() < 0.2
        a = G.rand_layout(rng, g, 5, overlap=ova)
        if rng.random() < 0.25:
            # engineered: share an end point / touch / nest
            s0, e0 = a[rng.randrange(len(a))]
            choice = rng.choice(["touchL", "touchR", "nest", "same", "shareL", "shareR"])
            b1 = {"touchL": (max(0, s0 - 3), s0), "touchR": (e0, min(g, e0 + 3)), "nest": (s0, max(s0, e0 - 1)), "same": (s0, e0),
                  "shareL": (s0, min(g, e0 + 2)), "shareR": (max(0, s0 - 2), e0)}[choice]
            b = tuple(sorted({b1} | set(G.rand_layout(rng, g, 2)))) if rng.random() < 0.5 else (b1,)
            if PM.self_overlapping(b):
                b = (b1,)
        else:
            b = G.rand_layout(rng, g, 5, overlap=rng.random() < 0.2)
        yield {"kind": "random", "a": a, "sa": rng.choice(G.STRANDS), "b": b, "sb": rng.choice(G.STRANDS), "genome": g,
               "parent": rng.choice(["none", "seq", "seq", "mismatch-id", "one-none", "mismatch-type", "mismatch-seq", "mismatch-grandparent"]), "seed": rng.randrange(1 << 30)}
    # many blocks (9..24): code paths that switch strategy by block count (bisection, indexes, trees) and unsorted block ends
    # (nested blocks; zero-length blocks sharing a start with a longer block).  Own stream: the cases above are unchanged.
    mrng = __import__("random").Random(f"C02-many:{ctx.seed}:{i}")
    for _ in range(sc["NR"] // (6 * n) + 1):
        g = mrng.choice([200, 1000, 5000])
        ova = mrng.random() < 0.6
        k = mrng.choice([mrng.randint(9, 24), mrng.randint(17, 40), mrng.randint(33, 70), mrng.randint(64, 150), mrng.randint(129, 300)])
        a = []
        while len(a) < k:
            a = list(G.rand_layout(mrng, g, k, overlap=ova))
            if len(a) < 9:
                a = []
        if ova and mrng.random() < 0.7:
            s0, e0 = max(a, key=lambda x: x[1] - x[0])
            if e0 - s0 >= 3:     # a block nested early in a long block: block ends are no longer sorted
                a.append((s0 + 1, s0 + 2))
            a.append((a[0][0], a[0][0]))   # zero-length block sharing a start
            a = sorted(set(a))
        if mrng.random() < 0.6:
            s0 = mrng.randint(0, g - 1)
            b = ((s0, min(g, s0 + mrng.choice([1, 2, 5, g // 4]))),)
        else:
            b = G.rand_layout(mrng, g, mrng.choice([2, 5, 12, 40, 90]), overlap=mrng.random() < 0.3)
        if mrng.random() < 0.3:
            a, b = b, tuple(a)
        yield {"kind": "random", "a": tuple(a), "sa": mrng.choice(G.STRANDS), "b": tuple(b), "sb": mrng.choice(G.STRANDS), "genome": g,
               "parent": mrng.choice(["none", "seq"]), "seed": mrng.randrange(1 << 30), "many": True}
    # coordinates far beyond 2^31 / 2^53 (sequence-less operands)
    for _ in range(sc["NR"] // (10 * n) + 1):
        g = mrng.choice([10, 40, 200])
        off = mrng.choice([(1 << 31) - 5, (1 << 31) + 7, (1 << 32) - 3, (1 << 53) + 11, 10 ** 12, (1 << 63) - 300])
        a = tuple((s0 + off, e0 + off) for s0, e0 in G.rand_layout(mrng, g, 5, overlap=mrng.random() < 0.2))
        b = tuple((s0 + off, e0 + off) for s0, e0 in G.rand_layout(mrng, g, 5, overlap=mrng.random() < 0.2))
        yield {"kind": "random", "a": a, "sa": mrng.choice(G.STRANDS), "b": b, "sb": mrng.choice(G.STRANDS), "genome": g + off,
               "parent": "none", "seed": mrng.randrange(1 << 30), "huge": True}
    if i == 0:
        # all-empty / empty-singleton operands
        yield {"kind": "unary", "blocks": ((3, 3), (5, 5)), "strand": "+", "genome": 8, "parent": "none"}
        yield {"kind": "unary", "blocks": ((5, 5),), "strand": "-", "genome": 8, "parent": "none", "compound": True}


def _rej():
    from inscripta.biocantor.exc import BioCantorException

    return (BioCantorException, ValueError)


def _parent(case, which="a"):
    mode = case.get("parent", "none")
    g = case["genome"]
    if mode in ("none",):
        return None
    if mode == "seq":
        return G.make_parent("seq", genome="ACGT" * (g // 4 + 2), pid="chr1")
    if mode == "mismatch-id":
        return G.make_parent("id", pid="chr1" if which == "a" else "chr2")
    if mode == "one-none":
        return G.make_parent("id", pid="chr1") if which == "a" else None
    if mode == "mismatch-type":     # same id, different sequence type
        return G.make_parent("id", pid="chr1", seq_type="chromosome" if which == "a" else "plasmid")
    if mode == "mismatch-grandparent":   # same id, type and sequence; the parent sits at a different place on ITS parent (nested coordinate systems)
        from inscripta.biocantor.location.location_impl import SingleInterval
        from inscripta.biocantor.location.strand import Strand
        from inscripta.biocantor.parent import Parent

        top = Parent(id="chrT", sequence_type="chromosome", location=SingleInterval(10, 10 + g + 8, Strand.PLUS) if which == "a" else SingleInterval(30, 30 + g + 8, Strand.PLUS))
        return Parent(id="chr1", sequence_type="region", parent=top)
    if mode == "mismatch-seq":      # same id and type, different sequence content (same length)
        return G.make_parent("seq", genome=("ACGT" if which == "a" else "TGCA") * (g // 4 + 2), pid="chr1")
    raise ValueError(mode)


def _inv(ctx, res, op, normalised=None, clean_operands=False):
    """Structural monitors on a returned Location."""
    if res is None or not hasattr(res, "blocks"):
        return
    if clean_operands and not LM.is_empty_singleton(res):
        # a set operation on operands without empty blocks must not manufacture an empty block
        bad = [b for b in LM.blocks_of(res) if b[0] == b[1]]
        ctx.check("inv.no-empty-block", not bad, key=(op,), op=op, result=repr(res)[:200])
    p = LM.wellformed(res)
    ctx.check("inv.wellformed", p is None, key=(op, p and p.split(" ")[0]), op=op, problem=p, result=repr(res)[:200])
    p = LM.span_consistent(res) if p is None else None
    ctx.check("inv.span", p is None, key=(op,), op=op, problem=p, result=repr(res)[:200])
    if normalised is not None:
        p = LM.normalised(res, combined=(normalised == "combined"))
        ctx.check("inv.normalised", p is None, key=(op,), op=op, problem=p, result=repr(res)[:200])
    _as_literal(ctx, res, op)


def _as_literal(ctx, res, op):
    """Provenance: a multi-block location that an operation returned is a location like any other - whatever is asked of it next has the
    answer that the same blocks written down with the constructor give (half of the results, chosen by their content)."""
    if type(res).__name__ != "CompoundInterval":
        return
    bl = LM.blocks_of(res)
    if len(bl) < 2 or (sum(a + b for a, b in bl) + len(bl)) % 2:
        return
    from inscripta.biocantor.location.location_impl import CompoundInterval

    twin, e = ctx.call(CompoundInterval, [b[0] for b in bl], [b[1] for b in bl], res.strand, parent=res.parent)
    if e is not None:
        return

    def panel(x):
        out = {}
        for name, fn in (("is_overlapping", lambda: x.is_overlapping), ("num_blocks", lambda: x.num_blocks),
                         ("merge_overlapping", lambda: LM.blocks_of(x.merge_overlapping())), ("optimize_blocks", lambda: LM.blocks_of(x.optimize_blocks())),
                         ("optimize_and_combine_blocks", lambda: LM.blocks_of(x.optimize_and_combine_blocks())),
                         ("gap_list", lambda: [(g.start, g.end) for g in x.gap_list()]), ("len", lambda: len(x))):
            r, ex = ctx.call(fn)
            out[name] = ("raised", type(ex).__name__) if ex is not None else ("value", r)
        return out

    a, b = panel(res), panel(twin)
    bad = [k for k in b if a[k] != b[k]]
    ctx.check("inv.result-as-literal", not bad, key=(op, tuple(bad[:2])), op=op, blocks=[list(x) for x in bl], strand=res.strand.to_symbol(),
              differing={k: [repr(a[k])[:120], repr(b[k])[:120]] for k in bad[:3]})


def _set(res):
    if LM.is_empty_singleton(res):
        return frozenset()
    return PM.posset(LM.blocks_of(res))


def _multi(res):
    if LM.is_empty_singleton(res):
        return Counter()
    return Counter(p for s, e in LM.blocks_of(res) for p in range(s, e))


def _strand(res):
    return None if LM.is_empty_singleton(res) else res.strand.to_symbol()


def _span(blocks):
    return (min(b[0] for b in blocks), max(b[1] for b in blocks))


def binary(ctx, A, a, sa, B, b, sb, parents_equal=True, tag="plain"):
    """All binary operations with all flag combinations.  a, b are block tuples; A, B the real locations."""
    from inscripta.biocantor import DistanceType
    from inscripta.biocantor.exc import MismatchedParentException, InvalidStrandException

    SA, SB = PM.posset(a), PM.posset(b)
    ova, ovb = PM.self_overlapping(a), PM.self_overlapping(b)
    clean = all(x[1] > x[0] for x in a + b)
    spa, spb = _span(a), _span(b)
    span_a, span_b = frozenset(range(*spa)), frozenset(range(*spb))
    same_strand = sa == sb
    if not parents_equal:
        # documented: mismatched parents => False / EmptyLocation / unchanged; strict => MismatchedParentException
        r, e = ctx.call(A.has_overlap, B)
        ctx.check("set.parent-flags", e is None and r is False, key="has_overlap", got=r, exc=repr(e))
        r, e = ctx.call(A.intersection, B, match_strand=False)
        ctx.check("set.parent-flags", e is None and r is not None and len(r) == 0, key="intersection", got=repr(r), exc=repr(e))
        r, e = ctx.call(A.contains, B)
        ctx.check("set.parent-flags", e is None and r is False, key="contains", got=r, exc=repr(e))
        r, e = ctx.call(A.minus, B, match_strand=False)
        ctx.check("set.parent-flags", e is None and r is not None and _set(r) == SA, key="minus", got=repr(r), exc=repr(e))
        for name in ("has_overlap", "intersection", "contains", "minus"):
            r, e = ctx.call(getattr(A, name), B, strict_parent_compare=True)
            ctx.check("set.parent-flags", isinstance(e, MismatchedParentException), key=("strict", name), got=repr(r), exc=repr(e))
            # the same call with every flag handed over positionally, in the documented order and with the documented defaults
            import inspect

            params = [q for q in list(inspect.signature(getattr(A, name)).parameters.values())[1:] if q.kind == q.POSITIONAL_OR_KEYWORD]
            if params and params[-1].name == "strict_parent_compare" and all(q.default is not q.empty for q in params):
                r, e = ctx.call(getattr(A, name), B, *([q.default for q in params[:-1]] + [True]))
                ctx.check("set.parent-flags", isinstance(e, MismatchedParentException), key=("strict-positional", name), got=repr(r), exc=repr(e))
        if A.parent is not None:
            r, e = ctx.call(A.union, B) if same_strand else (None, None)
            if same_strand:
                ctx.check("set.parent-flags", isinstance(e, MismatchedParentException), key="union", got=repr(r), exc=repr(e))
            r, e = ctx.call(A.distance_to, B)
            ctx.check("set.parent-flags", isinstance(e, MismatchedParentException), key="distance", got=repr(r), exc=repr(e))
        return

    for ms in (False, True):
        for fs in (False, True):
            strand_ok = (not ms) or same_strand
            # ---- has_overlap
            want = strand_ok and bool((span_a & span_b) if fs else (SA & SB))
            if fs and (len(SA) == 0 or len(SB) == 0):
                want = None  # spans of empty operands: zero-width comparisons are not specified
            r, e = ctx.call(A.has_overlap, B, match_strand=ms, full_span=fs)
            if want is not None:
                ctx.check("set.has_overlap", e is None and r is want, key=("has_overlap", ms, fs, tag), ms=ms, fs=fs, got=r, want=want, exc=repr(e) if e else None)
            # ---- intersection
            r, e = ctx.call(A.intersection, B, match_strand=ms, full_span=fs)
            if e is not None:
                ctx.check("set.intersection", False, key=("raised", type(e).__name__, tag), ms=ms, fs=fs, exc=repr(e)[:200])
            elif want is not None:
                wset = (span_a & span_b if fs else SA & SB) if strand_ok else frozenset()
                got = _set(r)
                ok = got == wset and (not wset or _strand(r) == sa)
                if not (ova or ovb) and not fs:
                    ok = ok and len(r) == len(wset)
                ctx.check("set.intersection", ok, key=("value", ms, fs, tag), ms=ms, fs=fs, got=sorted(got), want=sorted(wset), got_strand=_strand(r))
                _inv(ctx, r, "intersection", clean_operands=clean)
            # ---- contains
            r, e = ctx.call(A.contains, B, match_strand=ms, full_span=fs)
            if not (ova or ovb) and want is not None:
                if fs:
                    wc = strand_ok and bool(span_b) and span_b <= span_a and bool(span_a & span_b)
                else:
                    wc = strand_ok and bool(SB) and SB <= SA
                ctx.check("set.contains", e is None and r is wc, key=("contains", ms, fs, tag), ms=ms, fs=fs, got=r, want=wc, exc=repr(e) if e else None)
        # ---- minus (no full_span flag)
        r, e = ctx.call(A.minus, B, match_strand=ms)
        if not (ova or ovb):
            strand_ok = (not ms) or same_strand
            wset = SA - SB if strand_ok else SA
            if e is not None:
                ctx.check("set.minus", False, key=("raised", type(e).__name__, tag), ms=ms, exc=repr(e)[:200])
            else:
                got = _set(r)
                ok = got == wset and len(r) == len(wset) and (not wset or _strand(r) == sa)
                ctx.check("set.minus", ok, key=("value", ms, tag), ms=ms, got=sorted(got), want=sorted(wset), got_strand=_strand(r))
                _inv(ctx, r, "minus", clean_operands=clean)
        elif e is None:
            _inv(ctx, r, "minus", clean_operands=clean)
    # ---- union
    r, e = ctx.call(A.union, B)
    if not same_strand:
        ctx.check("set.union", isinstance(e, ValueError), key=("strand-mismatch", tag), got=repr(r), exc=repr(e))
    elif e is not None:
        ctx.check("set.union", False, key=("raised", type(e).__name__, tag), exc=repr(e)[:200])
    else:
        got = _set(r)
        ok = got == SA | SB and (not got or _strand(r) == sa)
        if not (ova or ovb):
            ok = ok and len(r) == len(SA | SB)
        ctx.check("set.union", ok, key=("value", tag), got=sorted(got), want=sorted(SA | SB), got_strand=_strand(r), length=len(r))
        _inv(ctx, r, "union", clean_operands=clean)
    # ---- union_preserve_overlaps
    r, e = ctx.call(A.union_preserve_overlaps, B)
    if not same_strand:
        ctx.check("set.union_preserve", isinstance(e, InvalidStrandException), key=("strand-mismatch", tag), got=repr(r), exc=repr(e))
    elif e is not None:
        ctx.check("set.union_preserve", False, key=("raised", type(e).__name__, tag), exc=repr(e)[:200])
    else:
        want = Counter(p for s, en in a for p in range(s, en)) + Counter(p for s, en in b for p in range(s, en))
        ctx.check("set.union_preserve", _multi(r) == want and (not want or _strand(r) == sa), key=("value", tag),
                  got=sorted(_multi(r).elements()), want=sorted(want.elements()))
        _inv(ctx, r, "union_preserve_overlaps", normalised="preserve", clean_operands=clean)
    # ---- distance
    for dt in DistanceType:
        r, e = ctx.call(A.distance_to, B, dt)
        r2, e2 = ctx.call(B.distance_to, A, dt)
        if dt.name == "STARTS":
            want = abs(spa[0] - spb[0])
        elif dt.name == "ENDS":
            want = abs(spa[1] - spb[1])
        elif dt.name == "OUTER":
            want = max(abs(spa[0] - spb[1]), abs(spa[1] - spb[0]))
        else:
            if any(x[1] == x[0] for x in a + b):
                want = None  # zero-length blocks: inner distance not specified
            elif SA & SB:
                want = 0
            else:
                want = min(max(s2 - e1, s1 - e2) for (s1, e1) in a for (s2, e2) in b)
        if want is not None:
            ctx.check("set.distance", e is None and e2 is None and r == want == r2, key=(dt.name, tag), type=dt.name, got=r, got_rev=r2, want=want,
                      exc=repr(e or e2) if (e or e2) else None)


def unary(ctx, A, a, sa, genome_len=None, tag="plain"):
    from inscripta.biocantor.exc import InvalidStrandException, InvalidPositionException
    from inscripta.biocantor.location.location_impl import CompoundInterval
    from inscripta.biocantor.location.strand import Strand

    SA = PM.posset(a)
    MA = Counter(p for s, e in a for p in range(s, e))
    ov = PM.self_overlapping(a)
    spa = _span(a)
    ne = [x for x in a if x[1] > x[0]]
    # structural self-check of the operand as constructed
    _inv(ctx, A, "constructor")
    ctx.check("set.optimize", A.num_blocks == len(a) and len(A) == sum(e - s for s, e in a), key=("props", tag))
    if len(ne) == len(a):
        # (zero-length blocks carry no position: whether they 'overlap' or break contiguity is not specified)
        contiguous = all(a2[0] == a1[1] for a1, a2 in zip(sorted(a), sorted(a)[1:]))
        ctx.check("set.optimize", A.is_overlapping is ov and (ov or A.is_contiguous is contiguous), key=("is_overlapping/is_contiguous", tag),
                  is_overlapping=A.is_overlapping, want=ov, is_contiguous=A.is_contiguous, want_contiguous=contiguous)
    # ---- optimize_blocks
    r, e = ctx.call(A.optimize_blocks)
    if e is not None:
        ctx.check("set.optimize", False, key=("optimize-raised", type(e).__name__, tag), exc=repr(e)[:200])
    else:
        ctx.check("set.optimize", _multi(r) == MA and (not SA or _strand(r) == sa) and (bool(SA) or len(r) == 0), key=("optimize_blocks", tag),
                  got=sorted(_multi(r).elements()), want=sorted(MA.elements()))
        _inv(ctx, r, "optimize_blocks", normalised="preserve")
    # ---- optimize_and_combine_blocks / merge_overlapping
    if isinstance(A, CompoundInterval):
        r, e = ctx.call(A.optimize_and_combine_blocks)
        if e is not None:
            ctx.check("set.optimize", False, key=("combine-raised", type(e).__name__, tag), exc=repr(e)[:200])
        else:
            ctx.check("set.optimize", _set(r) == SA and len(r) == len(SA) and (not SA or _strand(r) == sa), key=("optimize_and_combine", tag),
                      got=sorted(_set(r)), want=sorted(SA), length=len(r))
            _inv(ctx, r, "optimize_and_combine_blocks", normalised="combined")
    r, e = ctx.call(A.merge_overlapping)
    if e is not None:
        ctx.check("set.merge", False, key=("raised", type(e).__name__, tag), exc=repr(e)[:200])
    else:
        ok = _set(r) == SA and (not SA or _strand(r) == sa)
        if ov:
            ok = ok and len(r) == len(SA)
        ctx.check("set.merge", ok, key=("value", "overlapping" if ov else "plain"), got=sorted(_set(r)), want=sorted(SA), length=len(r))
        _inv(ctx, r, "merge_overlapping")
    # ---- gaps
    gl, e = ctx.call(A.gap_list)
    gloc, e2 = ctx.call(A.gaps_location)
    if not ne:
        # a location without a single base has no gap; an empty answer is expected (tracked separately when it raises)
        ok = (e is None and gl == []) and (e2 is None and len(gloc) == 0)
        ctx.check("set.gaps", ok, key=("all-empty", type(A).__name__, type(e or e2).__name__ if (e or e2) else "value"),
                  exc=repr(e or e2)[:200] if (e or e2) else None, got=repr(gl)[:100])
    elif sa == "." and (e is not None or e2 is not None):
        # gaps are documented as 'ordered relative to strand': refusing an unstranded location is admissible
        ctx.check("set.gaps", isinstance(e or e2, InvalidStrandException), key=("unstranded-refused", tag), exc=repr(e or e2)[:200])
    elif e is not None or e2 is not None:
        ctx.check("set.gaps", False, key=("raised", type(e or e2).__name__, tag), exc=repr(e or e2)[:200])
    else:
        sp = (min(s for s, _ in ne), max(en for _, en in ne))
        wgaps = PM.runs(frozenset(range(*sp)) - SA)
        if sa == "-":
            wgaps = wgaps[::-1]
        got = [(g.start, g.end) for g in gl]
        ok = got == wgaps and all(g.strand.to_symbol() == sa for g in gl)
        ok = ok and _set(gloc) == frozenset(range(*sp)) - SA and (not wgaps or _strand(gloc) == sa)
        ctx.check("set.gaps", ok, key=("value", tag), got=got, want=wgaps, gaps_location=repr(gloc)[:120])
        _inv(ctx, gloc, "gaps_location")
        for g in gl:
            _inv(ctx, g, "gap_list")
    # ---- strand ops
    for name, want_strand, args in (("reverse_strand", {"+": "-", "-": "+", ".": "."}[sa], ()),
                                    ("reset_strand", "+", (Strand.PLUS,)), ("reset_strand", "-", (Strand.MINUS,)), ("reset_strand", ".", (Strand.UNSTRANDED,))):
        r, e = ctx.call(getattr(A, name), *args)
        ok = e is None and _multi(r) == MA and _strand(r) == want_strand and r.num_blocks == A.num_blocks
        ctx.check("set.strand-ops", ok, key=(name, tag), got=repr(r)[:150], exc=repr(e) if e else None)
        if e is None:
            _inv(ctx, r, name)
    # ---- reverse: same start and stop, strand and structure reversed
    r, e = ctx.call(A.reverse)
    if e is not None:
        ctx.check("set.reverse", False, key=("raised", type(e).__name__), exc=repr(e)[:200])
    else:
        if type(A).__name__ == "SingleInterval":
            want = MA
        else:
            want = Counter(spa[0] + spa[1] - 1 - p for p in MA.elements())
        ok = _multi(r) == want and _strand(r) == {"+": "-", "-": "+", ".": "."}[sa] and (r.start, r.end) == (A.start, A.end)
        ctx.check("set.reverse", ok, key=("value", type(A).__name__, tag), got=sorted(_multi(r).elements()), want=sorted(want.elements()), got_strand=_strand(r))
        _inv(ctx, r, "reverse")
        r2, e2 = ctx.call(r.reverse)
        ctx.check("set.reverse", e2 is None and _multi(r2) == MA and _strand(r2) == sa, key=("involution", tag), got=repr(r2)[:120])
    # ---- shift
    for k in (0, 1, 3, -1, -spa[0], -spa[0] - 1) + ((genome_len - spa[1], genome_len - spa[1] + 1) if genome_len else ()):
        r, e = ctx.call(A.shift_position, k)
        legal = spa[0] + k >= 0 and (genome_len is None or spa[1] + k <= genome_len)
        if legal:
            ok = e is None and _multi(r) == Counter(p + k for p in MA.elements()) and _strand(r) == sa
            ctx.check("set.shift", ok, key=("value", tag), k=k, got=repr(r)[:120], exc=repr(e) if e else None)
            if e is None:
                _inv(ctx, r, "shift_position")
        else:
            ctx.check("set.shift", isinstance(e, InvalidPositionException), key=("refuse", tag), k=k, got=repr(r)[:120], exc=repr(e) if e else None)
    # ---- extend
    for (x, y) in ((0, 0), (1, 0), (0, 2), (2, 1), (spa[0], 0), (spa[0] + 1, 0), (-1, 0), (0, -1)) + (
            ((0, genome_len - spa[1]), (0, genome_len - spa[1] + 1)) if genome_len else ()):
        r, e = ctx.call(A.extend_absolute, x, y)
        if min(x, y) < 0:
            ctx.check("set.extend", isinstance(e, ValueError), key=("negative", tag), x=x, y=y, got=repr(r)[:100], exc=repr(e))
            continue
        legal = spa[0] - x >= 0 and (genome_len is None or spa[1] + y <= genome_len)
        if not legal:
            ctx.check("set.extend", isinstance(e, InvalidPositionException), key=("refuse", type(A).__name__, tag), x=x, y=y, got=repr(r)[:100], exc=repr(e))
            continue
        if ov:
            continue
        want = SA | frozenset(range(spa[0] - x, spa[0])) | frozenset(range(spa[1], spa[1] + y))
        ok = e is None and _set(r) == want and (not want or _strand(r) == sa)
        if ok and isinstance(A, CompoundInterval):
            ok = len(r) == len(want)
        ctx.check("set.extend", ok, key=("absolute", type(A).__name__, tag), x=x, y=y, got=repr(r)[:150], want=sorted(want), exc=repr(e) if e else None)
        if e is None:
            _inv(ctx, r, "extend_absolute")
        # relative
        r, e = ctx.call(A.extend_relative, x, y)
        if sa == ".":
            ctx.check("set.extend", isinstance(e, InvalidStrandException), key=("relative-unstranded", tag), got=repr(r)[:100], exc=repr(e))
        else:
            up, down = (x, y) if sa == "+" else (y, x)
            legal2 = spa[0] - up >= 0 and (genome_len is None or spa[1] + down <= genome_len)
            if legal2:
                want = SA | frozenset(range(spa[0] - up, spa[0])) | frozenset(range(spa[1], spa[1] + down))
                ctx.check("set.extend", e is None and _set(r) == want, key=("relative", tag), x=x, y=y, got=repr(r)[:150], want=sorted(want), exc=repr(e) if e else None)


def run_case(case, ctx):
    k = case["kind"]
    if k == "pairs":
        a = tuple(tuple(x) for x in case["blocks"])
        sa = case["strand"]
        par = _parent(case, "a")
        A = G.build(a, sa, parent=par)
        ctx.note(("pairs-from",) + G.layout_signature(a, sa), klass="pairs-from-" + type(A).__name__)
        spa = _span(a)
        for b in G.enum_layouts(case["genome"], 2):
            spb = _span(b)
            near = spb[0] <= spa[1] and spa[0] <= spb[1]
            for sb in G.STRANDS:
                B = G.build(b, sb, parent=_parent(case, "a"))
                ctx.note((G.layout_signature(a, sa), G.layout_signature(b, sb), b[0][0] - a[0][0]), nontrivial=near)
                binary(ctx, A, a, sa, B, b, sb)
        return
    if k == "unary":
        a = tuple(tuple(x) for x in case["blocks"])
        sa = case["strand"]
        par = _parent(case, "a")
        glen = len(par.sequence) if par is not None and par.sequence is not None else None
        A = G.build(a, sa, parent=par, force_compound=case.get("compound", False))
        ctx.note(("unary",) + G.layout_signature(a, sa) + (case.get("parent"),), nontrivial=G.nontrivial_layout(a, sa), klass="unary-" + type(A).__name__)
        unary(ctx, A, a, sa, genome_len=glen)
        if len(a) == 1:
            A2 = G.build(a, sa, parent=par, force_compound=True)
            unary(ctx, A2, a, sa, genome_len=glen, tag="one-block-compound")
        return
    if k == "random":
        a = tuple(tuple(x) for x in case["a"])
        b = tuple(tuple(x) for x in case["b"])
        sa, sb = case["sa"], case["sb"]
        pa, pb = _parent(case, "a"), _parent(case, "b")
        A, B = G.build(a, sa, parent=pa), G.build(b, sb, parent=pb)
        ov = PM.self_overlapping(a) or PM.self_overlapping(b)
        tag = "overlapping" if ov else "plain"
        ctx.note(("rand", G.layout_signature(a, sa), G.layout_signature(b, sb), b[0][0] - a[0][0], case["parent"]),
                 klass="random-" + tag + "-" + case["parent"])
        equal = case["parent"] in ("none", "seq")
        binary(ctx, A, a, sa, B, b, sb, parents_equal=equal, tag=tag)
        glen = len(pa.sequence) if pa is not None and pa.sequence is not None else None
        if not case.get("huge"):     # the unary leg extends / shifts down to position 0: not enumerable for huge coordinates
            unary(ctx, A, a, sa, genome_len=glen, tag=tag)
        return
    from bcv.core import HarnessError

    raise HarnessError(f"unknown kind {k}")


def classify(v):
    return None
