"""C04  Lift-over through nested coordinate systems composes and preserves sequence.

The harness builds every hierarchy itself: level k is placed on level k-1 by a 1..3-block location on either strand and
its sequence string is computed by the sequence model from the parent's string, so the reference model
(bcv.models.liftmodel: composition of posmodel position lists) knows for every base of every level its coordinate and
orientation on every ancestor.  Two equivalent real hierarchies are built from one spec: 'seq' (Sequence objects whose
parent is the Parent of the placing location - what Sequence slicing produces) and 'id' (Parents with ids/types only).

Monitors
  lift.by-type        X.lift_over_to_first_ancestor_of_type(t) == composed position list / strand on the *closest*
                      ancestor of type t (levels may share a type or have none); result parent carries that ancestor's
                      id and type; the immediate parent having type t returns X's own coordinates
  lift.by-sequence    X.lift_over_to_sequence(S_j) == composed list on level j, result parent holds S_j
  lift.child-to-parent  X.parent.lift_child_location_to_parent() == one composition step
  lift.sequence       str(lifted.extract_sequence()) == str(X.extract_sequence()) == model string ('seq' hierarchies)
  lift.ancestor-search  first_ancestor_of_type(t) is the Parent of the closest level of type t, has_ancestor_of_type /
                      has_ancestor_sequence are true exactly for the ancestors (documented 'closest ancestor' search the
                      lifts rely on)
  lift.refusal        absent type / type of a descendant only / foreign or descendant sequence / location without parent
                      -> NoSuchAncestorException; location with a gap to lift_over_to_sequence -> ValueError; root level
                      asked for its grandparent -> refused; never a Location
  lift.history        a look-alike hierarchy that shares levels j..d with the full one (same ids, types, strings, placements) but has
                      no ancestors below level j, built before or after the full hierarchy in the same process: its children lift
                      to levels j..d as the model says and are refused below j - and the full hierarchy, built second, still
                      reaches every level (the process-wide Parent cache must not hand one hierarchy's ancestry to the other)
  lift.wellformed     every lifted Location is structurally well-formed (locmon.wellformed + span_consistent)
  chunk.lift          AbstractInterval.liftover_location_to_seq_chunk_parent(L, seq_chunk_to_parent(...)) (and
                      initialize_location) == the bases of L inside [cs, ce) in chunk coordinates, chunk on either strand
  chunk.sequence      the chunk-relative location extracts, from the chunk, what the model reads from the chromosome
  chunk.back          lifting back (by type 'chromosome') == exactly the part of L inside the chunk, original strand
  chunk.rechunk       a chunk-relative location lifted onto a second chunk / onto the whole chromosome (seq_to_parent)
                      == the part inside both windows
  chunk.whole         seq_to_parent parent: coordinates unchanged, sequence == model
  chunk.refusal       no base inside the chunk -> EmptyLocation; chunk parent without chromosome ancestor ->
                      NoSuchAncestorException; without sequence -> refused; chunk of another chromosome -> refused

Latitude (what the property text leaves open; everything else is compared exactly, base by base, in 5'->3' order)
  * child locations whose own blocks overlap each other: a Location can only enumerate its blocks in canonical
    (sorted) order, which a strand flip changes, so positions are compared as multisets and the extracted sequences as
    multisets of characters; levels themselves are placed by non-overlapping blocks (a sequence cannot put two of its
    bases on one parent base), zero-length blocks in a placement are allowed and carry no base;
  * unstranded child locations: positions compared as sorted lists, strand must stay unstranded, no sequence claim;
  * zero-width requests (child location without a base): an empty answer or an explicit refusal is accepted, a base
    never is (observed: Parent.lift_child_location_to_parent refuses them with NullParentException because a
    zero-length Location is falsy in `if not parent.location`);
  * lift_over_to_sequence documents 'must be contiguous' (ValueError).  It is demanded for a location with a real gap
    and must not happen when the location and every intermediate image are gap-free runs without empty blocks; in
    between (an intermediate image is split by a multi-block placement; the location has empty or overlapping blocks)
    both a ValueError and the correct answer are accepted - a wrong answer never is;
  * 'refused' = an explicit BioCantorException / ValueError.  The class is demanded only where the property or the
    docstring of the called function names it (NoSuchAncestorException, ValueError, EmptyLocation);
  * adjacent blocks may be merged or kept (optimize_blocks=False in the chunk lift): position lists, never block lists,
    are compared.

Finding on the unchanged tree (classify() -> F-C04-lift-child-with-two-leading-empty-blocks, patch proposed in
proposed_fixes/C04-lift-leading-empty-blocks.diff): a child location that has bases but whose first two blocks are
zero-length is refused with EmptyLocationException by Parent.lift_child_location_to_parent (the pairwise fold of the
lifted blocks collapses empty + empty to EmptyLocation, which cannot be unioned); the same location with the empty
blocks elsewhere, or with one empty block, lifts correctly.
"""
import itertools
from collections import Counter

from bcv.gen import loc as G
from bcv.models import liftmodel as HM
from bcv.models import posmodel as PM
from bcv.models import seqmodel as SM
from bcv.monitors import locmon as LM

ID = "C04"
LEVEL = "exploration"
EXHAUSTIVE = False
RULE = (
    "hierarchies built by the harness (root string + levels placed by 1..3 non-overlapping blocks on +/-): exhaustive "
    "depth 1 (every placement of <=K1 blocks over a root of G1 bases x both strands x every child location of <=2 "
    "blocks x 3 strands), exhaustive depth 2 (root G2, <=K2 blocks per level, all 4 strand mixes, every child "
    "location), seeded random depth 1..4 cycling through all strand mixes (root 10..60, child locations of 1..3 blocks "
    "on every level, 15% self-overlapping, some with empty blocks / unstranded, levels sharing a type or without type); "
    "each child is lifted to every ancestor by type and by sequence identity plus refusals.  Chunks: every window "
    "(cs,ce) x chunk strand over a genome of GC bases x every location of <=KC blocks x both strands, and every window "
    "over random genomes of GR bases with random locations (cutting / missing / spanning / falling into a gap), each "
    "re-lifted onto a second window and the whole chromosome.  A signature is (placement shapes and strands of all "
    "levels, child shape and strand, child level) resp. (location shape and strand, relation to the window, window length, chunk strand); "
    "non-trivial = at least one level is crossed and some placement or the child is multi-block or on the minus "
    "strand, resp. the location has a base inside or next to the window."
)
SCOPE = {
    "quick": {"G1": 6, "K1": 3, "G2": 4, "K2": 2, "NR": 1600, "NX": 8, "GC": 8, "KC": 2, "GR": 20, "NL": 12, "NG": 2},
    "thorough": {"G1": 8, "K1": 3, "G2": 5, "K2": 2, "NR": 30000, "NX": 12, "GC": 10, "KC": 3, "GR": 40, "NL": 10, "NG": 3},
}
EXHAUSTIVE_SCOPE = {t: (f"depth 1: root {s['G1']}, <= {s['K1']} blocks, children <= 2 blocks; depth 2: root {s['G2']}, <= {s['K2']} blocks per level; "
                        f"chunks: all windows over {s['GC']} bases x locations <= {s['KC']} blocks; all windows over {s['NG']} random genome(s) of {s['GR']} bases")
                    for t, s in SCOPE.items()}
FLOOR = {"quick": 20000, "thorough": 100000}
REQUIRED_MONITORS = ["lift.history", "lift.by-type", "lift.by-sequence", "lift.child-to-parent", "lift.sequence", "lift.ancestor-search", "lift.refusal", "lift.wellformed",
                     "chunk.lift", "chunk.sequence", "chunk.back", "chunk.rechunk", "chunk.whole", "chunk.refusal"]
REACH = [
    # (location_impl first: importing inscripta.biocantor.parent.parent before the location package is circular)
    "inscripta.biocantor.location.location_impl:SingleInterval.relative_interval_to_parent_location",
    "inscripta.biocantor.location.location_impl:CompoundInterval.relative_interval_to_parent_location",
    "inscripta.biocantor.location.location_impl:_union_preserve_overlaps",
    "inscripta.biocantor.parent.parent:Parent.lift_child_location_to_parent",
    "inscripta.biocantor.parent.parent:Parent.first_ancestor_of_type",
    "inscripta.biocantor.parent.parent:Parent.has_ancestor_of_type",
    "inscripta.biocantor.parent.parent:Parent.has_ancestor_sequence",
    "inscripta.biocantor.parent.parent:Parent.strip_location_info",
    "inscripta.biocantor.location.location:Location.lift_over_to_first_ancestor_of_type",
    "inscripta.biocantor.location.location:Location.lift_over_to_sequence",
    "inscripta.biocantor.location.location:Location.first_ancestor_of_type",
    "inscripta.biocantor.location.location:Location.has_ancestor_sequence",
    "inscripta.biocantor.gene.interval:AbstractInterval.liftover_location_to_seq_chunk_parent",
    "inscripta.biocantor.gene.interval:AbstractInterval.initialize_location",
    "inscripta.biocantor.io.parser:seq_chunk_to_parent",
    "inscripta.biocantor.io.parser:seq_to_parent",
]
REACH_REQUIRED = REACH
ASSUMPTIONS = [
    "oracle: composition of position lists (bcv/models/liftmodel.py over posmodel / seqmodel), built without BioCantor code",
    "levels are placed on their parents by non-overlapping blocks on + or -; root alphabets without U (complement is an involution)",
    "refusal = explicit BioCantorException or ValueError; exception class demanded only where documented (see module docstring)",
]
WATCHDOG = {"quick": 1500, "thorough": 3 * 3600}

ROOT = "GATTCACGGTCAAGTC"
CHROM = "chr1"


def selftest():
    from bcv.core import HarnessError

    try:
        PM.selftest()
        SM.selftest()
        HM.selftest()
    except AssertionError as e:
        raise HarnessError(f"model self-test: {e!r}")


# --------------------------------------------------------------------------------------------------------------------
# generators
# --------------------------------------------------------------------------------------------------------------------
def _placements(n, kmax):
    """Every sorted non-overlapping layout with <= kmax blocks over [0, n] that carries at least one base."""
    for blocks in G.enum_layouts(n, kmax):
        if sum(e - s for s, e in blocks) > 0:
            yield blocks


def _rand_placement(rng, n, kmax=3):
    """Random placement of a level on a parent of n bases: 1..kmax non-overlapping blocks, >= 1 base, biased towards
    covering most of the parent (so that depth 4 still has bases), sometimes touching / empty blocks."""
    for _ in range(50):
        k = rng.randint(1, kmax)
        cuts = sorted(rng.randint(0, n) for _ in range(2 * k))
        if rng.random() < 0.6:
            cuts[0] = rng.randint(0, min(2, cuts[0]))
            cuts[-1] = n - rng.randint(0, min(2, n - cuts[-1]))
            for j in range(1, k):
                if rng.random() < 0.6:
                    cuts[2 * j] = min(cuts[2 * j], cuts[2 * j - 1] + rng.randint(0, 2))
        blocks = tuple((cuts[2 * j], cuts[2 * j + 1]) for j in range(k))
        if rng.random() < 0.85:
            blocks = tuple(b for b in blocks if b[1] > b[0])
        if blocks and sum(e - s for s, e in blocks) >= min(n, 2):
            return blocks
    return ((0, n),)


def _rand_child(rng, n):
    """Random child location on a level of n bases: (blocks, strand)."""
    r = rng.random()
    if r < 0.15 and n >= 2:
        blocks = G.rand_layout(rng, n, 3, overlap=True, allow_empty_blocks=False)
    elif r < 0.25:
        blocks = G.rand_layout(rng, n, 3, allow_empty_blocks=True)
    else:
        blocks = G.rand_layout(rng, n, 3, allow_empty_blocks=False)
    strand = rng.choice("+-") if rng.random() < 0.92 else "."
    return [list(b) for b in blocks], strand


def _rand_genome(rng, n):
    alpha = "ACGT" if rng.random() < 0.8 else "ACGTRYKMSWBDHVNacgtn-"
    return "".join(rng.choice(alpha) for _ in range(n))


def _rand_types(rng, depth):
    r = rng.random()
    if r < 0.12:
        # the library's own type names (asked for by str and by enum member, see check_child)
        return [rng.choice(["chromosome", "sequence_chunk", "a"]) for _ in range(depth + 1)]
    if r < 0.65:
        return [f"t{i}" for i in range(depth + 1)]
    pool = ["a", "b", "c"] if r < 0.85 else ["a", "b", None]
    return [rng.choice(pool) for _ in range(depth + 1)]


def shards(tier, seed):
    return [{"i": i, "n": 16} for i in range(16)]


def cases(spec, ctx):
    i, n = spec["i"], spec["n"]
    sc = SCOPE[ctx.tier]
    modes = ("seq", "id")
    # (a) exhaustive depth 1
    idx = 0
    for blocks in _placements(sc["G1"], sc["K1"]):
        for strand in "+-":
            idx += 1
            if idx % n == i:
                k = idx // n
                yield {"kind": "enum", "root": (ROOT[k % 5:] + ROOT)[:sc["G1"]], "levels": [[blocks, strand]], "types": ["t0", "t1"],
                       "mode": modes[k % 2] if k % 4 else "seq", "kx": 2}
    # (b) exhaustive depth 2
    idx = 0
    for b1 in _placements(sc["G2"], sc["K2"]):
        n1 = sum(e - s for s, e in b1)
        for b2 in _placements(n1, sc["K2"]):
            for s1, s2 in itertools.product("+-", repeat=2):
                idx += 1
                if idx % n == i:
                    k = idx // n
                    yield {"kind": "enum", "root": (ROOT[k % 7:] + ROOT)[:sc["G2"]], "levels": [[b1, s1], [b2, s2]], "types": ["t0", "t1", "t2"],
                           "mode": modes[k % 2], "kx": 2}
    # (c) random depth 1..4, strand mixes cycled systematically
    rng = ctx.rng
    mixes = [m for d in (1, 2, 3, 4) for m in itertools.product("+-", repeat=d)]
    for k in range(sc["NR"] // n + 1):
        mix = mixes[(k * n + i) % len(mixes)]
        depth = len(mix)
        root = _rand_genome(rng, rng.choice([10, 16, 30, 60]) if depth > 2 else rng.choice([8, 12, 20, 40]))
        levels, m = [], len(root)
        for s in mix:
            b = _rand_placement(rng, m)
            levels.append([[list(x) for x in b], s])
            m = sum(e - s0 for s0, e in b)
        lens = HM.Hier(root, levels).lengths
        xs = []
        for _ in range(sc["NX"]):
            d = depth if rng.random() < 0.6 else rng.randint(0, depth)
            xb, xst = _rand_child(rng, lens[d])
            xs.append([d, xb, xst])
        c = {"kind": "rand", "root": root, "levels": levels, "types": _rand_types(rng, depth), "mode": rng.choice(modes + ("seq", "seqpar")), "xs": xs}
        if depth >= 2:
            # history leg: a look-alike hierarchy cut below level j0, built before or after the full one (drawn from an own stream
            # so that the other legs see the same cases as before)
            hr = __import__("random").Random(f"C04-lookalike:{ctx.seed}:{i}:{k}")
            c["lookalike"] = [hr.randint(1, depth - 1), hr.random() < 0.5]
            if not any(x[0] > c["lookalike"][0] for x in xs):
                xs.append([depth] + list(_rand_child(hr, lens[depth])))
        yield c
    # (c2) scale (own stream): levels placed by 17..60 blocks and child locations of 17..60 blocks on roots of 600..2000 bases
    srng = __import__("random").Random(f"C04-scale:{ctx.seed}:{i}")
    for k in range(sc["NR"] // (25 * n) + 1):
        depth = srng.choice([1, 1, 2])
        root = _rand_genome(srng, srng.choice([1200, 2000, 4000]))
        levels, m = [], len(root)
        for _d in range(depth):
            b = ()
            while len(b) < 12:
                b = _rand_placement(srng, m, kmax=srng.choice([24, 40, 60, 110, 160]))
            levels.append([[list(x) for x in b], srng.choice("+-")])
            m = sum(e - s0 for s0, e in b)
        lens = HM.Hier(root, levels).lengths
        xs = []
        for _x in range(4):
            d = depth if srng.random() < 0.7 else srng.randint(0, depth)
            nbk = srng.choice([2, 17, 30, 60, 140])
            bl = G.rand_layout(srng, lens[d], nbk, overlap=srng.random() < 0.15, allow_empty_blocks=srng.random() < 0.2)
            xs.append([d, [list(x) for x in bl], srng.choice("+-")])
        yield {"kind": "rand", "root": root, "levels": levels, "types": [f"t{j}" for j in range(depth + 1)], "mode": srng.choice(modes), "xs": xs, "scale": True}
    # (d) chunks, exhaustive: every window x chunk strand; every location enumerated inside the case
    idx = 0
    gc = sc["GC"]
    for cs in range(gc):
        for ce in range(cs + 1, gc + 1):
            for cstrand in "+-":
                idx += 1
                if idx % n == i:
                    yield {"kind": "chunk-enum", "genome": (ROOT[idx % 6:] + ROOT)[:gc], "cs": cs, "ce": ce, "cstrand": cstrand, "kmax": sc["KC"],
                           "w2": _second_window(idx, gc)}
    # (e) chunks, random locations, every window over random genomes
    grng = __import__("random").Random(f"C04-genomes:{ctx.seed}")
    idx = 0
    for gi in range(sc["NG"]):
        gr = sc["GR"] if gi == 0 else grng.choice([13, 25, sc["GR"]])
        genome = _rand_genome(grng, gr)
        for cs in range(gr):
            for ce in range(cs + 1, gr + 1):
                idx += 1
                if idx % n != i:
                    continue
                cstrand = "+-"[(idx // n + cs) % 2] if ctx.tier == "quick" else None
                for cst in ([cstrand] if cstrand else "+-"):
                    locs = [_rand_chunk_loc(rng, gr, cs, ce) for _ in range(sc["NL"])]
                    w2s, w2e = sorted(rng.sample(range(gr + 1), 2))
                    yield {"kind": "chunk-rand", "genome": genome, "cs": cs, "ce": ce, "cstrand": cst, "locs": locs,
                           "w2": [w2s, w2e, rng.choice("+-")]}


def _second_window(idx, g):
    wins = [(a, b) for a in range(g) for b in range(a + 1, g + 1)]
    a, b = wins[(idx * 7 + 3) % len(wins)]
    return [a, b, "+-"[(idx // 3) % 2]]


def _rand_chunk_loc(rng, g, cs, ce):
    """Location on the chromosome, engineered half of the time to cut / span / miss the window or to put it in a gap."""
    r = rng.random()
    if r < 0.5:
        blocks = G.rand_layout(rng, g, 3, overlap=(rng.random() < 0.12), allow_empty_blocks=(rng.random() < 0.15))
    else:
        kind = rng.choice(["cut5", "cut3", "span", "gap", "touchL", "touchR", "inside", "exact"])
        a, b = cs, ce
        if kind == "cut5":
            blocks = ((max(0, a - rng.randint(1, 4)), min(b, a + rng.randint(1, 3))),)
        elif kind == "cut3":
            blocks = ((max(a, b - rng.randint(1, 3)), min(g, b + rng.randint(1, 4))),)
        elif kind == "span":
            blocks = ((max(0, a - rng.randint(0, 3)), min(g, b + rng.randint(0, 3))),)
        elif kind == "gap":
            blocks = ((max(0, a - rng.randint(1, 3)), a), (b, min(g, b + rng.randint(1, 3))))
        elif kind == "touchL":
            blocks = ((max(0, a - rng.randint(1, 3)), a),)
        elif kind == "touchR":
            blocks = ((b, min(g, b + rng.randint(1, 3))),)
        elif kind == "inside":
            x, y = sorted((rng.randint(a, b), rng.randint(a, b)))
            blocks = ((x, max(y, min(b, x + 1))),)
        else:
            blocks = ((a, b),)
        if rng.random() < 0.5:
            extra = G.rand_layout(rng, g, 2, allow_empty_blocks=False)
            merged = tuple(sorted(set(blocks) | set(extra)))
            if not PM.self_overlapping(merged):
                blocks = merged
        blocks = tuple(x for x in blocks if x[1] > x[0])
    if sum(e - s for s, e in blocks) == 0:
        blocks = ((min(cs, g - 1), min(cs, g - 1) + 1),)
    return [[list(x) for x in blocks], rng.choice("+-") if rng.random() < 0.95 else "."]


# --------------------------------------------------------------------------------------------------------------------
# real objects
# --------------------------------------------------------------------------------------------------------------------
class _Objs:
    """Real hierarchy for a spec.  parents[d] is what a child location on level d receives as parent=."""

    def __init__(self, case, H, start=0):
        """start > 0: a look-alike hierarchy whose levels start..depth are identical to the full one's (ids, types, strings,
        placements) but whose level `start` has no parent (levels below `start` do not exist: parents[k] is None there)."""
        import inscripta.biocantor.location.location_impl  # noqa: F401  (import order: location before parent, else circular)
        from inscripta.biocantor.parent import Parent
        from inscripta.biocantor.sequence import Sequence, Alphabet

        self.mode = case["mode"]
        types = case["types"]
        self.alphabet = Alphabet.NT_EXTENDED_GAPPED
        self.seqs = None
        self.start = start
        if self.mode == "seq":
            seqs = [None] * start + [Sequence(H.strings[start], self.alphabet, id=f"L{start}", type=types[start])]
            for k, (blocks, strand) in enumerate(case["levels"], 1):
                if k <= start:
                    continue
                placing = G.build([tuple(b) for b in blocks], strand, parent=seqs[-1])
                seqs.append(Sequence(H.strings[k], self.alphabet, id=f"L{k}", type=types[k], parent=placing.parent))
            self.seqs = seqs
            self.parents = seqs
        elif self.mode == "seqpar":
            # Parent(sequence=S, parent=P): S carries a parent of its own that equals P except for the location (none, or an out-of-date
            # one); the documented rule: the explicitly given parent is the parent
            from inscripta.biocantor.location.location_impl import SingleInterval
            from inscripta.biocantor.location.strand import Strand

            pars = [None] * start + [Parent(id=f"L{start}", sequence_type=types[start],
                                             sequence=Sequence(H.strings[start], self.alphabet, id=f"L{start}", type=types[start]))]
            for k, (blocks, strand) in enumerate(case["levels"], 1):
                if k <= start:
                    continue
                up = pars[-1].reset_location(G.build([tuple(b) for b in blocks], strand))
                n_k = len(H.strings[k])
                stale = pars[-1] if k % 2 else pars[-1].reset_location(SingleInterval(0, n_k, Strand.PLUS))
                S = Sequence(H.strings[k], self.alphabet, id=f"L{k}", type=types[k], parent=stale)
                pars.append(Parent(id=f"L{k}", sequence_type=types[k], sequence=S, parent=up))
            self.parents = pars
        else:
            pars = [None] * start + [Parent(id=f"L{start}", sequence_type=types[start])]
            for k, (blocks, strand) in enumerate(case["levels"], 1):
                if k <= start:
                    continue
                placing = G.build([tuple(b) for b in blocks], strand)
                pars.append(Parent(id=f"L{k}", sequence_type=types[k], parent=pars[-1].reset_location(placing)))
            self.parents = pars


def _rej():
    from inscripta.biocantor.exc import BioCantorException

    return (BioCantorException, ValueError)


def _enum(res):
    rd = PM.read_location(res)
    if rd is None:
        return [], None
    blocks, st = rd
    return PM.positions(blocks, st), st


def _cmp(ctx, mon, res, exc, wantP, wants, multiset, tag, **d):
    """Compare a lifted Location with the model's (position list, strand).  Returns True when it agrees."""
    if not wantP:
        # zero-width request: an empty answer or an explicit refusal, never a base
        ok = isinstance(exc, _rej()) if exc is not None else (res is not None and hasattr(res, "blocks") and len(res) == 0)
        ctx.check(mon, ok, key=("zero-width", tag), got=repr(res)[:200], exc=repr(exc)[:200] if exc else None, **d)
        return False
    if exc is not None:
        ctx.check(mon, False, key=("raised", type(exc).__name__, tag), exc=repr(exc)[:300], want=wantP, want_strand=wants, **d)
        return False
    if res is None or not hasattr(res, "blocks"):
        ctx.check(mon, False, key=("not-a-location", tag), got=repr(res)[:200], **d)
        return False
    got, gst = _enum(res)
    if multiset:
        ok = Counter(got) == Counter(wantP)
    elif wants == ".":
        ok = sorted(got) == sorted(wantP)
    else:
        ok = got == wantP
    ok = ok and gst == wants
    ctx.check(mon, ok, key=("value", tag), got=got, got_strand=gst, want=wantP, want_strand=wants, **d)
    p = LM.wellformed(res) or LM.span_consistent(res)
    ctx.check("lift.wellformed", p is None, key=(mon,), problem=p, result=repr(res)[:200], **d)
    return ok


def _seq_ok(got, want, multiset):
    return Counter(got) == Counter(want) if multiset else got == want


def _parent_is(res, pid, ptype):
    p = getattr(res, "parent", None)
    return p is not None and p.id == pid and p.sequence_type == ptype


# --------------------------------------------------------------------------------------------------------------------
# hierarchy checks
# --------------------------------------------------------------------------------------------------------------------
def _child_by_provenance(xb, xs, O, d, case, H):
    """The child location (blocks xb, strand xs, on level d's parent) written down with the constructor, or - for three fifths of the inputs,
    chosen by the content - obtained from another location: reverse_strand() of its opposite, reset_strand() of a differently stranded twin,
    reset_parent() of a parentless twin, or reset_parent() of a twin that sits on a look-alike of the parent without ancestors.  All of them
    are the same location; everything that follows is asked of whichever was built."""
    par = O.parents[d]
    v = (sum(a + b for a, b in xb) + 3 * d + len(xb)) % 6

    def as_parent():      # reset_parent() takes a Parent; a Sequence is turned into one the way the constructor does it
        return par if hasattr(par, "strip_location_info") else G.build(xb, xs, parent=par).parent
    if v == 2 and xs in "+-":
        return G.build(xb, {"+": "-", "-": "+"}[xs], parent=par).reverse_strand(), "reverse_strand"
    if v == 3:
        other = {"+": "-", "-": ".", ".": "+"}[xs]
        return G.build(xb, other, parent=par).reset_strand(G.strand_of(xs)), "reset_strand"
    if v == 4:
        return G.build(xb, xs).reset_parent(as_parent()), "reset_parent-from-none"
    if v == 5 and d >= 1 and O.start == 0:
        bare = _Objs(case, H, start=d).parents[d]
        return G.build(xb, xs, parent=bare).reset_parent(as_parent()), "reset_parent-from-look-alike"
    return G.build(xb, xs, parent=par), "constructor"


def check_child(ctx, H, O, case, d, xb, xs, refusals=True):
    from inscripta.biocantor.exc import NoSuchAncestorException
    from inscripta.biocantor.sequence import Sequence

    types = case["types"]
    xb = [tuple(b) for b in xb]
    PX = PM.positions(xb, xs)
    ov = PM.self_overlapping(xb)
    empties = any(e == s for s, e in xb)
    X, how = _child_by_provenance(xb, xs, O, d, case, H)
    ctx.note(("provenance", how), klass="child-" + how)
    det = {"level": d, "x": xb, "xstrand": xs, "child_built_by": how}
    seq_claim = O.mode == "seq" and xs != "." and bool(PX)
    xseq = None
    if seq_claim:
        r, e = ctx.call(X.extract_sequence)
        xseq = str(r) if e is None else None
        ctx.check("lift.sequence", e is None and _seq_ok(xseq, H.seq(PX, xs, d), ov), key=("child-own", "overlapping" if ov else "plain"),
                  got=xseq, want=H.seq(PX, xs, d), exc=repr(e)[:200] if e else None, **det)

    # ---- by type: every type that occurs among the ancestors, closest wins
    for t in sorted({t for t in types[: d + 1] if t is not None}):
        j = max(k for k in range(d + 1) if types[k] == t)
        a, e = ctx.call(X.first_ancestor_of_type, t)
        h, e2 = ctx.call(X.has_ancestor_of_type, t)
        ctx.check("lift.ancestor-search", e is None and e2 is None and h is True and getattr(a, "id", None) == f"L{j}" and a.sequence_type == t,
                  key=("closest-of-type", f"up{d - j}", O.mode), type=t, target=j, got=repr(a)[:300], has=h, exc=repr(e or e2)[:200] if (e or e2) else None, **det)
        wantP, wants = H.lift(PX, xs, d, j)
        targ = t
        if t in ("chromosome", "sequence_chunk") and (d + j) % 2:
            from inscripta.biocantor.parent import SequenceType

            targ = SequenceType(t)      # the enum member instead of its string value: the same type
        r, e = ctx.call(X.lift_over_to_first_ancestor_of_type, targ)
        tag = (f"up{d - j}", O.mode, "overlapping" if ov else "plain")
        if _cmp(ctx, "lift.by-type", r, e, wantP, wants, ov, tag, target=j, type=t, **det):
            ctx.check("lift.by-type", _parent_is(r, f"L{j}", t), key=("result-parent", f"up{d - j}", O.mode), target=j, type=t,
                      got_parent=repr(getattr(r, "parent", None))[:300], **det)
            if seq_claim:
                s, e2 = ctx.call(r.extract_sequence)
                want = H.seq(wantP, wants, j)
                ctx.check("lift.sequence", e2 is None and _seq_ok(str(s), want, ov) and _seq_ok(str(s), xseq, ov),
                          key=("by-type", f"up{d - j}", "overlapping" if ov else "plain"), got=str(s) if e2 is None else None, want=want, child=xseq,
                          target=j, exc=repr(e2)[:200] if e2 else None, **det)

    # ---- by sequence identity
    if O.mode == "seq":
        x_clean = not ov and not empties
        for j in range(d, -1, -1):
            imgs = H.images(PX, xs, d, j)
            wantP, wants = imgs[-1][1], imgs[-1][2]
            r, e = ctx.call(X.lift_over_to_sequence, O.seqs[j])
            tag = (f"up{d - j}", "overlapping" if ov else "plain")
            if x_clean and not HM.is_run(PX):
                ctx.check("lift.by-sequence", isinstance(e, ValueError), key=("gap-refused", f"up{d - j}"), got=repr(r)[:200], exc=repr(e)[:200], target=j, **det)
                continue
            must = x_clean and bool(PX) and all(HM.is_run(P) for _, P, _ in imgs)
            if e is not None and not must and isinstance(e, ValueError):
                ctx.seen("lift.by-sequence")  # admissible refusal: an (intermediate) image is not contiguous
                ctx.bump("by-sequence: admissible ValueError")
                continue
            if _cmp(ctx, "lift.by-sequence", r, e, wantP, wants, ov, tag, target=j, **det):
                p = getattr(r, "parent", None)
                ctx.check("lift.by-sequence", p is not None and p.sequence == O.seqs[j] and p.id == f"L{j}", key=("result-parent", f"up{d - j}"),
                          target=j, got_parent=repr(p)[:300], **det)
                if seq_claim:
                    s, e2 = ctx.call(r.extract_sequence)
                    ctx.check("lift.sequence", e2 is None and _seq_ok(str(s), xseq, ov), key=("by-sequence", f"up{d - j}"),
                              got=str(s) if e2 is None else None, child=xseq, target=j, **det)

    # ---- one step via the Parent
    r, e = ctx.call(X.parent.lift_child_location_to_parent)
    if d == 0:
        ctx.check("lift.refusal", isinstance(e, _rej()), key=("root-has-no-grandparent", O.mode), got=repr(r)[:200], exc=repr(e)[:200], **det)
    else:
        wantP, wants = H.lift(PX, xs, d, d - 1)
        if _cmp(ctx, "lift.child-to-parent", r, e, wantP, wants, ov, (O.mode, "overlapping" if ov else "plain"), **det):
            ctx.check("lift.child-to-parent", _parent_is(r, f"L{d - 1}", types[d - 1]), key=("result-parent", O.mode),
                      got_parent=repr(getattr(r, "parent", None))[:300], **det)

    if not refusals:
        return
    # ---- refusals
    absent = ["no-such-type"] + sorted({t for t in types[d + 1:] if t is not None and t not in types[: d + 1]})
    for t in absent:
        a, e = ctx.call(X.first_ancestor_of_type, t)
        h, e2 = ctx.call(X.has_ancestor_of_type, t)
        ctx.check("lift.ancestor-search", isinstance(e, NoSuchAncestorException) and e2 is None and h is False, key=("absent-type", O.mode), type=t,
                  got=repr(a)[:200], has=h, exc=repr(e)[:200], **det)
        r, e = ctx.call(X.lift_over_to_first_ancestor_of_type, t)
        ctx.check("lift.refusal", isinstance(e, NoSuchAncestorException), key=("absent-type", "descendant" if t != "no-such-type" else "unknown", O.mode),
                  type=t, got=repr(r)[:200], exc=repr(e)[:200], **det)
    if O.mode == "seq":
        gap = not HM.is_run(PX) or empties
        foreign = [("same-data-other-id", Sequence(H.strings[d], O.alphabet, id="other", type=types[d])),
                   ("unrelated", Sequence("ACGTAC", O.alphabet, id="L0", type=types[0]))]
        if d < H.depth:
            foreign.append(("descendant", O.seqs[d + 1]))
        for j in range(d + 1):
            h, e = ctx.call(X.has_ancestor_sequence, O.seqs[j])
            ctx.check("lift.ancestor-search", e is None and h is True, key=("ancestor-sequence", f"up{d - j}"), target=j, has=h, exc=repr(e)[:200] if e else None, **det)
        for name, s in foreign:
            h, e = ctx.call(X.has_ancestor_sequence, s)
            ctx.check("lift.ancestor-search", e is None and h is False, key=("absent-sequence", name), has=h, exc=repr(e)[:200] if e else None, **det)
            r, e = ctx.call(X.lift_over_to_sequence, s)
            ok = isinstance(e, NoSuchAncestorException) or (gap and isinstance(e, ValueError))
            ctx.check("lift.refusal", ok, key=("absent-sequence", name), got=repr(r)[:200], exc=repr(e)[:200], **det)
    bare = G.build(xb, xs)
    r, e = ctx.call(bare.lift_over_to_first_ancestor_of_type, types[0] or "t0")
    ctx.check("lift.refusal", isinstance(e, NoSuchAncestorException), key=("no-parent", "by-type"), got=repr(r)[:200], exc=repr(e)[:200], **det)
    if O.mode == "seq":
        r, e = ctx.call(bare.lift_over_to_sequence, O.seqs[0])
        ok = isinstance(e, NoSuchAncestorException) or ((not HM.is_run(PX) or empties or ov) and isinstance(e, ValueError))
        ctx.check("lift.refusal", ok, key=("no-parent", "by-sequence"), got=repr(r)[:200], exc=repr(e)[:200], **det)


def _shape(levels):
    return tuple(G.layout_signature([tuple(b) for b in bl], st) for bl, st in levels)


def _nontrivial(levels, d, xb, xs):
    if d == 0:
        return False
    multi = any(len([b for b in bl if b[1] > b[0]]) > 1 or st == "-" for bl, st in levels[:d])
    return multi or xs == "-" or len([b for b in xb if b[1] > b[0]]) > 1


def check_truncated(ctx, H, case, T, d, xb, xs, order):
    """History leg: T is a look-alike of the full hierarchy that starts at level T.start (same ids, types, strings and
    placements from there on; no ancestors below).  Whatever was built or asked before in this process - in particular the
    full hierarchy, whose Parents resemble T's in everything but their ancestry - a child on T reaches exactly the levels
    T.start..d: lifts to them equal the composed model, everything below is refused (NoSuchAncestorException)."""
    from inscripta.biocantor.exc import NoSuchAncestorException

    types = case["types"]
    j0 = T.start
    xb = [tuple(b) for b in xb]
    PX = PM.positions(xb, xs)
    ov = PM.self_overlapping(xb)
    X = G.build(xb, xs, parent=T.parents[d])
    det = {"level": d, "x": xb, "xstrand": xs, "lookalike_root_level": j0, "built": order}
    here = [t for t in types[j0: d + 1] if t is not None]
    for t in sorted({t for t in types[:j0] if t is not None and t not in here}):
        h, e2 = ctx.call(X.has_ancestor_of_type, t)
        r, e = ctx.call(X.lift_over_to_first_ancestor_of_type, t)
        ctx.check("lift.history", e2 is None and h is False and isinstance(e, NoSuchAncestorException), key=("lookalike-has-no-such-ancestor", T.mode, order),
                  type=t, has=h, got=repr(r)[:200], exc=repr(e)[:200], **det)
    for t in sorted(set(here)):
        j = max(k for k in range(j0, d + 1) if types[k] == t)
        wantP, wants = H.lift(PX, xs, d, j)
        r, e = ctx.call(X.lift_over_to_first_ancestor_of_type, t)
        if _cmp(ctx, "lift.history", r, e, wantP, wants, ov, ("lookalike", f"up{d - j}", T.mode, order), target=j, type=t, **det):
            ctx.check("lift.history", _parent_is(r, f"L{j}", t), key=("lookalike-result-parent", T.mode, order), target=j, type=t,
                      got_parent=repr(getattr(r, "parent", None))[:300], **det)
    if T.mode == "seq":
        for j in range(j0):
            s = _full_sequence_of_level(H, case, j, T.alphabet)
            h, e = ctx.call(X.has_ancestor_sequence, s)
            ctx.check("lift.history", e is None and h is False, key=("lookalike-has-no-such-sequence", order), target=j, has=h, exc=repr(e)[:200] if e else None, **det)


def _full_sequence_of_level(H, case, j, alphabet):
    from inscripta.biocantor.sequence import Sequence

    return Sequence(H.strings[j], alphabet, id=f"L{j}", type=case["types"][j])


def run_hier(case, ctx):
    levels = [([tuple(b) for b in bl], st) for bl, st in case["levels"]]
    H = HM.Hier(case["root"], levels)
    T = None
    if case["kind"] == "rand" and H.depth >= 2 and case.get("lookalike"):
        j0, first = case["lookalike"]
        if first:       # look-alike built (and asked) before the full hierarchy exists
            T = _Objs(case, H, start=j0)
            for d, xb, xs in case["xs"]:
                if d > j0:
                    check_truncated(ctx, H, case, T, d, xb, xs, "lookalike-first")
    O = _Objs(case, H)
    if case["kind"] == "rand" and H.depth >= 2 and case.get("lookalike") and T is None:
        j0, first = case["lookalike"]
        T = _Objs(case, H, start=j0)   # built after the full hierarchy: must not inherit its ancestry
        for d, xb, xs in case["xs"]:
            if d > j0:
                check_truncated(ctx, H, case, T, d, xb, xs, "full-first")
    shape = _shape(levels)
    depth = H.depth
    if case["kind"] == "enum":
        n = H.lengths[depth]
        count = 0
        for xb in G.enum_layouts(n, case.get("kx", 2)):
            for xs in G.STRANDS:
                if xs == "." and count % 3:
                    count += 1
                    continue
                count += 1
                ctx.note((shape, G.layout_signature(xb, xs), depth), nontrivial=_nontrivial(levels, depth, xb, xs),
                         klass=f"enum-depth{depth}-{case['mode']}" if count == 1 else None)
                check_child(ctx, H, O, case, depth, xb, xs, refusals=(count % 5 == 1))
        return
    for d, xb, xs in case["xs"]:
        xb = [tuple(b) for b in xb]
        ov = PM.self_overlapping(xb)
        ctx.note((shape[:d], tuple(case["types"][: d + 1]), G.layout_signature(xb, xs), d), nontrivial=_nontrivial(levels, d, xb, xs),
                 klass=f"rand-depth{depth}-level{d}-{case['mode']}" + ("-overlapping" if ov else ""))
        check_child(ctx, H, O, case, d, xb, xs)


# --------------------------------------------------------------------------------------------------------------------
# chunk checks
# --------------------------------------------------------------------------------------------------------------------
def _chunk_parent(ctx, genome, cs, ce, cstrand, name=CHROM, default_strand=False):
    from inscripta.biocantor.io.parser import seq_chunk_to_parent

    s = HM.chunk_string(genome, cs, ce, cstrand)
    if default_strand and cstrand == "+":
        return seq_chunk_to_parent(s, name, cs, ce)
    return seq_chunk_to_parent(s, name, cs, ce, strand=G.strand_of(cstrand))


def _klass(PL, cs, ce):
    inside = [p for p in PL if cs <= p < ce]
    if not inside:
        if not PL:
            return "empty"
        lo, hi = min(PL), max(PL) + 1
        if lo < cs and hi > ce:
            return "window-in-gap"
        return "miss-touching" if (hi == cs or lo == ce) else "miss"
    if len(inside) == len(PL):
        return "inside"
    left, right = any(p < cs for p in PL), any(p >= ce for p in PL)
    return "span" if (left and right) else ("cut-left" if left else "cut-right")


def check_chunk_loc(ctx, case, cp, cp2, whole, lb, ls, k):
    from inscripta.biocantor.gene.interval import AbstractInterval
    from inscripta.biocantor.parent import Parent, SequenceType

    genome, cs, ce, cst = case["genome"], case["cs"], case["ce"], case["cstrand"]
    cs2, ce2, cst2 = case["w2"]
    lb = [tuple(b) for b in lb]
    PL = PM.positions(lb, ls)
    ov = PM.self_overlapping(lb)
    pairs = HM.chunk_down(PL, cs, ce, cst)
    inside = [p for p, _ in pairs]
    wantP = [c for _, c in pairs]
    wants = PM.compose_strand(ls, cst)
    klass = _klass(PL, cs, ce)
    tagov = "overlapping" if ov else "plain"
    det = {"loc": lb, "lstrand": ls, "window": [cs, ce, cst], "klass": klass}
    ctx.note((G.layout_signature(lb, ls), klass, ce - cs, cst), nontrivial=klass != "miss", klass="chunk-" + klass + ("-overlapping" if ov else ""))
    lparent = [None, Parent(id=CHROM, sequence_type=SequenceType.CHROMOSOME)][k % 2]
    L = G.build(lb, ls, parent=lparent)
    if k % 3 == 2:
        r, e = ctx.call(AbstractInterval.initialize_location, [b[0] for b in lb], [b[1] for b in lb], G.strand_of(ls), cp)
    else:
        r, e = ctx.call(AbstractInterval.liftover_location_to_seq_chunk_parent, L, cp)
    seq_claim = ls != "."

    # ---- whole chromosome parent: nothing to lift
    rw, ew = ctx.call(AbstractInterval.liftover_location_to_seq_chunk_parent, L, whole)
    if _cmp(ctx, "chunk.whole", rw, ew, PL, ls, ov, (tagov,), **det):
        ctx.check("chunk.whole", _parent_is(rw, CHROM, SequenceType.CHROMOSOME), key="result-parent", got_parent=repr(rw.parent)[:300], **det)
        if seq_claim:
            s, e2 = ctx.call(rw.extract_sequence)
            ctx.check("chunk.whole", e2 is None and _seq_ok(str(s), SM.extract(PL, ls, genome), ov), key=("sequence", tagov),
                      got=str(s) if e2 is None else None, want=SM.extract(PL, ls, genome), **det)

    if not inside:
        ctx.check("chunk.refusal", e is None and LM.is_empty_singleton(r), key=("no-base-in-chunk", klass), got=repr(r)[:200], exc=repr(e)[:200] if e else None, **det)
        return
    if not _cmp(ctx, "chunk.lift", r, e, wantP, wants, ov, (klass, cst, tagov), **det):
        return
    ctx.check("chunk.lift", _parent_is(r, f"{CHROM}:{cs}-{ce}", SequenceType.SEQUENCE_CHUNK), key="result-parent", got_parent=repr(r.parent)[:300], **det)
    if seq_claim:
        s, e2 = ctx.call(r.extract_sequence)
        want = SM.extract(inside, ls, genome)
        ctx.check("chunk.sequence", e2 is None and _seq_ok(str(s), want, ov), key=(klass, cst, tagov), got=str(s) if e2 is None else None, want=want,
                  exc=repr(e2)[:200] if e2 else None, **det)
    # ---- back to the chromosome
    b, e2 = ctx.call(r.lift_over_to_first_ancestor_of_type, SequenceType.CHROMOSOME)
    if _cmp(ctx, "chunk.back", b, e2, inside, ls, ov, (klass, cst, tagov), **det):
        ctx.check("chunk.back", _parent_is(b, CHROM, SequenceType.CHROMOSOME), key="result-parent", got_parent=repr(b.parent)[:300], **det)
    same, e2 = ctx.call(r.lift_over_to_first_ancestor_of_type, SequenceType.SEQUENCE_CHUNK)
    _cmp(ctx, "chunk.back", same, e2, wantP, wants, ov, ("own-chunk", tagov), **det)
    # ---- chunk-relative location onto a second chunk: through the chromosome
    pairs2 = HM.chunk_down(inside, cs2, ce2, cst2)
    r2, e2 = ctx.call(AbstractInterval.liftover_location_to_seq_chunk_parent, r, cp2)
    det2 = dict(det, window2=[cs2, ce2, cst2])
    if not pairs2:
        ctx.check("chunk.refusal", e2 is None and LM.is_empty_singleton(r2), key=("no-base-in-second-chunk",), got=repr(r2)[:200],
                  exc=repr(e2)[:200] if e2 else None, **det2)
    elif _cmp(ctx, "chunk.rechunk", r2, e2, [c for _, c in pairs2], PM.compose_strand(ls, cst2), ov, (cst, cst2, tagov), **det2):
        if seq_claim:
            s, e3 = ctx.call(r2.extract_sequence)
            want = SM.extract([p for p, _ in pairs2], ls, genome)
            ctx.check("chunk.rechunk", e3 is None and _seq_ok(str(s), want, ov), key=("sequence", tagov), got=str(s) if e3 is None else None, want=want, **det2)
    # ---- chunk-relative location onto the whole chromosome parent
    r3, e3 = ctx.call(AbstractInterval.liftover_location_to_seq_chunk_parent, r, whole)
    if _cmp(ctx, "chunk.rechunk", r3, e3, inside, ls, ov, ("to-whole", cst, tagov), **det):
        if seq_claim:
            s, e4 = ctx.call(r3.extract_sequence)
            want = SM.extract(inside, ls, genome)
            ctx.check("chunk.rechunk", e4 is None and _seq_ok(str(s), want, ov), key=("to-whole-sequence", tagov), got=str(s) if e4 is None else None, want=want, **det)


def chunk_refusals(ctx, case, cp):
    """Malformed chunk hierarchies and foreign chromosomes (once per case)."""
    from inscripta.biocantor.exc import NoSuchAncestorException
    from inscripta.biocantor.gene.interval import AbstractInterval
    from inscripta.biocantor.location.location_impl import SingleInterval
    from inscripta.biocantor.location.strand import Strand
    from inscripta.biocantor.parent import Parent, SequenceType
    from inscripta.biocantor.sequence import Sequence, Alphabet

    genome, cs, ce, cst = case["genome"], case["cs"], case["ce"], case["cstrand"]
    lift = AbstractInterval.liftover_location_to_seq_chunk_parent
    L = SingleInterval(cs, ce, Strand.PLUS)
    s = HM.chunk_string(genome, cs, ce, cst)
    orphan = Parent(id="orphan", sequence=Sequence(s, Alphabet.NT_EXTENDED_GAPPED, id="orphan", type=SequenceType.SEQUENCE_CHUNK))
    r, e = ctx.call(lift, L, orphan)
    ctx.check("chunk.refusal", isinstance(e, NoSuchAncestorException), key="chunk-without-chromosome", got=repr(r)[:200], exc=repr(e)[:200])
    noseq = Parent(id="noseq", sequence_type=SequenceType.SEQUENCE_CHUNK,
                   parent=Parent(location=SingleInterval(cs, ce, Strand.PLUS, parent=Parent(id=CHROM, sequence_type=SequenceType.CHROMOSOME))))
    r, e = ctx.call(lift, L, noseq)
    ctx.check("chunk.refusal", isinstance(e, _rej()), key="chunk-without-sequence", got=repr(r)[:200], exc=repr(e)[:200])
    rel, e = ctx.call(lift, L, cp)
    if e is None and len(rel):
        other = _chunk_parent(ctx, genome, cs, ce, cst, name="chr2")
        r, e = ctx.call(lift, rel, other)
        ctx.check("chunk.refusal", isinstance(e, _rej()), key="chunk-of-another-chromosome", got=repr(r)[:200], exc=repr(e)[:200])
        # a chunk-relative location has no ancestor of an unknown type
        r, e = ctx.call(rel.lift_over_to_first_ancestor_of_type, "no-such-type")
        ctx.check("chunk.refusal", isinstance(e, NoSuchAncestorException), key="absent-type", got=repr(r)[:200], exc=repr(e)[:200])


def run_chunk(case, ctx):
    from inscripta.biocantor.io.parser import seq_to_parent

    genome, cs, ce, cst = case["genome"], case["cs"], case["ce"], case["cstrand"]
    cs2, ce2, cst2 = case["w2"]
    cp = _chunk_parent(ctx, genome, cs, ce, cst, default_strand=(cs + ce) % 2 == 0)
    cp2 = _chunk_parent(ctx, genome, cs2, ce2, cst2)
    whole = seq_to_parent(genome, seq_id=CHROM)
    chunk_refusals(ctx, case, cp)
    if case["kind"] == "chunk-enum":
        k = 0
        for lb in _placements(len(genome), case["kmax"]):
            for ls in "+-":
                k += 1
                check_chunk_loc(ctx, case, cp, cp2, whole, lb, ls, k)
        return
    for k, (lb, ls) in enumerate(case["locs"]):
        check_chunk_loc(ctx, case, cp, cp2, whole, lb, ls, k)


def run_case(case, ctx):
    k = case["kind"]
    if k in ("enum", "rand"):
        return run_hier(case, ctx)
    if k in ("chunk-enum", "chunk-rand"):
        return run_chunk(case, ctx)
    from bcv.core import HarnessError

    raise HarnessError(f"unknown kind {k}")


def classify(v):
    """F-C04 (proposed fix C04-lift-leading-empty-blocks.diff): Parent.lift_child_location_to_parent lifts the child's
    blocks one by one and folds them with union_preserve_overlaps; when the first two blocks (in the order of
    Location.blocks) are both zero-length their union collapses to EmptyLocation, whose union with the next block raises
    EmptyLocationException - although the child has bases.  Recognised from the witness alone: the lift raised
    EmptyLocationException, the child carries at least one base, and its first two blocks in canonical block order are
    empty.  Anything else stays a violation."""
    if v.get("monitor") not in ("lift.by-type", "lift.by-sequence", "lift.child-to-parent"):
        return None
    key, d = v.get("key") or [], v.get("detail") or {}
    if len(key) < 2 or key[0] != "raised" or key[1] != "EmptyLocationException":
        return None
    x, xs = d.get("x"), d.get("xstrand")
    if not x or len(x) < 3 or not d.get("want"):
        return None
    bs = sorted((tuple(b) for b in x), key=(lambda b: (b[0], b[1])) if xs == "+" else (lambda b: (b[0], -b[1])))
    if bs[0][0] == bs[0][1] and bs[1][0] == bs[1][1]:
        return "F-C04-lift-child-with-two-leading-empty-blocks"
    return None
