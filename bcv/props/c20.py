"""C20  Gene and collection aggregates are the stated functions of their children.

Oracle: plain-Python aggregate functions over the JSON spec the objects were built from (min / max / any / set union /
`min` by (-cds_len, -spliced_len, index)), position sets of bcv.models.posmodel for the merged features, bcv.models.seqmodel
and bcv.models.framemodel for the sequences / proteins of the primary member.  No BioCantor value enters an expected value,
except in the *twin* half of `agg.primary-accessors` (see below), which is additional to the model half.

Monitors
  agg.children           iter_children() / iter() of a gene or feature collection are the children in list order (the order the
                         tie-break "earliest in the list" refers to); guid_map holds exactly the children
  agg.span               start / end (and chromosome_location) == min start / max end over the children's blocks
  agg.is-coding          GeneInterval.is_coding == any(child has a CDS); a feature collection (no transcripts) is never coding
  agg.feature-types      FeatureIntervalCollection.feature_types == union of the children's feature types
  agg.primary            primary_transcript / primary_feature and get_primary_transcript / get_primary_feature ARE (identity) the
                         child chosen by the model: the flagged one, else min by (-cds_len, -spliced_len, index);
                         >= 2 flags: construction must raise ValidationException
  agg.primary-accessors  get_primary_cds / get_primary_transcript_sequence / get_primary_feature_sequence /
                         get_primary_cds_sequence / get_primary_protein return the values of that member: (model half) the spliced
                         sequence / in-frame CDS sequence / translation computed from the spec and the genome, whenever a
                         chromosome or a chunk containing the whole member is attached; (twin half) the same outcome - equal
                         string or the same exception type - as the same accessor called on an independently built copy
                         of the member on the same parent
  agg.merged             get_merged_transcript / get_merged_feature / get_merged_cds: the position set of the returned
                         feature's chromosome blocks == union of the children's exon (CDS) position sets; start/end == its hull
  coll.order             AnnotationCollection.iter_children() / iter() / children / iter_non_variant_children(): exactly the
                         genes and feature collections given, each with the model span, non-decreasing by start
  coll.len-empty         len(collection) == number of genes + feature collections; is_empty == (len == 0)
  coll.bounds            start/end == the explicit bounds; without explicit bounds the documented inference (class docstring
                         "Object Bounds"): the chromosome / chunk interval of the parent when it has one, else min start / max end
                         of the children

Latitude (the property text leaves these open; every admissible answer is accepted)
  (a) strand, qualifiers, identifiers and block partition of a merged feature are not stated: only the covered position set
      (and start/end, which follow from it) is compared.
  (b) a gene without any coding transcript has no CDS blocks to merge: get_merged_cds may refuse with the documented
      NoncodingTranscriptError (upstream test_failed_merge_interval) or return a feature covering nothing.
  (c) a non-coding primary transcript has no CDS / protein "value": the get_primary_cds* / get_primary_protein accessors may
      return None or raise what the member itself raises (NoncodingTranscriptError).
  (d) sequences without attached sequence (no parent / parent without sequence), of unstranded features, or of members cut
      by or outside a sequence chunk are the member's own business (C05/C07): there only the twin half is evaluated
      (same outcome as the member), not the model half.  The model half for CDS sequence / protein is evaluated only for a CDS
      with one uninterrupted reading frame and >= 1 codon (the other cases carry C05's own latitude).
  (e) ties in `start` between members of an annotation collection: any relative order is accepted.
  (f) "CDS length" is the number of annotated CDS bases (sum of the CDS block lengths), "spliced length" the sum of the
      exon / block lengths, as documented on _find_primary_feature ("its CDS size", "the (spliced) feature size").
  (g) an empty AnnotationCollection without bounds and without a parent interval has no span; its start/end are not touched
      (C19 territory); chunks that share no base with a gene's / feature collection's span are not generated (C07 territory);
      variant collections inside an AnnotationCollection are not generated (C13 territory).

Known finding proposed (DESIGN K2): merged transcript / CDS / feature of children on MIXED strands raises
ValueError("Strands do not match") from Location.union.  classify() recognises it mechanistically: the strands of the children
that contribute blocks (re-derived from the stored case) are mixed AND the exception is a ValueError whose innermost BioCantor
frame is `union` in location/location_impl.py.  A wrong *returned* merge, any other exception, and any failure on same-strand
children stay violations.
"""
import itertools
import random

from bcv.gen import genes as GG
from bcv.models import framemodel as FM
from bcv.models import posmodel as PM
from bcv.models import seqmodel as SM

ID = "C20"
LEVEL = "exploration"
EXHAUSTIVE = False
RULE = (
    "genes: every tuple of 1..3 children drawn from a palette of (CDS length in {0,c1,c2}, spliced length in {s1,s2[,s3]}) "
    "pairs (so every pattern of ties in CDS length and in spliced length occurs, in every list order) with random exon "
    "structure, x primary flags none / one (usually not the inferred member) / several x same or mixed strands x parent "
    "none / chromosome / chromosome without sequence / containing chunk / cutting chunk; seeded random genes of 1..5 "
    "children (free structure incl. frameshifts, engineered ties: equal CDS, equal CDS and length, all non-coding, "
    "long-transcript-short-CDS); families of 2..5 transcripts sharing start/end (and, per family, CDS start/end) but "
    "differing in internal exons / CDS blocks (exon skipping, alternative internal exons and splice sites, single-exon "
    "member), optionally with an exact structural duplicate under another id or an outsider, in EVERY list order "
    "(n<=3) or 4 random orders; the same families of features for feature collections; feature collections likewise over a length palette with feature-type sets incl. empty "
    "and unstranded features; annotation collections of 0..5 genes + 0..3 feature collections with engineered ties in "
    "start, explicit (exact / wider) and inferred bounds on every parent kind. A case signature is (kind, parent kind, "
    "per child: rank of CDS length, rank of spliced length, strand, flag, exon-count class, rank of bounds, rank of "
    "structure) resp. (start-rank pattern, "
    "bounds kind, parent kind); non-trivial = >= 2 children or a primary flag (collections: >= 2 members, or empty)."
)
SCOPE = {
    "quick": {"C": (0, 4, 9), "S": (9, 14), "N4": 240, "RG": 3600, "FL": (4, 9, 13), "RF": 2000, "AC": 2000, "FAM": 640, "FFAM": 320},
    "thorough": {"C": (0, 4, 9), "S": (9, 12, 14), "N4": 4000, "RG": 40000, "FL": (4, 9, 13), "RF": 20000, "AC": 20000, "FAM": 6000, "FFAM": 3000},
}
FLOOR = {"quick": 800, "thorough": 5000}
REQUIRED_MONITORS = ["agg.children", "agg.span", "agg.is-coding", "agg.feature-types", "agg.primary", "agg.primary-accessors",
                     "agg.merged", "coll.order", "coll.len-empty", "coll.bounds"]
_G = "inscripta.biocantor.gene.gene:GeneInterval."
_F = "inscripta.biocantor.gene.feature:FeatureIntervalCollection."
_A = "inscripta.biocantor.gene.collections:AnnotationCollection."
REACH = ["inscripta.biocantor.gene.interval:AbstractFeatureIntervalCollection._find_primary_feature",
         _G + "__init__", _G + "is_coding", _G + "_produce_merged_feature", _G + "get_merged_transcript", _G + "get_merged_cds",
         _G + "get_merged_feature", _G + "get_primary_transcript", _G + "get_primary_cds", _G + "get_primary_protein",
         _G + "get_primary_transcript_sequence", _G + "get_primary_cds_sequence", _G + "get_primary_feature_sequence",
         _F + "__init__", _F + "get_merged_feature", _F + "get_primary_feature", _F + "get_primary_feature_sequence",
         _A + "__init__", _A + "iter_children", _A + "children", _A + "__len__", _A + "is_empty",
         "inscripta.biocantor.location.location_impl:SingleInterval.union"]
REACH_REQUIRED = [r for r in REACH if not r.endswith("AnnotationCollection.children")]
ASSUMPTIONS = [
    "oracle: min/max/any/set-union/min-by-key over the JSON spec; bcv/models/posmodel.py position sets; seqmodel / framemodel "
    "(Bio.Data tables) for sequences of the primary member; self-tested against the literal genes of "
    "tests/minimal/gene/test_collections.py::TestGene",
    "bounds inference oracle = AnnotationCollection class docstring ('Object Bounds')",
    "CDS length = annotated CDS bases, spliced length = exon bases (docstring of _find_primary_feature)",
]
GLEN = 170
MODES = ["none", "chrom", "chrom-noseq", "chunk-in", "chunk-cut"]


# ----------------------------------------------------------------------------------------------------------------
# oracle (plain Python over specs)
# ----------------------------------------------------------------------------------------------------------------
def blen(blocks):
    return sum(e - s for s, e in blocks)


def m_span(block_lists):
    return min(s for bl in block_lists for s, _ in bl), max(e for bl in block_lists for _, e in bl)


def m_union(block_lists):
    return frozenset(p for bl in block_lists for p in PM.posset([tuple(b) for b in bl]))


def m_primary(children):
    """children: list of (flag, cds_len, spliced_len).  Returns the index, or 'error' for >= 2 flags."""
    flagged = [i for i, c in enumerate(children) if c[0] is True]
    if len(flagged) > 1:
        return "error"
    if flagged:
        return flagged[0]
    return min(range(len(children)), key=lambda i: (-children[i][1], -children[i][2], i))


def decided_by(children):
    """Which level of the rule decides: flag / single / cds / spliced / index."""
    if sum(1 for c in children if c[0] is True) == 1:
        return "flag"
    if len(children) == 1:
        return "single"
    top_c = max(c[1] for c in children)
    tied = [c for c in children if c[1] == top_c]
    if len(tied) == 1:
        return "cds"
    top_s = max(c[2] for c in tied)
    return "spliced" if sum(1 for c in tied if c[2] == top_s) == 1 else "index"


def m_bounds(explicit, mode, glen, window, child_spans):
    """Expected (start, end) of an annotation collection, or None when it has no span."""
    if explicit is not None:
        return tuple(explicit)
    if mode == "chrom":
        return 0, glen
    if mode == "chunk":
        return tuple(window)
    if child_spans:
        return min(s for s, _ in child_spans), max(e for _, e in child_spans)
    return None


def setup(ctx):
    from bcv import core

    core.codon_storm(ctx)


def selftest():
    from bcv.core import HarnessError

    try:
        PM.selftest()
        SM.selftest()
        FM.selftest()
        # literal genes of tests/minimal/gene/test_collections.py::TestGene
        tx1 = {"exons": [[12, 28]], "cds": [[15, 19]]}
        tx2 = {"exons": [[12, 16], [17, 20], [22, 25]], "cds": [[14, 16], [17, 20], [22, 23]]}
        nc = {"exons": [[12, 16], [17, 20], [22, 40]], "cds": None}
        ncs = {"exons": [[12, 16]], "cds": None}

        def trip(t, flag=None):
            return (flag, blen(t["cds"]) if t["cds"] else 0, blen(t["exons"]))

        assert m_primary([trip(tx1), trip(tx2)]) == 1            # test_primary_inference
        assert m_primary([trip(tx1, True), trip(tx2)]) == 0      # explicit primary overrules hierarchy
        assert m_primary([trip(tx1), trip(tx2), trip(nc)]) == 1  # longest CDS
        assert m_primary([trip(nc), trip(ncs)]) == 0             # longest non-coding
        assert m_primary([trip(tx1, True), trip(tx2, True)]) == "error"
        assert m_primary([(None, 6, 9), (None, 6, 12), (None, 6, 12), (None, 3, 30)]) == 1
        assert decided_by([(None, 6, 9), (None, 6, 12), (None, 6, 12)]) == "index" and decided_by([(None, 6, 9), (None, 6, 12)]) == "spliced"
        assert PM.runs(m_union([tx1["exons"], tx2["exons"]])) == [(12, 28)]                 # test_merged_interval
        assert PM.runs(m_union([tx1["cds"], tx2["cds"]])) == [(14, 20), (22, 23)]
        assert m_span([tx1["exons"], ncs["exons"], nc["exons"]]) == (12, 40)
        assert m_bounds(None, "chrom", 50, None, [(3, 9)]) == (0, 50) and m_bounds(None, "none", 50, None, [(3, 9), (1, 4)]) == (1, 9)
        assert m_bounds([2, 30], "chunk", 50, [5, 20], [(3, 9)]) == (2, 30) and m_bounds(None, "chunk", 50, [5, 20], []) == (5, 20)
        assert m_bounds(None, "chrom-noseq", 50, None, []) is None
    except AssertionError as e:
        raise HarnessError(f"model self-test: {e!r}")


# ----------------------------------------------------------------------------------------------------------------
# generators (harness side; every case carries the complete spec)
# ----------------------------------------------------------------------------------------------------------------
def _compose(rng, total, k):
    """total as k positive parts."""
    cuts = sorted(rng.sample(range(1, total), k - 1)) if k > 1 else []
    return [b - a for a, b in zip([0] + cuts, cuts + [total])]


def _place(rng, lens, lo, hi):
    gaps = [0 if rng.random() < 0.1 else rng.randint(1, 7) for _ in lens[1:]]
    total = sum(lens) + sum(gaps)
    while total > hi - lo and any(gaps):
        gaps[gaps.index(max(gaps))] = max(0, max(gaps) - 1)
        total = sum(lens) + sum(gaps)
    s = lo + rng.randint(0, max(0, hi - lo - total))
    out = []
    for k, ln in enumerate(lens):
        out.append([s, s + ln])
        s += ln + (gaps[k] if k < len(gaps) else 0)
    return out


def mk_tx(rng, lo, hi, cds_len, spl_len, strand, ident, frameshift=False):
    k = rng.randint(1, min(4, spl_len))
    exons = _place(rng, _compose(rng, spl_len, k), lo, hi)
    spec = {"exons": exons, "strand": strand, "cds": None, "frames": None, "transcript_id": "tx" + ident, "transcript_symbol": "sym" + ident,
            "transcript_type": None, "protein_id": None, "product": None, "is_primary_tx": None, "qualifiers": {}, "guid": None}
    if cds_len > 0:
        flat = [p for s, e in exons for p in range(s, e)]
        off = rng.randint(0, spl_len - cds_len)
        cds = GG.clip_blocks(exons, flat[off], flat[off + cds_len - 1] + 1)
        spec["cds"] = cds
        spec["frames"] = GG.rand_frames(rng, cds, strand, None, 1 if (frameshift and len(cds) > 1) else 0)
        spec["transcript_type"] = "protein_coding"
        spec["protein_id"] = "prot" + ident
    else:
        spec["transcript_type"] = rng.choice(GG.BIOTYPES_NONCODING + [None])
    return spec


def mk_feat(rng, lo, hi, total, strand, ident, types):
    k = rng.randint(1, min(3, total))
    return {"blocks": _place(rng, _compose(rng, total, k), lo, hi), "strand": strand, "feature_types": sorted(types),
            "feature_name": "feat" + ident, "feature_id": "fid" + ident, "is_primary_feature": None, "qualifiers": {}, "guid": None}


def _strands(rng, n, mixed, alphabet="+-"):
    if not mixed or n < 2:
        return [rng.choice(alphabet)] * n
    while True:
        st = [rng.choice(alphabet) for _ in range(n)]
        if len(set(st)) > 1:
            return st


def _flag(rng, specs, field, triples, how):
    """how: none | one | several | false-only."""
    n = len(specs)
    if how == "none":
        return
    if how == "false-only":
        for s in specs:
            if rng.random() < 0.5:
                s[field] = False
        return
    if how == "one":
        inferred = m_primary(triples)
        cand = [i for i in range(n) if i != inferred] if (n > 1 and rng.random() < 0.8) else list(range(n))
        j = rng.choice(cand)
        specs[j][field] = True
        for i, s in enumerate(specs):
            if i != j and rng.random() < 0.3:
                s[field] = False
        return
    for j in rng.sample(range(n), rng.randint(2, n)):
        specs[j][field] = True


def _window(rng, mode, lo, hi, glen):
    """Chunk window for a gene / feature collection spanning [lo, hi)."""
    if mode == "chunk-in":
        return [max(0, lo - rng.randint(0, 6)), min(glen, hi + rng.randint(0, 6))]
    cs = rng.randint(max(0, lo - 3), hi - 1)
    ce = rng.randint(max(cs + 1, lo + 1), min(glen, hi + 3))
    return [cs, ce]


def _gene_wrap(rng, txs, ident="g"):
    coding = any(t["cds"] for t in txs)
    r = rng.random()
    gene_type = None if r < 0.12 else ("protein_coding" if coding else rng.choice(GG.BIOTYPES_NONCODING))
    return {"transcripts": txs, "gene_id": "gene" + ident, "gene_symbol": "gsym" + ident, "gene_type": gene_type,
            "locus_tag": "LT_" + ident, "qualifiers": GG.rand_qualifiers(rng, 1), "guid": None}


def _triples_tx(txs):
    return [(t.get("is_primary_tx"), blen(t["cds"]) if t["cds"] else 0, blen(t["exons"])) for t in txs]


def _triples_feat(fs):
    return [(f.get("is_primary_feature"), 0, blen(f["blocks"])) for f in fs]


def _parent_for(rng, mode, lo, hi):
    p = {"mode": mode, "gseed": rng.randrange(1 << 30), "glen": GLEN}
    if mode.startswith("chunk"):
        p["window"] = _window(rng, mode, lo, hi, GLEN)
    return p


def _gene_case(rng, pairs, strands, how, mode, gen, frameshift=False):
    lo = rng.randint(0, 40)
    hi = rng.randint(lo + 90, GLEN)
    txs = [mk_tx(rng, lo, hi, c, s, st, f"_{k}", frameshift=frameshift and rng.random() < 0.3) for k, ((c, s), st) in enumerate(zip(pairs, strands))]
    _flag(rng, txs, "is_primary_tx", _triples_tx(txs), how)
    g = _gene_wrap(rng, txs)
    glo, ghi = GG.gene_span(g)
    return {"kind": "gene", "gen": gen, "gene": g, "parent": _parent_for(rng, mode, glo, ghi)}


def _many_blocks_case(rng, what):
    """A member whose first child has 100..300 short blocks (more than any block-count threshold a merge could plausibly switch on) and whose
    other children retain some of the gaps (each swallows 2..6 consecutive blocks, ending inside a block) or add blocks in the gaps."""
    n = rng.choice([100, 127, 128, 129, 130, 150, 200, 300])
    strand = rng.choice("+-")
    base = rng.randint(0, 20)
    long = [[base + 10 * (j + 1), base + 10 * (j + 1) + rng.randint(3, 6)] for j in range(n)]
    kids = [long]
    for _ in range(rng.randint(1, 3)):
        a = rng.randrange(0, n - 7)
        k = rng.randint(2, 6)
        bl = [[long[a][0] + rng.randint(0, 2), long[a + k - 1][0] + rng.randint(1, 3)]]      # ends inside block a+k-1
        if rng.random() < 0.5 and a + k + 3 < n:
            bl.append([long[a + k + 1][1] + 1, long[a + k + 2][0] - 1] if rng.random() < 0.5 else list(long[a + k + 2]))     # in a gap / an exon of the long child
        kids.append(bl)
    rng.shuffle(kids)
    glen = base + 10 * (n + 1) + 40
    mode = rng.choice(MODES)
    lo, hi = m_span(kids)
    par = {"mode": mode, "gseed": rng.randrange(1 << 30), "glen": glen}
    if mode.startswith("chunk"):
        par["window"] = _window(rng, mode, lo, hi, glen)
    if what == "gene":
        txs = []
        for j, bl in enumerate(kids):
            t = {"exons": bl, "strand": strand, "cds": None, "frames": None, "transcript_id": f"tx_{j}", "transcript_symbol": f"sym_{j}",
                 "transcript_type": None, "protein_id": None, "product": None, "is_primary_tx": None, "qualifiers": {}, "guid": None}
            if len(bl) > 50 and rng.random() < 0.6:
                a = rng.randrange(0, 5)
                cds = GG.clip_blocks(bl, bl[a][0] + 1, bl[len(bl) - 1 - rng.randrange(0, 5)][1] - 1)
                t.update(cds=cds, frames=GG.rand_frames(rng, cds, strand, None, 0), transcript_type="protein_coding", protein_id=f"prot_{j}")
            txs.append(t)
        return {"kind": "gene", "gen": "many-blocks", "gene": _gene_wrap(rng, txs), "parent": par}
    fs = [{"blocks": bl, "strand": strand, "feature_types": sorted(rng.sample(_TYPES, rng.randint(0, 2))), "feature_name": f"feat_{j}", "feature_id": f"fid_{j}",
           "is_primary_feature": None, "qualifiers": {}, "guid": None} for j, bl in enumerate(kids)]
    fc = {"features": fs, "feature_collection_name": "fc0", "feature_collection_id": "fcid0", "feature_collection_type": None,
          "locus_tag": "FLT0", "qualifiers": GG.rand_qualifiers(rng, 1), "guid": None}
    return {"kind": "fcoll", "gen": "many-blocks", "fcoll": fc, "parent": par}


def _fcoll_case(rng, lens, strands, types, how, mode, gen):
    lo = rng.randint(0, 40)
    hi = rng.randint(lo + 80, GLEN)
    fs = [mk_feat(rng, lo, hi, ln, st, f"_{k}", ty) for k, (ln, st, ty) in enumerate(zip(lens, strands, types))]
    _flag(rng, fs, "is_primary_feature", _triples_feat(fs), how)
    fc = {"features": fs, "feature_collection_name": "fc0", "feature_collection_id": "fcid0", "feature_collection_type": rng.choice([None, "grp"]),
          "locus_tag": "FLT0", "qualifiers": GG.rand_qualifiers(rng, 1), "guid": None}
    flo, fhi = GG.fcoll_span(fc)
    return {"kind": "fcoll", "gen": gen, "fcoll": fc, "parent": _parent_for(rng, mode, flo, fhi)}


_TYPES = ["promoter", "enhancer", "site", "binding", "repeat"]


def _rand_types(rng, n):
    mode = rng.choice(["all-empty", "some-empty", "shared", "free"])
    if mode == "all-empty":
        return [[] for _ in range(n)]
    out = []
    for _ in range(n):
        if mode == "some-empty" and rng.random() < 0.5:
            out.append([])
        elif mode == "shared":
            out.append(rng.sample(_TYPES[:2], rng.randint(1, 2)))
        else:
            out.append(rng.sample(_TYPES, rng.randint(0, 3)))
    return out


def _rand_gene_pairs(rng):
    n = rng.choice([1, 2, 2, 3, 3, 4, 5])
    style = rng.choice(["free", "tie-cds", "tie-both", "noncoding", "cds-beats-len"])
    if style == "tie-cds":
        c = rng.randint(1, 12)
        pairs = [(c if rng.random() < 0.8 else 0, rng.randint(c, c + 12)) for _ in range(n)]
    elif style == "tie-both":
        c = rng.randint(1, 12)
        s = rng.randint(c, c + 10)
        pairs = [(c, s) if rng.random() < 0.6 else (rng.randint(0, c), rng.randint(c, s)) for _ in range(n)]
    elif style == "noncoding":
        s = rng.randint(2, 20)
        pairs = [(0, s if rng.random() < 0.6 else rng.randint(1, s)) for _ in range(n)]
    elif style == "cds-beats-len":
        c = rng.randint(2, 10)
        pairs = [(c, c + rng.randint(0, 2))] + [(rng.randint(0, c - 1), rng.randint(c + 3, c + 15)) for _ in range(n - 1)]
        rng.shuffle(pairs)
    else:
        pairs = []
        for _ in range(n):
            s = rng.randint(1, 28)
            pairs.append((rng.randint(1, s) if rng.random() < 0.6 else 0, s))
    return style, pairs


def _acoll_case(rng):
    ng = rng.choice([0, 1, 1, 2, 3, 4, 5])
    nf = rng.choice([0, 0, 1, 2, 3])
    if rng.random() < 0.06:
        ng = nf = 0
    total = ng + nf
    lo_all, hi_all = 10, GLEN - 10
    # engineered ties in start: draw the slot starts from a small pool
    pool = [rng.randint(lo_all, hi_all - 50) for _ in range(rng.choice([max(1, (total + 1) // 2), 3 * total + 1]))]
    genes, fcolls = [], []
    for k in range(ng):
        s0 = rng.choice(pool)
        n = rng.choice([1, 1, 2, 3])
        st = rng.choice("+-")
        txs = []
        for j in range(n):
            spl = rng.randint(2, 16)
            t = mk_tx(rng, s0, hi_all, rng.choice([0, rng.randint(1, spl)]), spl, st, f"_g{k}_{j}")
            txs.append(t)
        # force the first child to start at s0 so that ties in start really occur
        d = txs[0]["exons"][0][0] - s0
        for key in ("exons", "cds"):
            if txs[0][key]:
                txs[0][key] = [[a - d, b - d] for a, b in txs[0][key]]
        g = _gene_wrap(rng, txs, ident=f"g{k}")
        g["gene_type"] = "protein_coding" if any(t["cds"] for t in txs) else "ncRNA"
        genes.append(g)
    for k in range(nf):
        s0 = rng.choice(pool)
        n = rng.choice([1, 2, 3])
        fs = [mk_feat(rng, s0, hi_all, rng.randint(1, 12), rng.choice("+-"), f"_f{k}_{j}", rng.sample(_TYPES, rng.randint(0, 2))) for j in range(n)]
        d = fs[0]["blocks"][0][0] - s0
        fs[0]["blocks"] = [[a - d, b - d] for a, b in fs[0]["blocks"]]
        fcolls.append({"features": fs, "feature_collection_name": f"fc{k}", "feature_collection_id": f"fcid{k}", "feature_collection_type": None,
                       "locus_tag": f"FLT{k}", "qualifiers": {}, "guid": None})
    rng.shuffle(genes)
    rng.shuffle(fcolls)
    spans = [GG.gene_span(g) for g in genes] + [GG.fcoll_span(f) for f in fcolls]
    hull = (min(s for s, _ in spans), max(e for _, e in spans)) if spans else (rng.randint(20, 60), rng.randint(80, 120))
    mode = rng.choice(["none", "chrom", "chrom-noseq", "chunk"])
    bk = rng.choice(["inferred", "inferred", "explicit-exact", "explicit-wide"])
    cspec = {"genes": genes, "fcolls": fcolls, "name": "coll", "sequence_name": "chr1", "start": None, "end": None, "qualifiers": {}}
    if bk == "explicit-exact":
        cspec["start"], cspec["end"] = hull
    elif bk == "explicit-wide":
        cspec["start"], cspec["end"] = max(0, hull[0] - rng.randint(0, 10)), min(GLEN, hull[1] + rng.randint(0, 10))
    p = {"mode": mode, "gseed": rng.randrange(1 << 30), "glen": GLEN}
    if mode == "chunk":
        p["window"] = [max(0, hull[0] - rng.randint(0, 8)), min(GLEN, hull[1] + rng.randint(0, 8))]
    return {"kind": "acoll", "gen": "rand", "coll": cspec, "bounds": bk, "parent": p}


# ---- families: children that share their bounds (and CDS bounds) but differ in internal structure -------------------
def _family_member(rng, a, b, f, g):
    """Blocks spanning exactly [a, b): first block >= [a, a+f), last block >= [b-g, b), 0..3 internal blocks (exon
    skipping / alternative internal exons, alternative donor / acceptor sites), or the single block [a, b)."""
    if rng.random() < 0.12:
        return [[a, b]]
    fe = a + f + rng.choice([0, 0, 1, 3])
    ls = b - g - rng.choice([0, 0, 1, 3])
    blocks = [[a, fe]]
    pos = fe + 1
    for _ in range(rng.randint(0, 3)):
        if ls - 1 - pos < 2:
            break
        s = rng.randint(pos, min(pos + 6, ls - 2))
        e = rng.randint(s + 1, min(s + 7, ls - 1))
        blocks.append([s, e])
        pos = e + 1
    blocks.append([ls, b])
    return blocks


def _family_structures(rng, lo, hi, n, dup):
    """n block lists with identical bounds; pairwise different unless `dup` (then one is an exact copy of another)."""
    span = rng.randint(30, min(75, hi - lo))
    a = rng.randint(lo, hi - span)
    b = a + span
    f, g = rng.randint(2, 5), rng.randint(2, 5)
    out = []
    want = n - 1 if (dup and n > 1) else n
    tries = 0
    while len(out) < want and tries < 200:
        tries += 1
        m = _family_member(rng, a, b, f, g)
        if m not in out:
            out.append(m)
    while len(out) < n:
        out.append([list(x) for x in rng.choice(out)])
    return out, (a, b, f, g)


def _family_gene_cases(rng):
    """One family of transcripts -> the same gene in every list order (n <= 3) or in 4 random orders."""
    n = rng.choice([2, 2, 3, 3, 4, 5])
    style = rng.choice(["distinct", "distinct", "with-duplicate", "plus-outsider"])
    lo = rng.randint(0, 30)
    hi = rng.randint(lo + 100, GLEN)
    nfam = n - 1 if (style == "plus-outsider" and n > 2) else n
    structs, (a, b, f, g) = _family_structures(rng, lo, hi, nfam, style == "with-duplicate")
    mixed = rng.random() < 0.12
    strands = _strands(rng, n, mixed)
    cds_style = rng.choice(["shared-cds-bounds", "shared-cds-bounds", "own-cds", "noncoding"])
    ca, cb = rng.randint(a, a + f - 1), rng.randint(b - g + 1, b)
    txs = []
    for k in range(n):
        st = strands[k]
        if k < nfam:
            exons = [list(x) for x in structs[k]]
        else:
            exons = _place(rng, _compose(rng, rng.randint(3, 30), rng.randint(1, 3)), lo, hi)
        t = {"exons": exons, "strand": st, "cds": None, "frames": None, "transcript_id": f"tx_{k}", "transcript_symbol": f"sym_{k}",
             "transcript_type": None, "protein_id": None, "product": None, "is_primary_tx": None, "qualifiers": {}, "guid": None}
        cds = None
        if cds_style == "shared-cds-bounds" and k < nfam and rng.random() < 0.85:
            cds = GG.clip_blocks(exons, ca, cb)
        elif cds_style == "own-cds" or (cds_style == "shared-cds-bounds" and k >= nfam):
            if rng.random() < 0.75:
                cds = GG.rand_cds_in_exons(rng, exons)
        if cds and blen(cds) >= 1:
            t["cds"] = cds
            t["frames"] = GG.rand_frames(rng, cds, st, None, 0)
            t["transcript_type"] = "protein_coding"
            t["protein_id"] = f"prot_{k}"
        txs.append(t)
    _flag(rng, txs, "is_primary_tx", _triples_tx(txs), rng.choice(["none", "none", "none", "one", "false-only"]))
    orders = list(itertools.permutations(range(n))) if n <= 3 else [rng.sample(range(n), n) for _ in range(4)]
    for order in orders:
        g_ = _gene_wrap(rng, [dict(txs[j]) for j in order])
        glo, ghi = GG.gene_span(g_)
        yield {"kind": "gene", "gen": "fam-" + style + "-" + cds_style, "gene": g_, "parent": _parent_for(rng, rng.choice(MODES), glo, ghi)}


def _family_fcoll_cases(rng):
    n = rng.choice([2, 2, 3, 3, 4, 5])
    style = rng.choice(["distinct", "distinct", "with-duplicate", "plus-outsider"])
    lo = rng.randint(0, 30)
    hi = rng.randint(lo + 100, GLEN)
    nfam = n - 1 if (style == "plus-outsider" and n > 2) else n
    structs, _ = _family_structures(rng, lo, hi, nfam, style == "with-duplicate")
    strands = _strands(rng, n, rng.random() < 0.12, "+-." if rng.random() < 0.15 else "+-")
    types = _rand_types(rng, n)
    fs = []
    for k in range(n):
        blocks = [list(x) for x in structs[k]] if k < nfam else _place(rng, _compose(rng, rng.randint(3, 25), rng.randint(1, 3)), lo, hi)
        fs.append({"blocks": blocks, "strand": strands[k], "feature_types": sorted(types[k]), "feature_name": f"feat_{k}", "feature_id": f"fid_{k}",
                   "is_primary_feature": None, "qualifiers": {}, "guid": None})
    _flag(rng, fs, "is_primary_feature", _triples_feat(fs), rng.choice(["none", "none", "none", "one", "false-only"]))
    orders = list(itertools.permutations(range(n))) if n <= 3 else [rng.sample(range(n), n) for _ in range(4)]
    for order in orders:
        fc = {"features": [dict(fs[j]) for j in order], "feature_collection_name": "fc0", "feature_collection_id": "fcid0",
              "feature_collection_type": rng.choice([None, "grp"]), "locus_tag": "FLT0", "qualifiers": {}, "guid": None}
        flo, fhi = GG.fcoll_span(fc)
        yield {"kind": "fcoll", "gen": "fam-" + style, "fcoll": fc, "parent": _parent_for(rng, rng.choice(MODES), flo, fhi)}


def cases(spec, ctx):
    i, n = spec["i"], spec["n"]
    sc = SCOPE[ctx.tier]
    rng = ctx.rng
    idx = 0
    # ---- (a) genes over the (cds_len, spliced_len) palette: every tuple of 1..3 children, sampled 4..5 --------------
    base_pal = [(c, s) for c in sc["C"] for s in sc["S"] if s >= c]
    tuples = [t for k in (1, 2, 3) for t in itertools.product(base_pal, repeat=k)]
    r4 = random.Random(f"C20-n4:{ctx.seed}")
    tuples += [tuple(r4.choice(base_pal) for _ in range(r4.choice([4, 5]))) for _ in range(sc["N4"])]
    for t in tuples:
        for how in ("none", "one", "several", "false-only"):
            idx += 1
            if idx % n != i:
                continue
            if how == "several" and (len(t) < 2 or rng.random() < 0.5):
                continue
            if how == "false-only" and rng.random() < 0.7:
                continue
            sb = rng.randint(0, 8)
            cb = rng.randint(0, 3)
            pairs = [((c + cb) if c else 0, s + sb + cb) for c, s in t]
            mixed = len(t) > 1 and rng.random() < 0.3
            yield _gene_case(rng, pairs, _strands(rng, len(t), mixed), how, MODES[idx % len(MODES)], "exh")
    # ---- (b) random genes -------------------------------------------------------------------------------------------
    for k in range(sc["RG"] // n + 1):
        style, pairs = _rand_gene_pairs(rng)
        how = rng.choice(["none", "none", "one", "several", "false-only"]) if len(pairs) > 1 else rng.choice(["none", "one"])
        mode = rng.choice(MODES)
        mixed = rng.random() < 0.3
        if style == "free" and rng.random() < 0.5:
            # any structure: shared generator (CDS modes, frameshifts, qualifiers)
            st = _strands(rng, len(pairs), mixed)
            lo = rng.randint(0, 40)
            hi = rng.randint(lo + 60, GLEN)
            txs = [GG.rand_transcript_spec(rng, lo, hi, strand=st[j], ident=f"_{j}", max_exons=5) for j in range(len(pairs))]
            _flag(rng, txs, "is_primary_tx", _triples_tx(txs), how)
            g = _gene_wrap(rng, txs)
            glo, ghi = GG.gene_span(g)
            yield {"kind": "gene", "gen": "rand-free", "gene": g, "parent": _parent_for(rng, mode, glo, ghi)}
        else:
            yield _gene_case(rng, pairs, _strands(rng, len(pairs), mixed), how, mode, "rand-" + style, frameshift=True)
    # ---- (c) feature collections: palette tuples + random -----------------------------------------------------------
    ftuples = [t for k in (1, 2, 3) for t in itertools.product(sc["FL"], repeat=k)]
    for t in ftuples:
        for how in ("none", "one", "several"):
            idx += 1
            if idx % n != i:
                continue
            if how == "several" and len(t) < 2:
                continue
            b = rng.randint(0, 6)
            mixed = len(t) > 1 and rng.random() < 0.35
            yield _fcoll_case(rng, [x + b for x in t], _strands(rng, len(t), mixed, "+-." if rng.random() < 0.2 else "+-"), _rand_types(rng, len(t)),
                              how, MODES[idx % len(MODES)], "exh")
    for k in range(sc["RF"] // n + 1):
        nfe = rng.choice([1, 2, 3, 4, 5])
        top = rng.randint(2, 20)
        lens = [top if rng.random() < 0.5 else rng.randint(1, top) for _ in range(nfe)]
        how = rng.choice(["none", "none", "one", "several", "false-only"]) if nfe > 1 else rng.choice(["none", "one"])
        yield _fcoll_case(rng, lens, _strands(rng, nfe, rng.random() < 0.35, "+-." if rng.random() < 0.2 else "+-"), _rand_types(rng, nfe), how,
                          rng.choice(MODES), "rand")
    # ---- (b2) scale: genes with 12..60 isoforms and feature collections with 12..60 features (own stream) -------------
    srng = random.Random(f"C20-scale:{ctx.seed}:{i}")
    for k in range(sc["RG"] // (40 * n) + 1):
        nn = srng.choice([12, 25, 60])
        style = srng.choice(["free", "tie"])
        if style == "tie":
            c = srng.randint(1, 12)
            pairs = [(c if srng.random() < 0.7 else srng.randint(0, c), srng.randint(c, c + 12)) for _ in range(nn)]
        else:
            pairs = [((srng.randint(1, sl) if srng.random() < 0.6 else 0), sl) for sl in (srng.randint(1, 28) for _ in range(nn))]
        how = srng.choice(["none", "none", "one", "false-only"])
        yield _gene_case(srng, pairs, _strands(srng, nn, False), how, srng.choice(MODES), "rand-many-children")
        lens = [srng.randint(1, 20) for _ in range(nn)]
        yield _fcoll_case(srng, lens, _strands(srng, nn, False), _rand_types(srng, nn), srng.choice(["none", "one"]), srng.choice(MODES), "rand-many-children")
    for k in range(2 if ctx.tier == "quick" else 6):
        yield _many_blocks_case(srng, "gene")
        yield _many_blocks_case(srng, "fcoll")
    # ---- (e) families sharing bounds / CDS bounds with different internal structure, every list order ---------------
    for k in range(sc["FAM"] // n + 1):
        yield from _family_gene_cases(rng)
    for k in range(sc["FFAM"] // n + 1):
        yield from _family_fcoll_cases(rng)
    # ---- (d) annotation collections ---------------------------------------------------------------------------------
    for k in range(sc["AC"] // n + 1):
        yield _acoll_case(rng)


# ----------------------------------------------------------------------------------------------------------------
# drivers
# ----------------------------------------------------------------------------------------------------------------
def _genome(p):
    r = random.Random(f"g{p['gseed']}")
    return "".join(r.choice("ACGT") for _ in range(p["glen"]))


def _build_parent(p, genome):
    mode = p["mode"]
    m = {"none": "none", "chrom": "chrom", "chrom-noseq": "chrom-noseq", "chunk-in": "chunk", "chunk-cut": "chunk", "chunk": "chunk"}[mode]
    return GG.build_parent({"mode": m, "genome": genome, "seqname": "chr1", "window": p.get("window")})


def _klass(kind, gen, want, strands):
    """Coarse generator class (<= 12 in total, so that the evidence samples show one case of each); the fine histogram
    (which level of the rule decided, parent kind, bounds kind) goes to the evidence counters `hist:*`."""
    if want == "error":
        return kind + "-several-flags"
    if len(set(strands)) > 1:
        return kind + "-mixed-strands"
    g0 = gen.split("-")[0]
    if kind == "fcoll" and g0 != "fam":
        g0 = "lengths"  # palette tuples + random lengths
    return kind + "-" + g0


def _share_pattern(block_lists):
    """(rank of the bounds, rank of the whole structure) per child: which children share bounds / are identical."""
    spans = [(bl[0][0], bl[-1][1]) if bl else (-1, -1) for bl in block_lists]
    structs = [tuple(tuple(b) for b in bl) for bl in block_lists]
    return tuple(zip(_ranks(spans), _ranks(structs)))


def _shares_bounds(block_lists):
    """Two children with the same bounds but different internal blocks."""
    seen = {}
    for bl in block_lists:
        key = (bl[0][0], bl[-1][1])
        st = tuple(tuple(b) for b in bl)
        if key in seen and st not in seen[key]:
            return True
        seen.setdefault(key, set()).add(st)
    return False


def _has_duplicate(block_lists):
    sts = [tuple(tuple(b) for b in bl) for bl in block_lists]
    return len(set(sts)) < len(sts)


def _ranks(vals):
    u = sorted(set(vals))
    return [u.index(v) for v in vals]


def _outcome(res, exc):
    if exc is not None:
        return ("exc", type(exc).__name__)
    return ("val", None if res is None else str(res))


def _raise_site(exc):
    from bcv.core import innermost_repo_frame

    info = innermost_repo_frame(exc.__traceback__) or {}
    return {"exc_type": type(exc).__name__, "message": str(exc)[:120], "raised_in": info.get("func"), "raised_file": info.get("file"),
            "raised_line": info.get("line")}


def _cov(feat):
    """Position set of a returned merged feature, read through its public chromosome blocks."""
    loc = feat.chromosome_location
    r = PM.read_location(loc)
    if r is None:
        return frozenset()
    return PM.posset(r[0])


def _model_seq_ok(p, blocks):
    """Model half of the sequence comparison applies: a sequence is attached and the member lies wholly inside it."""
    if p["mode"] == "chrom":
        return True
    if p["mode"] in ("chunk-in", "chunk-cut", "chunk"):
        cs, ce = p["window"]
        return cs <= blocks[0][0] and blocks[-1][1] <= ce
    return False


def _check_merged(ctx, which, call, contributing, strands, label, extra_key=()):
    """contributing: list of block lists whose union the merged feature must cover; strands: their strands."""
    mixed = len(set(strands)) > 1
    res, exc = ctx.call(call)
    if not contributing:
        # latitude (b)
        ok = (exc is not None and type(exc).__name__ == "NoncodingTranscriptError") or (exc is None and len(_cov(res)) == 0)
        ctx.check("agg.merged", ok, key=(label, which, "nothing-to-merge"), got=repr(res)[:120], exc=repr(exc)[:160])
        ctx.bump("merged-cds-of-noncoding-gene")
        return
    want = m_union(contributing)
    if exc is not None:
        site = _raise_site(exc)
        ctx.check("agg.merged", False, key=(label, which, "raised", site["exc_type"], site["raised_in"], "mixed-strands" if mixed else "same-strand") + tuple(extra_key),
                  which=which, contributing_strands=sorted(set(strands)), want_runs=PM.runs(want), **site)
        return
    got = _cov(res)
    ctx.check("agg.merged", got == want, key=(label, which, "coverage", "mixed-strands" if mixed else "same-strand"), which=which,
              got_runs=PM.runs(got), want_runs=PM.runs(want), contributing_strands=sorted(set(strands)))
    r2, e2 = ctx.call(lambda: (res.start, res.end))
    ctx.check("agg.merged", e2 is None and tuple(r2) == (min(want), max(want) + 1), key=(label, which, "hull"), which=which, got=r2,
              want=[min(want), max(want) + 1], exc=repr(e2)[:120])
    if mixed:
        ctx.bump("merged-of-mixed-strands-returned")


def _run_gene(case, ctx):
    g = case["gene"]
    p = case["parent"]
    txs = g["transcripts"]
    n = len(txs)
    genome = _genome(p)
    triples = _triples_tx(txs)
    want = m_primary(triples)
    why = decided_by(triples)
    strands = [t["strand"] for t in txs]
    nflag = sum(1 for t in triples if t[0] is True)
    modeclass = p["mode"]
    sig = ("gene", modeclass, tuple(zip(_ranks([t[1] for t in triples]), _ranks([t[2] for t in triples]), strands,
                                         [str(t[0]) for t in triples], [min(len(t["exons"]), 3) for t in txs])),
           _share_pattern([t["exons"] for t in txs]), _share_pattern([t["cds"] or [] for t in txs]))
    shared = _shares_bounds([t["exons"] for t in txs])
    if shared:
        ctx.bump("hist:gene-children-sharing-bounds-with-different-exons")
    if _shares_bounds([t["cds"] for t in txs if t["cds"]]):
        ctx.bump("hist:gene-children-sharing-cds-bounds-with-different-cds-blocks")
    if _has_duplicate([t["exons"] for t in txs]):
        ctx.bump("hist:gene-children-with-identical-structure")
    ctx.note(sig, nontrivial=n >= 2 or nflag >= 1, klass=_klass("gene", case["gen"], want, strands))
    ctx.bump(f"hist:gene-{case['gen'].split('-')[0]}-" + ("multiflag" if want == "error" else why) + ("-mixed" if len(set(strands)) > 1 else ""))
    ctx.bump("hist:gene-parent-" + p["mode"])
    parent = _build_parent(p, genome)
    gene, exc = ctx.call(GG.build_gene, g, parent, "chr1")
    if want == "error":
        ctx.check("agg.primary", exc is not None and type(exc).__name__ == "ValidationException", key=("gene", "several-flags-must-raise-ValidationException"),
                  flags=[t[0] for t in triples], got=repr(gene)[:100], exc=repr(exc)[:160])
        return
    if exc is not None:
        ctx.check("agg.primary", False, key=("gene", "constructor-raised", type(exc).__name__), exc=repr(exc)[:200], **_raise_site(exc))
        return
    # ---- children -----------------------------------------------------------------------------------------------
    kids, exc = ctx.call(lambda: list(gene.iter_children()))
    kids2, exc2 = ctx.call(lambda: list(gene))
    ok = exc is None and exc2 is None and len(kids) == n and all(a is b for a, b in zip(kids, kids2)) and len(kids2) == n \
        and [k.transcript_id for k in kids] == [t["transcript_id"] for t in txs]
    ctx.check("agg.children", ok, key=("gene", "iter-children-in-list-order"), got=None if exc else [k.transcript_id for k in kids], exc=repr(exc or exc2)[:120])
    if not ok:
        return
    gm, exc = ctx.call(lambda: dict(gene.guid_map))
    ctx.check("agg.children", exc is None and len(gm) == n and all(gm.get(k.guid) is k for k in kids), key=("gene", "guid-map"), size=None if exc else len(gm), n=n)
    # ---- span ---------------------------------------------------------------------------------------------------
    ws, we = m_span([t["exons"] for t in txs])
    r, exc = ctx.call(lambda: (gene.start, gene.end, gene.chromosome_location.start, gene.chromosome_location.end))
    ctx.check("agg.span", exc is None and tuple(r) == (ws, we, ws, we), key=("gene", "start-end"), got=r, want=[ws, we], exc=repr(exc)[:120])
    # ---- coding -------------------------------------------------------------------------------------------------
    r, exc = ctx.call(lambda: gene.is_coding)
    wc = any(t["cds"] for t in txs)
    ctx.check("agg.is-coding", exc is None and r is wc, key=("gene", "is_coding"), got=r, want=wc, coding=[bool(t["cds"]) for t in txs])
    # ---- primary ------------------------------------------------------------------------------------------------
    r, exc = ctx.call(lambda: (gene.primary_transcript, gene.get_primary_transcript(), gene.get_primary_feature()))
    got_idx = None if exc else [next((j for j, k in enumerate(kids) if k is x), None) for x in r]
    ctx.check("agg.primary", exc is None and got_idx == [want] * 3, key=("gene", "flagged" if nflag else "inferred", why), got=got_idx, want=want,
              triples=[list(t) for t in triples], exc=repr(exc)[:120])
    # ---- accessors of the primary member ------------------------------------------------------------------------
    _gene_accessors(ctx, gene, kids, txs, want, p, genome, parent)
    # ---- merged -------------------------------------------------------------------------------------------------
    gtn = ("gene_type-none",) if g.get("gene_type") is None else ()
    _check_merged(ctx, "transcript", gene.get_merged_transcript, [t["exons"] for t in txs], strands, "gene", gtn)
    _check_merged(ctx, "feature", gene.get_merged_feature, [t["exons"] for t in txs], strands, "gene", gtn)
    cod = [t for t in txs if t["cds"]]
    _check_merged(ctx, "cds", gene.get_merged_cds, [t["cds"] for t in cod], [t["strand"] for t in cod], "gene", gtn)
    # ---- merged, history: genes that keep this gene's identifier but hold other children (a sub-gene from query_by_guids; a gene
    # rebuilt with the same explicit guid and fewer transcripts) are merged over THEIR children, whatever was merged before --------
    if n >= 2 and len(set(strands)) == 1:
        for pick in ([0], [n - 1], list(range(1, n))):
            sub, exc = ctx.call(gene.query_by_guids, [kids[j].guid for j in pick])
            if exc is not None or sub is None:
                ctx.check("agg.merged", False, key=("gene", "history", "query_by_guids-refused"), exc=repr(exc)[:160], pick=pick)
                continue
            stx = [txs[j] for j in pick]
            _check_merged(ctx, "transcript", sub.get_merged_transcript, [t["exons"] for t in stx], [t["strand"] for t in stx], "gene-subset-same-guid", gtn)
            scod = [t for t in stx if t["cds"]]
            _check_merged(ctx, "cds", sub.get_merged_cds, [t["cds"] for t in scod], [t["strand"] for t in scod], "gene-subset-same-guid", gtn)
        # and the full gene once more after its subsets were merged
        _check_merged(ctx, "transcript", gene.get_merged_transcript, [t["exons"] for t in txs], strands, "gene-after-subsets", gtn)
        _check_merged(ctx, "cds", gene.get_merged_cds, [t["cds"] for t in cod], [t["strand"] for t in cod], "gene-after-subsets", gtn)


def _gene_accessors(ctx, gene, kids, txs, want, p, genome, parent):
    M = "agg.primary-accessors"
    t = txs[want]
    member = kids[want]
    coding = bool(t["cds"])
    strand = t["strand"]
    twin, exc = ctx.call(GG.build_transcript, t, parent, "chr1")
    if exc is not None:
        ctx.check(M, False, key=("gene", "twin-constructor-raised", type(exc).__name__), exc=repr(exc)[:160])
        return
    model_ok = _model_seq_ok(p, t["exons"])
    # get_primary_cds
    r, exc = ctx.call(gene.get_primary_cds)
    if coding:
        ok = exc is None and r is not None and r is member.cds and [(b.start, b.end) for b in r.chromosome_location.blocks] == [tuple(b) for b in t["cds"]] \
            and [f.value for f in r.frames] == list(t["frames"]) and r.strand.to_symbol() == strand
        ctx.check(M, ok, key=("gene", "get_primary_cds", "coding"), got=repr(r)[:160], want=[t["cds"], t["frames"]], exc=repr(exc)[:120])
    else:
        ok = (exc is None and r is None) or (exc is not None and type(exc).__name__ == "NoncodingTranscriptError")
        ctx.check(M, ok, key=("gene", "get_primary_cds", "noncoding"), got=repr(r)[:160], exc=repr(exc)[:120])
    # sequences
    spliced = SM.extract(PM.positions([tuple(b) for b in t["exons"]], strand), strand, genome)
    cds_seq = prot = None
    cds_model = False
    if coding:
        cons = any(list(t["frames"]) == FM.consistent_frames(t["cds"], strand, o) for o in (0, 1, 2))
        codons = FM.codons([tuple(b) for b in t["cds"]], strand, list(t["frames"]))
        cds_model = cons and len(codons) >= 1
        if cds_model:
            cds_seq = "".join(SM.extract(c, strand, genome) for c in codons)
            prot = "".join(FM.translate(cds_seq, "DEFAULT"))
    plan = [("get_primary_transcript_sequence", twin.get_spliced_sequence, spliced, True, False),
            ("get_primary_feature_sequence", twin.get_spliced_sequence, spliced, True, False),
            ("get_primary_cds_sequence", twin.get_cds_sequence, cds_seq, cds_model, True),
            ("get_primary_protein", twin.get_protein_sequence, prot, cds_model, True)]
    for name, twin_fn, model_val, has_model, needs_cds in plan:
        r, exc = ctx.call(getattr(gene, name))
        got = _outcome(r, exc)
        tr, texc = ctx.call(twin_fn)
        tw = _outcome(tr, texc)
        if needs_cds and not coding:
            # latitude (c)
            ok = got == ("val", None) or got == tw
            ctx.check(M, ok, key=("gene", name, "noncoding-primary"), got=got, member=tw)
            continue
        ctx.check(M, got == tw, key=("gene", name, "same-as-member", "coding" if coding else "noncoding"), got=got, member=tw, mode=p["mode"])
        if model_ok and has_model and (not needs_cds or _model_seq_ok(p, t["cds"])):
            ctx.check(M, got == ("val", model_val), key=("gene", name, "model", "coding" if coding else "noncoding"), got=got, want=model_val, mode=p["mode"])
            ctx.bump("accessor-model-comparisons")


def _run_fcoll(case, ctx):
    fc = case["fcoll"]
    p = case["parent"]
    fs = fc["features"]
    n = len(fs)
    genome = _genome(p)
    triples = _triples_feat(fs)
    want = m_primary(triples)
    why = decided_by(triples)
    if why == "cds":
        why = "index"  # cannot happen (all cds_len are 0); defensive
    strands = [f["strand"] for f in fs]
    nflag = sum(1 for t in triples if t[0] is True)
    sig = ("fcoll", p["mode"], tuple(zip(_ranks([t[2] for t in triples]), strands, [str(t[0]) for t in triples], [len(f["blocks"]) for f in fs],
                                         [len(f["feature_types"]) for f in fs])), _share_pattern([f["blocks"] for f in fs]))
    if _shares_bounds([f["blocks"] for f in fs]):
        ctx.bump("hist:fcoll-children-sharing-bounds-with-different-blocks")
    if _has_duplicate([f["blocks"] for f in fs]):
        ctx.bump("hist:fcoll-children-with-identical-structure")
    ctx.note(sig, nontrivial=n >= 2 or nflag >= 1, klass=_klass("fcoll", case["gen"], want, strands))
    ctx.bump(f"hist:fcoll-{case['gen']}-" + ("multiflag" if want == "error" else why) + ("-mixed" if len(set(strands)) > 1 else ""))
    parent = _build_parent(p, genome)
    obj, exc = ctx.call(GG.build_fcoll, fc, parent, "chr1")
    if want == "error":
        ctx.check("agg.primary", exc is not None and type(exc).__name__ == "ValidationException", key=("fcoll", "several-flags-must-raise-ValidationException"),
                  flags=[t[0] for t in triples], got=repr(obj)[:100], exc=repr(exc)[:160])
        return
    if exc is not None:
        ctx.check("agg.primary", False, key=("fcoll", "constructor-raised", type(exc).__name__), exc=repr(exc)[:200], **_raise_site(exc))
        return
    kids, exc = ctx.call(lambda: list(obj.iter_children()))
    kids2, exc2 = ctx.call(lambda: list(obj))
    ok = exc is None and exc2 is None and len(kids) == n and len(kids2) == n and all(a is b for a, b in zip(kids, kids2)) \
        and [k.feature_id for k in kids] == [f["feature_id"] for f in fs]
    ctx.check("agg.children", ok, key=("fcoll", "iter-children-in-list-order"), got=None if exc else [k.feature_id for k in kids], exc=repr(exc or exc2)[:120])
    if not ok:
        return
    gm, exc = ctx.call(lambda: dict(obj.guid_map))
    ctx.check("agg.children", exc is None and len(gm) == n and all(gm.get(k.guid) is k for k in kids), key=("fcoll", "guid-map"), size=None if exc else len(gm), n=n)
    ws, we = m_span([f["blocks"] for f in fs])
    r, exc = ctx.call(lambda: (obj.start, obj.end, obj.chromosome_location.start, obj.chromosome_location.end))
    ctx.check("agg.span", exc is None and tuple(r) == (ws, we, ws, we), key=("fcoll", "start-end"), got=r, want=[ws, we], exc=repr(exc)[:120])
    r, exc = ctx.call(lambda: obj.is_coding)
    ctx.check("agg.is-coding", exc is None and r is False, key=("fcoll", "is_coding"), got=r, exc=repr(exc)[:120])
    wt = set()
    for f in fs:
        wt |= set(f["feature_types"])
    r, exc = ctx.call(lambda: set(obj.feature_types))
    ctx.check("agg.feature-types", exc is None and r == wt, key=("fcoll", "feature_types", "empty-union" if not wt else "non-empty"), got=sorted(r) if exc is None else None,
              want=sorted(wt), per_child=[f["feature_types"] for f in fs], exc=repr(exc)[:120])
    r, exc = ctx.call(lambda: (obj.primary_feature, obj.get_primary_feature()))
    got_idx = None if exc else [next((j for j, k in enumerate(kids) if k is x), None) for x in r]
    ctx.check("agg.primary", exc is None and got_idx == [want] * 2, key=("fcoll", "flagged" if nflag else "inferred", why), got=got_idx, want=want,
              triples=[list(t) for t in triples], exc=repr(exc)[:120])
    # accessor
    f = fs[want]
    twin, exc = ctx.call(GG.build_feature, f, parent, "chr1")
    if exc is not None:
        ctx.check("agg.primary-accessors", False, key=("fcoll", "twin-constructor-raised", type(exc).__name__), exc=repr(exc)[:160])
    else:
        r, exc = ctx.call(obj.get_primary_feature_sequence)
        got = _outcome(r, exc)
        tr, texc = ctx.call(twin.get_spliced_sequence)
        tw = _outcome(tr, texc)
        ctx.check("agg.primary-accessors", got == tw, key=("fcoll", "get_primary_feature_sequence", "same-as-member"), got=got, member=tw, mode=p["mode"])
        if _model_seq_ok(p, f["blocks"]) and f["strand"] in "+-":
            wseq = SM.extract(PM.positions([tuple(b) for b in f["blocks"]], f["strand"]), f["strand"], genome)
            ctx.check("agg.primary-accessors", got == ("val", wseq), key=("fcoll", "get_primary_feature_sequence", "model"), got=got, want=wseq, mode=p["mode"])
            ctx.bump("accessor-model-comparisons")
    _check_merged(ctx, "feature", obj.get_merged_feature, [f["blocks"] for f in fs], strands, "fcoll")


def _run_acoll(case, ctx):
    c = case["coll"]
    p = case["parent"]
    genome = _genome(p)
    parent = _build_parent(p, genome)
    ng, nf = len(c["genes"]), len(c["fcolls"])
    total = ng + nf
    want_members = sorted([("gene", g["gene_id"]) + tuple(GG.gene_span(g)) for g in c["genes"]] +
                          [("fcoll", f["feature_collection_id"]) + tuple(GG.fcoll_span(f)) for f in c["fcolls"]])
    starts = [m[2] for m in want_members]
    ties = len(set(starts)) < len(starts)
    explicit = None if c["start"] is None else [c["start"], c["end"]]
    wb = m_bounds(explicit, p["mode"], p["glen"], p.get("window"), [(m[2], m[3]) for m in want_members])
    in_order = [m[2] for m in ([("g",) * 2 + tuple(GG.gene_span(g)) for g in c["genes"]] + [("f",) * 2 + tuple(GG.fcoll_span(f)) for f in c["fcolls"]])]
    sig = ("acoll", p["mode"], case["bounds"], ng, nf, tuple(_ranks(in_order)))
    ctx.note(sig, nontrivial=total >= 2 or total == 0, klass="acoll-" + ("empty" if total == 0 else ("start-ties" if ties else "distinct-starts")))
    ctx.bump("hist:acoll-" + case["bounds"] + "-" + p["mode"])
    ac, exc = ctx.call(GG.build_collection, c, parent)
    if exc is not None:
        ctx.check("coll.order", False, key=("constructor-raised", type(exc).__name__, p["mode"], case["bounds"]), exc=repr(exc)[:200], **_raise_site(exc))
        return
    # ---- len / is_empty -----------------------------------------------------------------------------------------
    r, exc = ctx.call(lambda: (len(ac), ac.is_empty))
    ctx.check("coll.len-empty", exc is None and r[0] == total and r[1] is (total == 0), key=("len-is_empty", "empty" if total == 0 else "non-empty"), got=r,
              want=[total, total == 0], exc=repr(exc)[:120])
    # ---- order --------------------------------------------------------------------------------------------------
    given = list(ac.genes) + list(ac.feature_collections)

    def ident(x):
        return ("gene", x.gene_id) if type(x).__name__ == "GeneInterval" else ("fcoll", x.feature_collection_id)

    for name, fn in (("iter_children", lambda: list(ac.iter_children())), ("iter", lambda: list(ac)), ("children", lambda: list(ac.children)),
                     ("iter_non_variant_children", lambda: list(ac.iter_non_variant_children()))):
        r, exc = ctx.call(fn)
        if exc is not None:
            ctx.check("coll.order", False, key=(name, "raised", type(exc).__name__), exc=repr(exc)[:160])
            continue
        got = [ident(x) + (x.start, x.end) for x in r]
        same_members = sorted(got) == want_members and len({id(x) for x in r}) == len(r) and all(any(x is y for y in given) for x in r)
        sorted_ok = all(a[2] <= b[2] for a, b in zip(got, got[1:]))
        ctx.check("coll.order", same_members and sorted_ok, key=(name, "members" if not same_members else "sorted-by-start", "ties" if ties else "no-ties"),
                  got=got, want_members=want_members)
    # ---- bounds -------------------------------------------------------------------------------------------------
    if wb is None:
        ctx.seen("coll.bounds")
        ctx.bump("collections-without-span")
        return
    r, exc = ctx.call(lambda: (ac.start, ac.end, ac.chromosome_location.start, ac.chromosome_location.end))
    ctx.check("coll.bounds", exc is None and tuple(r) == wb + wb, key=(case["bounds"], p["mode"], "empty" if total == 0 else "non-empty"), got=r, want=list(wb),
              exc=repr(exc)[:120])


def run_case(case, ctx):
    k = case["kind"]
    if k == "gene":
        return _run_gene(case, ctx)
    if k == "fcoll":
        return _run_fcoll(case, ctx)
    if k == "acoll":
        return _run_acoll(case, ctx)
    from bcv.core import HarnessError

    raise HarnessError(f"unknown case kind {k}")


# ----------------------------------------------------------------------------------------------------------------
# recorded findings
# ----------------------------------------------------------------------------------------------------------------
def classify(v):
    if v.get("monitor") != "agg.merged":
        return None
    d = v.get("detail") or {}
    case = v.get("case") or {}
    which = d.get("which")
    # re-derive the strands of the children that contribute blocks from the stored case
    if case.get("kind") == "gene":
        txs = (case.get("gene") or {}).get("transcripts") or []
        if which == "cds":
            txs = [t for t in txs if t.get("cds")]
        strands = {t.get("strand") for t in txs}
    elif case.get("kind") == "fcoll":
        strands = {f.get("strand") for f in (case.get("fcoll") or {}).get("features") or []}
    else:
        return None
    raised_by_union = d.get("exc_type") == "ValueError" and d.get("raised_in") == "union" and str(d.get("raised_file", "")).endswith("location_impl.py")
    if len(strands) > 1 and raised_by_union:
        return "K2-merged-feature-of-mixed-strand-children-raises"
    return None
