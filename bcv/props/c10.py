"""C10  Answers do not depend on call history; operations never change their operands.

Technique: history / twin monitoring of the real objects.  A case is one *root* object given as a JSON-able spec
(bcv.gen.c10gen): a location (+ a second location, its parent, the parent's sequence), a sequence, a codon, or a gene-layer
object (CDS, transcript, feature, variant, gene, feature collection, variant collection, annotation collection; on no
parent, a chromosome with / without sequence, a plus- or minus-strand sequence chunk) together with everything reachable
from it (children, CDS of a transcript ...): the *targets*.

Accessor catalogue per target class = every public zero-argument property / method / instance attribute found by
`inspect` (methodtools wrappers unwrapped through __wrapped__, so the memoised members are in it; deny-list c10gen.DENY)
+ curated fixed-argument calls (translate(True), to_bed12(..), list(to_gff(P, parent_qualifiers)), export_qualifiers({..}),
codon window scans incl. two windows back to back and a storm of 24 windows (> the 20 memo slots), position queries with
different windows back to back, set algebra with a second location, lift-overs, from_dict(to_dict()), pickle / schema
round trips, incorporate_variants ...).  All arguments are plain values read off a throw-away build of the same spec.

Monitors
  hist.twin            object A is built, a random history is run on it and on its targets (accessors drawn with repetition,
                       interleaved with unrelated work: > 1000 distinct Parents so that the process-wide Parent cache evicts
                       - confirmed through Parent.cache_info() and written to the evidence counters -, Parent.cache_clear(),
                       look-alike objects built from perturbed specs and asked the same questions, look-alike Parents that
                       resemble A's cache keys); then every (sampled) question is asked on A and on a twin B built freshly
                       from the same spec for that one question; the normalised answers (type name + canonical value) or
                       the exception types must agree
  hist.repeat          the same question asked twice on A (first time in the history / again at the end) has one answer
  hist.parent-cache    two hierarchies sharing their upper levels (ids, types, placements) but reaching differently far down, built in one
                       process in either order, with nothing / an eviction storm / a cache_clear in between: has_ancestor_of_type,
                       the lift to every type and the chain depth of each equal what the construction says (liftmodel), whichever
                       was built or asked first (the process-wide Parent memo must not hand one hierarchy's ancestry to the other)
  hist.anchor          after the history, A still describes the spec it was built from (blocks, strand, identifiers,
                       qualifiers, explicit guid, spliced sequence): catches answers leaking from *another* object through a
                       memo that is shared too widely (a fault that would pollute A and its fresh twin alike)
  ops.operand-unchanged   around every call of the catalogue on a fresh object O: snapshots (to_dict(), guid, hash,
                       qualifier sets, chunk-relative and chromosome location, identifiers, children's guids+qualifiers) of
                       EVERY target (the asked object, its root, siblings, children, the second location, parents) are
                       equal before and after
  ops.argument-unchanged  mutable arguments handed to a call (parent_qualifiers dicts, parents, locations, variant
                       collections) are unchanged afterwards
  ops.equal-to-twin    O == W and hash(O) == hash(W) for a witness twin W that is never asked anything else

Normalisation (so that nothing but the answer is compared): Locations -> (class, blocks, strand, parent chain), Sequences ->
(class, str, alphabet, id, type, parent chain), Parents -> (id, type, strand, location, sequence, parent), interval objects
-> (class, guid, to_dict(), chunk-relative location), UUID -> str, enums -> (class, member name), sets / dict keys sorted,
generators exhausted (type name kept), floats by repr, memory addresses removed from every string.

Latitude: (i) exception *messages* are not compared, only exception types; (ii) answers are compared after
normalisation, i.e. object identity (`is`) of returned Parents / locations is not part of an answer - the Parent cache is
documented to hand out shared instances; (iii) private (underscore) members, documented in-place mutators used during
construction (_reset_parent, _liftover_this_location_to_seq_chunk_parent) and deprecated / unimplemented members
(c10gen.DENY) are never called; (iv) a root whose constructor refuses the spec is skipped (counted) - refusals belong to
C19; (v) the spec-anchor monitor compares spliced sequence only on plus-strand parents with every block inside the chunk,
and is_overlapping only for locations without empty blocks.

Reports on the unchanged tree (each reproduced by hand, patches in /verif/proposed_fixes/C10-*.diff keep the pinned baseline
at 1466 passed and the shimmed full suite at 2117 passed / 3 failed[vcf]):
  F2  CDSInterval.extract_sequence() answers with a plain str once chunk_relative_codon_locations was listed (Sequence
      before); has_valid_stop then dies with AttributeError.  Same switch, second face: a CDS without a complete codon and
      without a sequence refuses with NullParentException / NullSequenceException when fresh and answers '' afterwards.
  F3  _merge_qualifiers / GeneInterval.export_qualifiers / FeatureIntervalCollection.export_qualifiers copy the qualifier
      dictionary shallowly and then update the value sets: export_qualifiers(), to_gff() of an object or of its parent grow
      the object's own qualifier sets (qualifiers, to_dict(), ==, from_dict(to_dict()).guid, query results all drift).
  F16 (new) "chromosome" and SequenceType.CHROMOSOME compare and hash equal, so both spellings share one entry of the
      lru_cache around Parent and _unique_value_or_none: Parent(...).sequence_type / parent_type / repr answer with whichever
      spelling was cached first in the process (type str vs SequenceType).  classify() recognises exactly this difference
      (key K-parent-cache-sequence-type-spelling) in case the lead prefers recording over the canonicalising patch.
"""
import dataclasses
import enum
import random
import re
import uuid

from bcv.gen import c10gen as CG
from bcv.models import posmodel as PM
from bcv.models import seqmodel as SM

ID = "C10"
LEVEL = "exploration"
EXHAUSTIVE = False
RULE = (
    "seeded random root objects of every class (locations with a second location, parent and parent sequence; sequences; "
    "codons; CDS / transcript / feature / variant / gene / feature collection / variant collection / annotation collection "
    "from the serialisation generator, on none / chromosome / sequence-less chromosome / plus and minus strand chunk parents, "
    "reserved qualifier keys added) x NH random histories each (5..60 steps: accessor calls with repetition, eviction storms "
    "of > 1000 Parents, cache_clear, look-alike objects and Parents), every catalogue question then compared with a per-question "
    "fresh twin.  One distinct non-trivial case = (target class, accessor, history length bucket, eviction happened, parent mode) "
    "asked on an object that had been asked other questions before."
)
SCOPE = {
    # roots per shard (16 shards); every root brings its children / CDS / parents along as further targets
    "quick": {"NH": 3, "pcache": 60, "roots": {"loc": 10, "seq": 3, "codon": 1, "tx": 7, "cds": 7, "feat": 4, "var": 2, "gene": 5, "fcoll": 2, "vcoll": 2, "coll": 3},
              "qcap": {"leaf": 150, "mid": 130, "coll": 80}, "opcap": {"leaf": 90, "mid": 70, "coll": 40}},
    "thorough": {"NH": 8, "pcache": 400, "roots": {"loc": 40, "seq": 12, "codon": 4, "tx": 24, "cds": 24, "feat": 12, "var": 6, "gene": 14, "fcoll": 6, "vcoll": 5, "coll": 7},
                 "qcap": {"leaf": 400, "mid": 320, "coll": 220}, "opcap": {"leaf": 200, "mid": 150, "coll": 80}},
}
FLOOR = {"quick": 8000, "thorough": 12000}
REQUIRED_MONITORS = ["hist.parent-cache", "hist.twin", "hist.repeat", "hist.anchor", "ops.operand-unchanged", "ops.argument-unchanged", "ops.equal-to-twin"]
_I = "inscripta.biocantor."
REACH = [  # (gene / location modules first: importing parent.parent before location runs into the package's import cycle)
    _I + "gene.interval:AbstractFeatureInterval._merge_qualifiers",
    _I + "gene.interval:AbstractFeatureInterval.chromosome_location",
    _I + "gene.interval:AbstractInterval.chromosome_location",
    _I + "gene.interval:AbstractFeatureInterval.get_spliced_sequence",
    _I + "gene.cds:CDSInterval.extract_sequence",
    _I + "gene.cds:CDSInterval.chunk_relative_codon_locations",
    _I + "gene.cds:CDSInterval.chromosome_codon_locations",
    _I + "gene.cds:CDSInterval._prepare_single_exon_window_for_scan_codon_locations",
    _I + "gene.cds:CDSInterval._prepare_multi_exon_window_for_scan_codon_locations",
    _I + "gene.cds:CDSInterval.translate",
    _I + "gene.transcript:TranscriptInterval.get_protein_sequence",
    _I + "gene.transcript:TranscriptInterval.export_qualifiers",
    _I + "gene.gene:GeneInterval.export_qualifiers",
    _I + "gene.collections:AnnotationCollection._query_by_position",
    _I + "gene.collections:AnnotationCollection.children",
    _I + "gene.codon:Codon.__new__",
    _I + "location.location_impl:SingleInterval.extract_sequence",
    _I + "location.location_impl:CompoundInterval._single_intervals",
    _I + "location.location_impl:CompoundInterval.is_overlapping",
    _I + "parent.parent:_unique_value_or_none",
    _I + "parent.parent:Parent.strand",
    _I + "parent.parent:Parent.reset_location",
]
REACH_REQUIRED = REACH
ASSUMPTIONS = [
    "oracle: the object's own fresh twin (same JSON spec, built for one question) - no reference model of the answers themselves",
    "spec-anchor monitor: position-list / sequence models bcv/models/posmodel.py, seqmodel.py",
    "serialisation workload generator bcv/gen/ser.py (specs of the gene layer)",
]
WATCHDOG = {"quick": 1800, "thorough": 4 * 3600}

_ADDR = re.compile(r"0x[0-9a-fA-F]{6,}")


# --------------------------------------------------------------------------------------------------------------
# normalisation
# --------------------------------------------------------------------------------------------------------------
class _Types:
    ready = False


def _types():
    if not _Types.ready:
        from inscripta.biocantor.gene.codon import Codon
        from inscripta.biocantor.gene.interval import AbstractInterval
        from inscripta.biocantor.io.gff3.rows import GFFRow, GFFAttributes
        from inscripta.biocantor.location.location import Location
        from inscripta.biocantor.parent import Parent
        from inscripta.biocantor.sequence import Sequence

        _Types.Codon, _Types.AbstractInterval, _Types.GFFRow, _Types.GFFAttributes = Codon, AbstractInterval, GFFRow, GFFAttributes
        _Types.Location, _Types.Parent, _Types.Sequence = Location, Parent.__wrapped__, Sequence
        _Types.ready = True
    return _Types


FALLBACKS = {}


def norm(v, depth=0):
    """Canonical, comparable, JSON-able form of an answer: (type name, value)."""
    T = _types()
    t = type(v)
    if depth > 14:
        return ["deep", t.__name__]
    if v is None or t is bool or t is int:
        return [t.__name__, v]
    if t is str:
        return ["str", _ADDR.sub("0x", v) if "0x" in v else v]
    if t is float:
        return ["float", repr(v)]
    if t is bytes:
        return ["bytes", len(v)]
    if isinstance(v, uuid.UUID):
        return ["UUID", str(v)]
    if isinstance(v, enum.Enum):
        return ["enum:" + t.__name__, v.name]
    if isinstance(v, T.Location):
        return _norm_loc(v, depth)
    if t is T.Sequence:
        return ["Sequence", str(v), _safe(lambda: v.alphabet.name), norm(v.id, depth + 1), norm(v.sequence_type, depth + 1), norm(v.parent, depth + 1)]
    if t is T.Parent:
        loc = v.location
        return ["Parent", norm(v.id, depth + 1), norm(v.sequence_type, depth + 1), norm(_safe(lambda: v.strand), depth + 1),
                None if loc is None else _norm_loc(loc, depth, with_parent=False), norm(v.sequence, depth + 1), norm(v.parent, depth + 1)]
    if isinstance(v, T.AbstractInterval):
        return ["interval:" + t.__name__, str(getattr(v, "guid", None)), _try(lambda: norm(v.to_dict(), depth + 1)),
                _try(lambda: norm(v.chunk_relative_location, depth + 1))]
    if t is T.Codon:
        return ["Codon", _safe(lambda: str(v))]
    if isinstance(v, dict):
        items = [[norm(k, depth + 1), norm(x, depth + 1)] for k, x in v.items()]
        items.sort(key=repr)
        return [t.__name__, items]
    if isinstance(v, (set, frozenset)):
        return [t.__name__, sorted((norm(x, depth + 1) for x in v), key=repr)]
    if isinstance(v, (list, tuple)):
        return [t.__name__, [norm(x, depth + 1) for x in v]]
    if isinstance(v, (T.GFFRow, T.GFFAttributes)):
        return [t.__name__, str(v)]
    if dataclasses.is_dataclass(v) and not isinstance(v, type):
        return ["dataclass:" + t.__name__, [[f.name, norm(getattr(v, f.name), depth + 1)] for f in dataclasses.fields(v)]]
    if hasattr(v, "__next__") or t.__name__ in ("generator", "zip", "map", "filter", "chain"):
        return ["iterator:" + t.__name__, [norm(x, depth + 1) for x in v]]
    mod = getattr(t, "__module__", "") or ""
    if mod.startswith("Bio."):
        return ["bio:" + t.__name__, _ADDR.sub("0x", repr(v))]
    FALLBACKS[t.__name__] = FALLBACKS.get(t.__name__, 0) + 1
    return ["object:" + t.__name__, _ADDR.sub("0x", repr(v))]


def _safe(fn):
    try:
        return fn()
    except Exception as e:  # noqa: BLE001 - a refusal is part of the observable answer
        return "raised:" + type(e).__name__


def _try(fn):
    try:
        return fn()
    except Exception as e:  # noqa: BLE001
        return ["raised", type(e).__name__]


def _norm_loc(v, depth, with_parent=True):
    t = type(v).__name__
    blocks = _try(lambda: [[b.start, b.end, b.strand.to_symbol()] for b in v.blocks])
    strand = _safe(lambda: v.strand.name if v.strand is not None else None)
    out = ["location:" + t, blocks, strand]
    if with_parent:
        out.append(norm(_safe(lambda: v.parent), depth + 1))
    return out


_SPELL = {"SequenceType.CHROMOSOME": "chromosome", "SequenceType.SEQUENCE_CHUNK": "sequence_chunk"}


def canon_sequence_type(n):
    """The normal form with every SequenceType member replaced by its string value (used only to *describe* a difference:
    "equal apart from the spelling of a sequence type")."""
    if isinstance(n, list):
        if len(n) == 2 and n[0] == "enum:SequenceType" and isinstance(n[1], str):
            return ["str", n[1].lower()]
        return [canon_sequence_type(x) for x in n]
    if isinstance(n, str) and "SequenceType." in n:
        for k, v in _SPELL.items():
            n = n.replace(k, v)
    return n


def _witness(n, limit=8000):
    """The full normal form as a JSON string (the evidence writer truncates deep structures, a string passes unchanged)
    when it is small enough to be stored in a replay file, else None."""
    import json

    s = json.dumps(n)
    return s if len(s) <= limit else None


def top_type(n):
    return n[0] if isinstance(n, list) and n else type(n).__name__


# --------------------------------------------------------------------------------------------------------------
# asking questions, snapshots
# --------------------------------------------------------------------------------------------------------------
def ask(obj, acc, args=None):
    """-> ["ok", normalised answer] | ["raised", exception type].  Generators are exhausted inside."""
    try:
        if args is None:
            args = acc.mkargs() if acc.mkargs else {}
        return ["ok", norm(acc.fn(obj, args))]
    except RecursionError:
        return ["raised", "RecursionError"]
    except Exception as e:  # noqa: BLE001
        return ["raised", type(e).__name__]


def snapshot(o):
    """Observable state of an operand, field by field (every field through the public surface only)."""
    T = _types()
    t = type(o)
    if isinstance(o, T.Location):
        return {"norm": norm(o), "hash": _safe(lambda: hash(o)), "len": _safe(lambda: len(o))}
    if t is T.Sequence or t is T.Parent:
        return {"norm": norm(o), "hash": _safe(lambda: hash(o))}
    if t is T.Codon:
        return {"str": _safe(lambda: str(o)), "translate": _safe(lambda: o.translate(strict=False))}
    if isinstance(o, T.AbstractInterval):
        kids = []
        if hasattr(o, "iter_children"):
            try:
                for k in o.iter_children():
                    kids.append([type(k).__name__, str(k.guid), norm(k.qualifiers), _safe(lambda k=k: hash(k))])
                    if hasattr(k, "iter_children"):
                        for gk in k.iter_children():
                            kids.append([type(gk).__name__, str(gk.guid), norm(gk.qualifiers)])
            except Exception as e:  # noqa: BLE001
                kids.append(["raised", type(e).__name__])
        return {"to_dict": _try(lambda: norm(o.to_dict())), "guid": str(getattr(o, "guid", None)), "hash": _safe(lambda: hash(o)),
                "qualifiers": norm(getattr(o, "qualifiers", None)), "chunk_relative_location": _try(lambda: norm(o.chunk_relative_location)),
                "chromosome_location": _try(lambda: norm(o.chromosome_location)), "strand": _try(lambda: norm(o.strand)),
                "identifiers": _try(lambda: norm(o.identifiers)), "sequence_name": norm(getattr(o, "sequence_name", None)), "children": kids}
    return {"norm": norm(o)}


def diff_fields(a, b):
    return [k for k in a if a.get(k) != b.get(k)] + [k for k in b if k not in a]


def short(x, n=500):
    s = repr(x)
    return s if len(s) <= n else s[:n] + f"...(+{len(s) - n})"


# --------------------------------------------------------------------------------------------------------------
# unrelated work
# --------------------------------------------------------------------------------------------------------------
_STORM = [0]


def evict_storm(ctx):
    """> maxsize distinct Parents: every earlier entry of the process-wide cache is evicted.  Returns evictions."""
    from inscripta.biocantor.parent import Parent
    from inscripta.biocantor.parent.parent import _unique_value_or_none

    b, ub = Parent.cache_info(), _unique_value_or_none.cache_info()
    n = (b.maxsize or 1000) + 40
    base = _STORM[0]
    _STORM[0] += n
    for i in range(n):
        Parent(id=f"c10-evict-{base + i}")
    a, ua = Parent.cache_info(), _unique_value_or_none.cache_info()
    new = a.misses - b.misses
    ev = max(0, b.currsize + new - (a.maxsize or 0))
    uev = max(0, ub.currsize + (ua.misses - ub.misses) - (ua.maxsize or 0))
    ctx.bump("parent-cache.storms")
    ctx.bump("parent-cache.misses-during-storms", new)
    ctx.bump("parent-cache.evictions-during-storms", ev)
    ctx.bump("parent-cache.full-after-storm", int(a.currsize == a.maxsize))
    ctx.bump("unique-value-cache.evictions-during-storms", uev)
    return ev


def cache_clear(ctx, rng):
    from inscripta.biocantor.parent import Parent
    from inscripta.biocantor.parent.parent import _unique_value_or_none

    before = Parent.cache_info().currsize
    Parent.cache_clear()
    if rng.random() < 0.5:
        _unique_value_or_none.cache_clear()
    ctx.bump("parent-cache.clears")
    ctx.bump("parent-cache.entries-dropped-by-clear", before)


def lookalike_objects(ctx, case, cats, rng):
    if case["kind"] == "codon":
        from inscripta.biocantor.gene.codon import Codon

        for c in case["noise"]:
            try:
                x = Codon(c)
                _ = (str(x), x.translate(strict=False), x.is_stop_codon)
            except Exception:  # noqa: BLE001 - invalid codons are refused; the refusal must leave the registry usable
                ctx.bump("lookalike.codons-refused")
            ctx.bump("lookalike.codons")
        return
    how = rng.choice(["same", "shift", "strand", "genome"])
    try:
        lc = CG.lookalike(case, how, rng)
        objs = CG.build_targets(lc)
    except Exception:  # noqa: BLE001 - a perturbed spec may be unbuildable; that is not this property's business
        ctx.bump("lookalike.unbuildable")
        return
    ctx.bump("lookalike.objects." + how, len(objs))
    paths = [p for p in objs if p in cats]
    for _ in range(rng.randint(3, 10)):
        if not paths:
            break
        p = rng.choice(paths)
        hot = [a for a in cats[p] if a.hot]
        acc = rng.choice(hot) if hot and rng.random() < 0.7 else rng.choice(cats[p])
        ask(objs[p], acc)
        ctx.bump("lookalike.questions")


def lookalike_parents(ctx, case, rng):
    makers = CG.lookalike_parents(case)
    rng.shuffle(makers)
    for mk in makers[: rng.randint(4, len(makers))]:
        try:
            p = mk()
            _ = (p.strand, p.id, p.sequence_type, hash(p), repr(p))
            ctx.bump("lookalike.parents")
        except Exception:  # noqa: BLE001
            ctx.bump("lookalike.parents-refused")


# --------------------------------------------------------------------------------------------------------------
# workload
# --------------------------------------------------------------------------------------------------------------
def setup(ctx):
    from bcv import core

    core.codon_storm(ctx)


def selftest():
    from bcv.core import HarnessError

    try:
        PM.selftest()
        SM.selftest()
    except AssertionError as e:
        raise HarnessError(f"model self-test: {e!r}")
    from inscripta.biocantor.gene import CDSInterval, CDSFrame, TranscriptInterval
    from inscripta.biocantor.location import Strand
    from inscripta.biocantor.location.location_impl import SingleInterval, CompoundInterval
    from inscripta.biocantor.parent import Parent
    from inscripta.biocantor.sequence import Sequence, Alphabet

    # documented behaviour the normaliser relies on (README / docstrings): a Sequence is not its string, locations with
    # the same blocks on different strands / parents differ, UUIDs and enums keep their type
    s = Sequence("ACGT", Alphabet.NT_STRICT)
    if norm(s) == norm("ACGT") or top_type(norm(s)) != "Sequence" or top_type(norm("ACGT")) != "str":
        raise HarnessError("normaliser does not separate Sequence from str")
    a, b = SingleInterval(0, 4, Strand.PLUS), SingleInterval(0, 4, Strand.MINUS)
    c = SingleInterval(0, 4, Strand.PLUS, parent=Parent(id="p", sequence=s))
    if norm(a) == norm(b) or norm(a) == norm(c) or norm(a) != norm(SingleInterval(0, 4, Strand.PLUS)):
        raise HarnessError("normaliser: location identity")
    if norm(CompoundInterval([0, 5], [3, 7], Strand.PLUS))[1] != [[0, 3, "+"], [5, 7, "+"]]:
        raise HarnessError("normaliser: blocks")
    if norm(c.extract_sequence())[1] != "ACGT" or norm(iter([1, 2]))[1] != [["int", 1], ["int", 2]]:
        raise HarnessError("normaliser: sequence / iterator")
    if norm({"b": {2, 1}, "a": [1.0]}) != ["dict", [[["str", "a"], ["list", [["float", "1.0"]]]], [["str", "b"], ["set", [["int", 1], ["int", 2]]]]]]:
        raise HarnessError("normaliser: containers")
    if norm("<x object at 0x7f00deadbeef>") != norm("<x object at 0x7f11deadbe00>"):
        raise HarnessError("normaliser: addresses")
    # the snapshot must see a mutation done by hand
    t = TranscriptInterval([0], [9], Strand.PLUS, qualifiers={"k": ["v"]})
    s0 = snapshot(t)
    if snapshot(t) != s0:
        raise HarnessError("snapshot not reproducible")
    t.qualifiers["k"].add("w")
    if "qualifiers" not in diff_fields(s0, snapshot(t)) or "to_dict" not in diff_fields(s0, snapshot(t)):
        raise HarnessError("snapshot blind to a grown qualifier set")
    # the catalogue must contain the memoised members (methodtools wrappers unwrapped)
    cds = CDSInterval([0], [9], Strand.PLUS, [CDSFrame.ZERO])
    names = {x.name for x in CG.auto_catalogue(cds)}
    need = {"extract_sequence()", "chunk_relative_codon_locations", "chromosome_codon_locations", "translate()", "has_in_frame_stop",
            "chromosome_location", "qualifiers", "guid", "to_dict()", "to_gff()", "export_qualifiers()", "has_valid_stop"}
    if not need <= names:
        raise HarnessError(f"accessor discovery misses {sorted(need - names)}")
    if names & set(CG.DENY) or any(n.startswith("_") for n in names):
        raise HarnessError("accessor discovery leaks private / denied members")


def shards(tier, seed):
    return [{"i": i, "n": 16} for i in range(16)]


def cases(spec, ctx):
    rng = ctx.rng
    sc = SCOPE[ctx.tier]
    plan = []
    for kind, n in sc["roots"].items():
        plan += [kind] * n
    rng.shuffle(plan)
    for kind in plan:
        if kind == "loc":
            c = CG.rand_loc_case(rng)
        elif kind == "seq":
            c = CG.rand_seq_case(rng)
        elif kind == "codon":
            c = CG.rand_codon_case(rng)
        elif kind == "coll" and rng.random() < 0.5:
            c = CG.rand_exportable_collection_case(rng)
        else:
            c = CG.rand_gene_layer_case(rng, kind)
        c["hseed"] = rng.randrange(1 << 40)
        c["nh"] = sc["NH"]
        grp = "coll" if kind == "coll" else ("mid" if kind in ("gene", "fcoll", "vcoll") else "leaf")
        c["qcap"] = sc["qcap"][grp]
        c["opcap"] = sc["opcap"][grp]
        yield c
    prng = random.Random(f"C10-pcache:{ctx.seed}:{spec['i']}")
    for _ in range(sc["pcache"]):
        yield rand_pcache_case(prng)


# --------------------------------------------------------------------------------------------------------------
# parent-cache ancestry leg: two hierarchies that share their upper levels (ids, types, placements) but differ in how far their
# ancestry reaches, built in one process in either order, with or without evictions / clears in between.  Every answer about
# ancestry (has_ancestor_of_type, lift to every type, chain depth) is known by construction (bcv.models.liftmodel).
# --------------------------------------------------------------------------------------------------------------
def rand_pcache_case(rng):
    depth = rng.choice([2, 2, 3, 4])
    n = rng.choice([200, 1000, 5000])
    levels = []
    m = n
    for _ in range(depth):
        a = rng.randint(0, m // 3)
        b = rng.randint(max(a + 8, 2 * m // 3), m)
        levels.append([[[a, b]], rng.choice("+-")])
        m = b - a
    xa = rng.randint(0, m - 2)
    xb = rng.randint(xa + 1, m)
    style = rng.choice(["kwarg-chain"] * 8 + ["location-parent"] * 3 + ["big-sequence"])
    return {"kind": "pcache", "style": style, "n": n, "levels": levels, "x": [[xa, xb]], "xstrand": rng.choice("+-"),
            "cut": rng.randint(1, depth - 1), "order": rng.choice(["deep-first", "shallow-first"]),
            "between": rng.choice(["nothing", "nothing", "evict-storm", "cache-clear"]), "ask_first": rng.random() < 0.5,
            "tag": rng.choice(["", "", "b", "c"])}


def _pcache_build(case, start):
    """kwarg-chain: levels start..depth as Parent(id, sequence_type, location=<placement of the next level>, parent=<level below>);
    the child location sits on the top level.  (The construction of the repository's own nested-Parent tests.)"""
    import inscripta.biocantor.location.location_impl  # noqa: F401
    from bcv.gen import loc as G
    from inscripta.biocantor.parent import Parent

    depth = len(case["levels"])
    tag = case["tag"]
    p = None
    for k in range(start, depth):
        blocks, strand = case["levels"][k]          # placement of level k+1 on level k
        p = Parent(id=f"P{k}{tag}", sequence_type=f"type{k}", location=G.build([tuple(b) for b in blocks], strand), parent=p)
    top = Parent(id=f"P{depth}{tag}", sequence_type=f"type{depth}", parent=p)
    return G.build([tuple(b) for b in case["x"]], case["xstrand"], parent=top)


def _pcache_build_locparent(case, extended):
    """location-parent: the innermost call of seq_chunk_to_parent, Parent(location=SingleInterval(cs, ce, strand, parent=<chromosome>)),
    with a plain chromosome Parent or one that has an ancestor of its own."""
    import inscripta.biocantor.location.location_impl  # noqa: F401
    from bcv.gen import loc as G
    from inscripta.biocantor.parent import Parent

    tag = case["tag"]
    (a, b), = case["levels"][0][0]
    chrom = (Parent(id="chr1" + tag, sequence_type="chromosome", parent=Parent(id="asm" + tag, sequence_type="assembly")) if extended
             else Parent(id="chr1" + tag, sequence_type="chromosome"))
    return Parent(location=G.build([(a, b)], case["levels"][0][1], parent=chrom))


def _pcache_observe(x, types):
    out = {}
    for t in types:
        out["has:" + t] = _ptry(lambda: x.has_ancestor_of_type(t))
        r = _ptry(lambda: x.lift_over_to_first_ancestor_of_type(t))
        if r[0] == "ok":
            rd = PM.read_location(r[1])
            r = ("ok", [[list(b) for b in rd[0]], rd[1], r[1].parent.id if r[1].parent is not None else None] if rd else "empty")
        out["lift:" + t] = list(r)
    d, q = 0, x.parent
    while q is not None:
        d, q = d + 1, q.parent
    out["depth"] = d
    return out


def _ptry(fn):
    try:
        return ("ok", fn())
    except Exception as e:  # noqa: BLE001
        return ("raised", type(e).__name__)


def run_pcache(case, ctx):
    from bcv.models import liftmodel as HM
    from inscripta.biocantor.parent import Parent

    depth = len(case["levels"])
    cut = case["cut"]
    style = case["style"]
    ctx.note(("pcache", style, depth, cut, case["order"], case["between"], case["ask_first"], tuple(st for _, st in case["levels"]), case["xstrand"]),
             nontrivial=True, klass="pcache-" + style)
    if style == "big-sequence":
        # two chromosome-sized sequences with the same id, length and ends that differ in one base in the middle, wrapped in Parents
        # in one process (either order): each Parent holds ITS sequence
        from inscripta.biocantor.sequence import Alphabet, Sequence

        n = (1 << 20) + 5 + case["cut"]
        unit = "ACGTTGCAAC"
        a = (unit * (n // len(unit) + 1))[:n]
        mid = n // 2
        bseq = a[:mid] + ("C" if a[mid] != "C" else "G") + a[mid + 1:]
        data = {"first": a, "second": bseq} if case["order"] == "deep-first" else {"first": bseq, "second": a}
        got = {}
        for k2 in ("first", "second"):
            par = Parent(id="chrBig" + case["tag"], sequence=Sequence(data[k2], Alphabet.NT_STRICT, id="chrBig" + case["tag"], type="chromosome"))
            got[k2] = str(par.sequence)[mid]
            if k2 == "first":
                _pcache_between(ctx, case)
        want = {k2: data[k2][mid] for k2 in data}
        ctx.check("hist.parent-cache", got == want, key=("big-sequence", case["order"], case["between"]), style=style, got=got, want=want, length=n)
        return
    if style == "location-parent":
        types = ["assembly", "chromosome"]
        want = {False: {"has:assembly": False, "has:chromosome": True}, True: {"has:assembly": True, "has:chromosome": True}}
        seq = [True, False] if case["order"] == "deep-first" else [False, True]
        objs = {}
        for k, ext in enumerate(seq):
            objs[ext] = _pcache_build_locparent(case, ext)
            if k == 0:
                _pcache_between(ctx, case)
        args = {ext: o.location for ext, o in objs.items()}
        for ext, o in objs.items():
            got = {"has:" + t: o.location.parent.has_ancestor_of_type(t) for t in types}
            ctx.check("hist.parent-cache", got == want[ext], key=("location-parent", "extended" if ext else "plain", case["order"]),
                      style=style, built="extended" if ext else "plain", order=case["order"], between=case["between"], got=got, want=want[ext],
                      same_object_as_other=objs[True] is objs[False],
                      constructor_args_compare_equal=bool(args[True] == args[False]), constructor_args_hash_equal=hash(args[True]) == hash(args[False]))
        return
    H = HM.Hier(case["n"], [(bl, st) for bl, st in case["levels"]])
    PX = PM.positions([tuple(b) for b in case["x"]], case["xstrand"])
    tag = case["tag"]

    def expected(start):
        out = {}
        for k in range(depth + 1):
            t = f"type{k}"
            if k < start:
                out["has:" + t] = ("ok", False)
                out["lift:" + t] = ["raised", "NoSuchAncestorException"]
            else:
                P, st = H.lift(PX, case["xstrand"], depth, k)
                out["has:" + t] = ("ok", True)
                out["lift:" + t] = ["ok", [[list(b) for b in PM.runs(P)], st, f"P{k}{tag}"]]
        out["depth"] = depth - start + 1
        return out

    types = [f"type{k}" for k in range(depth + 1)]
    seq = [0, cut] if case["order"] == "deep-first" else [cut, 0]
    objs = {}
    for k, start in enumerate(seq):
        objs[start] = _pcache_build(case, start)
        if k == 0:
            if case["ask_first"]:
                got = _pcache_observe(objs[start], types)
                _pcache_cmp(ctx, case, got, expected(start), start, "first-built, asked before the other exists")
            _pcache_between(ctx, case)
    for start in seq:
        _pcache_cmp(ctx, case, _pcache_observe(objs[start], types), expected(start), start, "both built")
    # and a third build of each after the other's entries are cached
    for start in seq:
        _pcache_cmp(ctx, case, _pcache_observe(_pcache_build(case, start), types), expected(start), start, "rebuilt after both")
    del Parent


def _pcache_between(ctx, case):
    if case["between"] == "evict-storm":
        evict_storm(ctx)
    elif case["between"] == "cache-clear":
        cache_clear(ctx, random.Random(0))


def _pcache_cmp(ctx, case, got, want, start, when):
    norm_got = {k: (list(v) if isinstance(v, tuple) else v) for k, v in got.items()}
    norm_want = {k: (list(v) if isinstance(v, tuple) else v) for k, v in want.items()}
    bad = sorted(k for k in norm_want if norm_got.get(k) != norm_want[k])
    ctx.check("hist.parent-cache", not bad, key=("kwarg-chain", "deep" if start == 0 else "shallow", case["order"], when, tuple(b.split(":")[0] for b in bad)),
              style=case["style"], hierarchy="deep" if start == 0 else f"shallow (starts at level {start})", order=case["order"], between=case["between"],
              when=when, differing=bad, got={k: norm_got.get(k) for k in bad}, want={k: norm_want[k] for k in bad})


def _pmode(case):
    return case.get("pmode") or (case.get("parent") or {}).get("mode") or "n/a"


def run_case(case, ctx):
    if case["kind"] == "pcache":
        return run_pcache(case, ctx)
    rng = random.Random(case["hseed"])
    kind = case["kind"]
    pmode = _pmode(case) + ("+cut" if case.get("cut", "whole") != "whole" else "")
    try:
        T = CG.build_targets(case)
    except Exception as e:  # noqa: BLE001 - latitude (iv)
        ctx.saw_exception(e)
        ctx.bump("root-constructor-refused." + kind)
        ctx.note(("unbuildable", kind), nontrivial=False, klass="unbuildable-" + kind)
        return

    def rebuild(path):
        return CG.build_targets(case)[path]

    cats = {p: CG.catalogue(o, case, p, rebuild) for p, o in T.items()}
    if CG.CATALOGUE_REFUSALS[0]:
        ctx.bump("catalogue.fixed-arguments-refused", CG.CATALOGUE_REFUSALS[0])
        CG.CATALOGUE_REFUSALS[0] = 0
    questions = [(p, a) for p, accs in cats.items() for a in accs]
    cut = case.get("cut", "whole")
    ctx.note(("root", kind, pmode, len(T)), nontrivial=False, klass=f"{kind}-on-{pmode}")
    if cut != "whole":
        ctx.bump("roots-on-cutting-chunk." + cut)
    if case.get("flavour") == "exportable":
        ctx.bump("roots-exportable-collection")
    ctx.bump("targets", len(T))
    for o in T.values():
        ctx.bump("targets." + type(o).__name__)

    for h in range(case["nh"]):
        _one_history(ctx, case, cats, questions, rng, h, kind, pmode)
    _ops_phase(ctx, case, cats, questions, rng, kind)
    for k, v in FALLBACKS.items():
        ctx.bump("norm-fallback." + k, v)
    FALLBACKS.clear()


def _one_history(ctx, case, cats, questions, rng, h, kind, pmode):
    from inscripta.biocantor.parent import Parent

    if rng.random() < 0.3:
        cache_clear(ctx, rng)
    A = CG.build_targets(case)
    hlen = rng.choice([5, 20, 60])
    force_evict_at = rng.randrange(hlen) if (h % 2 == 0 or rng.random() < 0.3) else -1
    first = {}
    hist = []
    evicted = False
    hotq = [q for q in questions if q[1].hot]
    for step in range(hlen):
        if step == force_evict_at:
            evicted = evict_storm(ctx) > 0 or evicted
            hist.append("<evict-storm>")
            continue
        r = rng.random()
        if kind == "codon" and r >= 0.5:
            r = 0.8  # the registry of codons is the only state: construct look-alike codons often
        if r < 0.78:
            p, acc = rng.choice(hotq) if hotq and rng.random() < 0.5 else rng.choice(questions)
            ans = ask(A[p], acc)
            first.setdefault((p, acc.name), ans)
            hist.append(f"{p}:{acc.name}")
        elif r < 0.88:
            lookalike_objects(ctx, case, cats, rng)
            hist.append("<lookalike-objects>")
        elif r < 0.94:
            lookalike_parents(ctx, case, rng)
            hist.append("<lookalike-parents>")
        elif r < 0.98:
            cache_clear(ctx, rng)
            hist.append("<cache-clear>")
        else:
            evicted = evict_storm(ctx) > 0 or evicted
            hist.append("<evict-storm>")
    ctx.bump("histories")
    ctx.bump("history-steps", hlen)
    _anchor(ctx, case, A, "after-history")

    cap = case["qcap"]
    if len(questions) > cap:
        hot = [q for q in questions if q[1].hot]
        rng.shuffle(hot)
        rest = [q for q in questions if not q[1].hot]
        rng.shuffle(rest)
        qs = hot[: (2 * cap) // 3]
        qs += rest[: cap - len(qs)]
    else:
        qs = list(questions)
    rng.shuffle(qs)
    bucket = {5: "short", 20: "medium", 60: "long"}[hlen]
    for p, acc in qs:
        a = ask(A[p], acc)
        if rng.random() < 0.5:
            Parent.cache_clear()
        B = CG.build_targets(case)
        b = ask(B[p], acc)
        cls = type(A[p]).__name__
        ctx.note((cls, acc.name, bucket, evicted, pmode), nontrivial=True)
        if a != b:
            kindof = "exception" if "raised" in (a[0], b[0]) else ("type" if top_type(a[1]) != top_type(b[1]) else "value")
            ctx.check("hist.twin", False, key=(cls, acc.name, kindof), target=p, accessor=acc.name, cls=cls, difference=kindof,
                      after_history=short(a), fresh_twin=short(b), history=hist[-80:], history_len=len(hist), evicted=evicted,
                      equal_modulo_sequence_type_spelling=canon_sequence_type(a) == canon_sequence_type(b), full_a=_witness(a), full_b=_witness(b))
        else:
            ctx.seen("hist.twin")
        f = first.get((p, acc.name))
        if f is not None:
            if f != a:
                ctx.check("hist.repeat", False, key=(cls, acc.name), target=p, accessor=acc.name, cls=cls, first=short(f), later=short(a), history=hist[-80:],
                          equal_modulo_sequence_type_spelling=canon_sequence_type(f) == canon_sequence_type(a), full_a=_witness(f), full_b=_witness(a))
            else:
                ctx.seen("hist.repeat")
        first.setdefault((p, acc.name), a)
    _anchor(ctx, case, A, "after-questions")


# --------------------------------------------------------------------------------------------------------------
# spec anchor
# --------------------------------------------------------------------------------------------------------------
def _q(spec):
    return {k: {str(x) for x in v} for k, v in (spec.get("qualifiers") or {}).items()}


def _anchor(ctx, case, objs, when):
    kind = case["kind"]
    if kind == "codon":
        o = objs["."]
        ctx.check("hist.anchor", str(o) == case["codon"].upper(), key=("Codon", "str"), got=str(o), want=case["codon"].upper())
        return
    if kind == "seq":
        o = objs["."]
        ctx.check("hist.anchor", str(o) == case["data"] and o.id == case["id"] and o.sequence_type == case["type"] and o.alphabet.name == case["alphabet"],
                  key=("Sequence", "fields"), got=[str(o), o.id, o.sequence_type], want=[case["data"], case["id"], case["type"]])
        return
    if kind == "loc":
        for path, blocks, strand in ((".", case["blocks"], case["strand"]), ("other", case["other"], case["ostrand"])):
            o = objs[path]
            got = sorted([b.start, b.end] for b in o.blocks)
            ok = got == sorted(blocks) and o.strand.to_symbol() == strand and len(o) == sum(e - s for s, e in blocks)
            ctx.check("hist.anchor", ok, key=(type(o).__name__, "blocks/strand"), target=path, got=[got, o.strand.to_symbol()], want=[sorted(blocks), strand], when=when)
            if all(e > s for s, e in blocks):
                # without empty blocks "some base is covered twice" is what the documented flag says (a SingleInterval never overlaps itself)
                want_ov = PM.self_overlapping([tuple(b) for b in blocks])
                ctx.check("hist.anchor", o.is_overlapping is want_ov, key=(type(o).__name__, "is_overlapping"), target=path, got=o.is_overlapping, want=want_ov,
                          blocks=blocks, when=when)
            if case["pmode"] in ("seq", "chunk") and strand != "." and not PM.self_overlapping([tuple(b) for b in blocks]) and len(o) > 0:
                g = case["genome"] if case["pmode"] == "seq" else case["genome"][case["window"][0]:case["window"][1]]
                want = SM.extract(PM.positions([tuple(b) for b in blocks], strand), strand, g)
                got_s = _safe(lambda: str(o.extract_sequence()))
                ctx.check("hist.anchor", got_s == want, key=(type(o).__name__, "sequence"), target=path, got=got_s, want=want, when=when)
        return
    subs = CG.subspecs(case)
    par = case["parent"]
    for path, (sk, spec) in subs.items():
        o = objs.get(path)
        if o is None:
            continue  # e.g. a CDS sliced away by the chunk
        cls = type(o).__name__
        want, got = {}, {}
        if sk in ("tx", "cds", "feat"):
            blocks = spec["cds"] if sk == "cds" else spec["exons"] if sk == "tx" else spec["blocks"]
            want["blocks"] = sorted([list(b) for b in blocks])
            got["blocks"] = _try(lambda: sorted([b.start, b.end] for b in o.chromosome_location.blocks))
            want["strand"] = spec["strand"]
            got["strand"] = _safe(lambda: o.strand.to_symbol())
            want["span"] = [min(b[0] for b in blocks), max(b[1] for b in blocks)]
            got["span"] = [o.start, o.end]
            if sk != "cds":
                want["qualifiers"] = norm(_q(spec))
                got["qualifiers"] = norm(o.qualifiers)
                if spec.get("guid"):
                    want["guid"] = spec["guid"]
                    got["guid"] = str(o.guid)
            if sk == "tx":
                want["ids"] = [spec.get("transcript_id"), spec.get("transcript_symbol"), spec.get("protein_id")]
                got["ids"] = [o.transcript_id, o.transcript_symbol, o.protein_id]
            if sk == "feat":
                want["ids"] = [spec.get("feature_name"), spec.get("feature_id")]
                got["ids"] = [o.feature_name, o.feature_id]
            if sk == "cds":
                want["frames"] = [int(f) for f in spec["frames"]]
                got["frames"] = _try(lambda: [f.value for f in o.frames])
            inside = par["mode"] == "chrom" or (par["mode"] == "chunk" and all(par["window"][0] <= s and e <= par["window"][1] for s, e in blocks))
            if inside and sk != "cds":
                want["spliced"] = SM.extract(PM.positions([tuple(b) for b in blocks], spec["strand"]), spec["strand"], par["genome"])
                got["spliced"] = _safe(lambda: str(o.get_spliced_sequence()))
        elif sk == "var":
            want.update(span=[spec["start"], spec["end"]], seq=spec["sequence"], vtype=spec["variant_type"], qualifiers=norm(_q(spec)))
            got.update(span=[o.start, o.end], seq=_safe(lambda: str(o.sequence)), vtype=_safe(lambda: o.variant_type), qualifiers=norm(o.qualifiers))
        elif sk == "gene":
            want.update(ids=[spec.get("gene_id"), spec.get("gene_symbol"), spec.get("locus_tag")], qualifiers=norm(_q(spec)), n=len(spec["transcripts"]),
                        span=[min(b[0] for t in spec["transcripts"] for b in t["exons"]), max(b[1] for t in spec["transcripts"] for b in t["exons"])])
            got.update(ids=[o.gene_id, o.gene_symbol, o.locus_tag], qualifiers=norm(o.qualifiers), n=len(o.transcripts), span=[o.start, o.end])
            if spec.get("guid"):
                want["guid"], got["guid"] = spec["guid"], str(o.guid)
        elif sk == "fcoll":
            want.update(ids=[spec.get("feature_collection_name"), spec.get("feature_collection_id"), spec.get("locus_tag")], qualifiers=norm(_q(spec)),
                        n=len(spec["features"]))
            got.update(ids=[o.feature_collection_name, o.feature_collection_id, o.locus_tag], qualifiers=norm(o.qualifiers), n=len(o.feature_intervals))
        elif sk == "vcoll":
            want.update(qualifiers=norm(_q(spec)), n=len(spec["variants"]), spans=sorted([v["start"], v["end"]] for v in spec["variants"]))
            got.update(qualifiers=norm(o.qualifiers), n=len(o.variant_intervals), spans=sorted([v.start, v.end] for v in o.variant_intervals))
        elif sk == "coll":
            want.update(ids=[spec.get("name"), spec.get("id"), spec.get("sequence_name")], qualifiers=norm(_q(spec)),
                        n=[len(spec.get("genes", [])), len(spec.get("fcolls", [])), len(spec.get("vcolls", []))])
            got.update(ids=[o.name, o.id, o.sequence_name], qualifiers=norm(o.qualifiers), n=[len(o.genes), len(o.feature_collections), len(o.variant_collections)])
            if spec.get("start") is not None:
                want["span"], got["span"] = [spec["start"], spec["end"]], [o.start, o.end]
        bad = [k for k in want if want[k] != got.get(k)]
        ctx.check("hist.anchor", not bad, key=(cls, tuple(bad)), target=path, cls=cls, fields=bad, got={k: got.get(k) for k in bad},
                  want={k: want[k] for k in bad}, when=when)


# --------------------------------------------------------------------------------------------------------------
# operand immutability
# --------------------------------------------------------------------------------------------------------------
def _ops_phase(ctx, case, cats, questions, rng, kind):
    T = _types()
    O = CG.build_targets(case)
    W = CG.build_targets(case)
    snaps = {p: snapshot(o) for p, o in O.items()}
    cap = case["opcap"]
    qs = list(questions)
    rng.shuffle(qs)
    if len(qs) > cap:
        hot = [q for q in qs if q[1].hot or q[1].mkargs]
        rest = [q for q in qs if not (q[1].hot or q[1].mkargs)]
        qs = hot[: (2 * cap) // 3]
        qs += rest[: cap - len(qs)]
        rng.shuffle(qs)
    done = []
    for p, acc in qs:
        try:
            args = acc.mkargs() if acc.mkargs else {}
        except Exception:  # noqa: BLE001 - the library refuses to build the argument (e.g. a window outside the parent): nothing to call
            ctx.bump("ops.argument-unbuildable")
            continue
        args_before = {k: (norm(v) if isinstance(v, dict) else snapshot(v)) for k, v in args.items()}
        res = ask(O[p], acc, args)
        done.append(f"{p}:{acc.name}")
        ctx.bump("ops.calls")
        if res[0] == "raised":
            ctx.bump("ops.calls-that-raised")
        acls = type(O[p]).__name__
        for tp, o in O.items():
            after = snapshot(o)
            if after != snaps[tp]:
                fields = diff_fields(snaps[tp], after)
                role = "self" if tp == p else ("root" if tp == "." else "relative")
                ctx.check("ops.operand-unchanged", False, key=(acls, acc.name, type(o).__name__, role, tuple(fields)), operation=f"{p}:{acc.name}", operand=tp,
                          operand_cls=type(o).__name__, role=role, fields=fields, before={k: short(snaps[tp].get(k), 300) for k in fields},
                          after={k: short(after.get(k), 300) for k in fields}, earlier_operations=done[-40:])
                snaps[tp] = after
            else:
                ctx.seen("ops.operand-unchanged")
        for k, v in args.items():
            now = norm(v) if isinstance(v, dict) else snapshot(v)
            ctx.check("ops.argument-unchanged", now == args_before[k], key=(acls, acc.name, k), operation=f"{p}:{acc.name}", argument=k,
                      before=short(args_before[k], 400), after=short(now, 400))
        ctx.seen("ops.argument-unchanged", 0)
    for tp, o in O.items():
        if isinstance(o, (T.Location, T.AbstractInterval)) or type(o) in (T.Sequence, T.Parent):
            eq = _safe(lambda: (o == W[tp]) and (W[tp] == o) and not (o != W[tp]))
            hs = _safe(lambda: hash(o) == hash(W[tp]))
            ok = (eq is True and hs is True) or (isinstance(eq, str) and isinstance(hs, str))  # both refuse alike (e.g. empty unbounded collection)
            if isinstance(eq, str) or isinstance(hs, str):
                # a refusal must not depend on history either: ask two untouched twins
                w1, w2 = CG.build_targets(case)[tp], CG.build_targets(case)[tp]
                ok = _safe(lambda: w1 == w2) == eq and _safe(lambda: hash(w1) == hash(w2)) == hs
            ctx.check("ops.equal-to-twin", ok, key=(type(o).__name__, "eq" if eq is not True else "hash"), target=tp, cls=type(o).__name__, eq=eq, hash_equal=hs,
                      operations=done[-60:])


def classify(v):
    """Mechanistic classifier of the one finding that may be recorded rather than repaired (see the final report):

    K-parent-cache-sequence-type-spelling: "chromosome" and SequenceType.CHROMOSOME compare AND hash equal, so the two spellings
    share one entry of the lru_cache around Parent / _unique_value_or_none; whichever spelling was cached first is what
    `sequence_type` / `parent_type` / repr report afterwards.  Recognised by re-deriving it from the witness: the two answers
    are both regular answers and become identical once every SequenceType member is replaced by its string value (and they
    are not identical before).  Any other difference - another value, another exception - stays a violation."""
    d = v.get("detail") or {}
    if v.get("monitor") == "hist.parent-cache":
        # K43: the memoised call Parent(location=<SingleInterval L>) is looked up by equality of L; SingleInterval.__hash__ digests
        # only the parent's id and __eq__ goes through Parent.__eq__, which tolerates an ancestor chain that only one side has -
        # so two such calls whose locations differ only in the ancestry of their parent share one cache entry.  Recognised from
        # the witness: this call site, and the two constructor arguments compare equal and hash equal although built differently.
        if d.get("style") == "location-parent" and d.get("constructor_args_compare_equal") is True and d.get("constructor_args_hash_equal") is True:
            return "K43-parent-cache-merges-locations-whose-parents-differ-only-in-ancestry"
        return None
    if v.get("monitor") not in ("hist.twin", "hist.repeat"):
        return None
    a, b = d.get("full_a"), d.get("full_b")
    if isinstance(a, str) and isinstance(b, str):
        import json

        a, b = json.loads(a), json.loads(b)
        same = a != b and canon_sequence_type(a) == canon_sequence_type(b)
    else:
        same = d.get("equal_modulo_sequence_type_spelling") is True
    if same and d.get("difference", "value") in ("value", "type"):
        return "K-parent-cache-sequence-type-spelling"
    return None
