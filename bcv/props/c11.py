"""C11  GFF3 export is well-formed and gene models survive export -> parse.

Leg 1 (syntax, independent reader bcv.models.gff3reader - no BioCantor / gffutils code) on the text written by
`collection_to_gff3`, for every export mode of a case (chromosome parent with / without FASTA section, no parent,
sequence-chunk parent in chromosome coordinates, sequence-chunk parent in chunk-relative coordinates with / without FASTA):
  gff.columns        header line, nine tab-separated columns, decimal 1 <= start <= end, strand symbol, phase column shape,
                     column 1 == sequence name of the collection
  gff.structure      the rows of the file are exactly the rows of the source model (gene > transcript > exon/CDS,
                     biological_region > feature_interval > subregion), every Parent wired to the structural parent
  gff.coords         start/end == source block.start + 1 / block.end (minus the chunk start in chunk-relative mode);
                     gene / transcript / collection rows span their children
  gff.strand         strand symbol == source strand
  gff.phase          '.' on every non-CDS row, (3 - frame) % 3 on CDS rows (frames as ints, bcv.models.framemodel convention)
  gff.unique-ids     no ID twice in the file
  gff.parent-earlier every Parent value is an ID defined on an EARLIER line
  gff.sorted         rows ordered by start (per sequence)
  gff.reserved-attrs ID / Name / Parent are never emitted from qualifiers: with raise_on_reserved_attributes=True the export
                     is refused with GFF3ExportException, with False the row carries only its structural ID/Parent/Name
  gff.attr-decode    attribute syntax (tag=value;..., escapes well formed) and: every source qualifier key/value and
                     identifier of the row's object is present and percent-decodes to the source text; every emitted
                     key/value decodes to source text of the object or of an ancestor (the writer copies qualifiers down)
  gff.fasta          with add_sequences: '##sequence-region <seqid> 1 <len>' and one FASTA record per sequence whose id is the
                     seqid used in column 1 and whose residues are the source sequence; without: no FASTA section
Leg 2 (library) parses the file back with parse_standard_gff3 / parse_gff3_embedded_fasta (temp file under
bcv.env.workdir(), removed) and compares per gene:
  reparse.parses       the parser accepts BioCantor's own output and returns one record per sequence, one gene per gene
  reparse.structure    exons, CDS blocks, frames, strand of every transcript
  reparse.identifiers  gene id / symbol / locus tag / biotype, transcript id / symbol / biotype, protein id, product
  reparse.qualifiers   other qualifiers (keys up to the documented lower-casing; values as sets)
  reparse.sequence     FASTA section present: the record carries the sequence and the rebuilt collection / a spliced
                       transcript read the source residues
  reparse.reexport     collection_to_gff3 of the parsed result reproduces the gene-model rows of the file

Latitude (DESIGN C11-L)
  * a comma inside a value (qualifier or identifier written as a qualifier) is the documented value separator: the model
    compares comma-split pieces; generated values never contain an empty piece (an empty value is documented to be written
    as 'nan').  Leg 2 never sees ',' or '"' (third-party reader), nor keys that differ only by case.
  * keys: non-reserved keys are lower-cased by the writer ("handles fixing case"), the seven GFF3-reserved tags (Note, Dbxref..)
    keep their case: a row key is accepted as the source key itself or its lower-cased form.
  * gene and biological_region rows: the documented strand of these aggregates is plus; '+', '.', or the common strand of all
    children are accepted.  Exon / subregion rows need not repeat their parent's qualifiers (nothing is demanded of them
    beyond wiring, coordinates, strand), but whatever they carry must decode to source text.
  * fields that are None in the source may be defaulted by the parser (transcript_id / transcript_symbol <- locus tag,
    transcript biotype <- gene biotype, gene_id <- row ID, biotype 'unspecified' -> provided_biotype qualifier): compared only
    when set.  Transcript qualifiers after re-parse: own <= parsed <= own + gene + identifier keys; gene: own <= parsed <= own +
    identifier keys.  is_primary_tx is not part of the property.  Qualifier keys ID/Name/Parent are documented to be deleted.
  * feature collections are checked by leg 1 only (the property's parse leg speaks of genes; the parser documents that it
    merges the sub-rows of a feature).  reparse.reexport compares gene / transcript / exon / CDS rows as multisets with
    ID / Parent replaced by the content of the parent row, only for models whose identifier fields are all set, and only when
    the parse leg found no difference for that file (otherwise the difference is already reported once).
  * chunk parents: only windows containing every member (a window cutting a member is C07's subject).  In chunk-relative
    mode the frames of a CDS may be the uninterrupted frame that starts with the 5' block's frame instead of the annotated
    vector (CDSInterval.chunk_relative_frames documents that programmed-frameshift annotation is lost there).
  * a feature collection whose members lie on both strands makes the parser refuse the whole file with its documented
    GFF3ChildParentMismatchError (it folds the members into one interval): counted (counters.parser-refused-mixed-strand-
    feature-collection), not an alarm - the parse leg of the property is about genes; 90 % of the re-parse cases keep the
    members of a feature collection on one strand so that the genes of those files are compared.
  * Name is optional in GFF3: when a row carries it, it must be the display name of the row's object.

Findings on the unchanged tree (see classify(); repairs in /verif/proposed_fixes/C11-*.diff)
  F7  transcript biotype read from the gene row        F9  user keys with an identifier prefix dropped on re-parse
  F16 chunk-relative FASTA record named 'name:start-end' (own parser: KeyError)
  K4  percent-encoded keys come back encoded (optional repair)      K41 transcripts with identical CDS share CDS row IDs
  K13 (known from C05) reached through chunk_relative_frames
"""
import io
import os
import re
import uuid

from bcv.gen import genes as GG
from bcv.models import framemodel as FM
from bcv.models import gff3reader as R
from bcv.models import posmodel as PM
from bcv.models import seqmodel as SM

ID = "C11"
LEVEL = "exploration"
EXHAUSTIVE = False
RULE = (
    "seeded random annotation collections (1..4 genes of 1..3 isoforms, 1..4 exons, coding with start offsets / programmed "
    "frameshifts / 0-bp-gap blocks and non-coding, both strands, 0..2 feature collections, isoforms sharing one CDS, fields set "
    "to None, transcript biotype != gene biotype) on 60..400 bp sequences; qualifier keys, values and identifier fields drawn from "
    "a hostile alphabet (; = % tab LF CR space > & ' \" , + # \\ unicode, text that looks like an escape, leading/trailing blanks, "
    "reserved-prefix keys, GFF3-reserved tags, ID/Name/Parent keys); each collection exported in 1..3 of the modes {chromosome, "
    "chromosome+FASTA, no parent, chunk parent in chromosome coordinates, chunk-relative, chunk-relative+FASTA, two sequences}; "
    "one export per re-parse case is parsed back.  Signature = (per gene: strand, per transcript exon count / CDS block count / "
    "frames / adjacency; feature block counts; hostile character classes present; None-field pattern; export modes); non-trivial "
    "= some transcript is multi-exon, coding or minus-strand, or a hostile character is present."
)
SCOPE = {"quick": {"N": 9600}, "thorough": {"N": 48000}}
FLOOR = {"quick": 1500, "thorough": 15000}
_SYNTAX = ["gff.repeatable", "gff.columns", "gff.structure", "gff.coords", "gff.strand", "gff.phase", "gff.unique-ids", "gff.parent-earlier", "gff.sorted",
           "gff.reserved-attrs", "gff.attr-decode", "gff.fasta"]
_LIB = ["reparse.parses", "reparse.structure", "reparse.identifiers", "reparse.qualifiers", "reparse.sequence", "reparse.reexport"]
REQUIRED_MONITORS = _SYNTAX + _LIB
_P = "inscripta.biocantor."
REACH = [   # gene.* first: importing io.gff3.rows before inscripta.biocantor.gene runs into the package's import cycle
    _P + "gene.collections:AnnotationCollection.to_gff", _P + "gene.gene:GeneInterval.to_gff", _P + "gene.transcript:TranscriptInterval.to_gff",
    _P + "gene.cds:CDSInterval.to_gff", _P + "gene.feature:FeatureInterval.to_gff", _P + "gene.feature:FeatureIntervalCollection.to_gff",
    _P + "gene.cds_frame:CDSFrame.to_phase",
    _P + "io.gff3.rows:GFFAttributes.__str__", _P + "io.gff3.rows:GFFAttributes.escape_key", _P + "io.gff3.rows:GFFAttributes.escape_value",
    _P + "io.gff3.rows:GFFRow.__str__", _P + "io.gff3.writer:collection_to_gff3",
    _P + "io.gff3.parser:_parse_genes", _P + "io.gff3.parser:_convert_features_to_transcript", _P + "io.gff3.parser:filter_and_sort_qualifiers",
    _P + "io.gff3.parser:parse_standard_gff3", _P + "io.gff3.parser:parse_gff3_embedded_fasta", _P + "io.gff3.parser:extract_seqrecords_from_gff3_fasta",
]
REACH_REQUIRED = REACH
ASSUMPTIONS = [
    "oracle leg 1: bcv/models/gff3reader.py (GFF3 spec 1.26: nine columns, RFC 3986 percent-decoding of tags and values, unescaped comma "
    "separates values), self-tested on the specification's canonical gene and one broken file per invariant",
    "expected rows are integer / string arithmetic on the JSON case (block.start + 1, block.end, (3 - frame) % 3, comma-split source text)",
    "leg 2 goes through gffutils (sqlite db per file) inside BioCantor's parser; ',' and '\"' are kept out of that leg",
    "parents are built with io.parser.seq_to_parent / seq_chunk_to_parent as documented; chunk windows contain every member",
]
WATCHDOG = {"quick": 1800, "thorough": 4 * 3600}

GENE_TYPES = ("gene", "transcript", "exon", "CDS")
GFF3_RESERVED = ["Alias", "Target", "Dbxref", "Gap", "Derives_from", "Note", "Ontology_term"]
STRUCTURAL = ("ID", "Name", "Parent")
# identifier keys the writer adds / the parser consumes (never generated as user qualifier keys; compared case-insensitively)
IDENT_KEYS = {"gene_id", "gene_name", "gene_symbol", "gene_biotype", "gene_type", "gene", "locus_tag", "transcript_id", "transcript_name",
              "transcript_biotype", "transcript_type", "protein_id", "product", "feature_id", "feature_name", "feature_symbol", "feature_type",
              "feature_collection_name", "feature_collection_id", "feature_collection_type", "feature_colletion_type", "id", "name", "parent",
              "provided_biotype", "provided_transcript_biotype"}
# the alternation of io/gff3/constants.BIOCANTOR_QUALIFIERS_REGEX, transcribed (used by classify() only, to name the mechanism)
REGEX_PREFIXES = ("gene_name", "gene_symbol", "protein_id", "gene_type", "ID", "gene_id", "feature_collection_name", "transcript_biotype",
                  "feature_collection_id", "gene_biotype", "feature_colletion_type", "Parent", "name", "transcript_type", "transcript_id",
                  "feature_collection_type", "locus_tag", "Name", "id", "transcript_name", "product", "feature_name", "feature_type", "parent",
                  "feature_id", "feature_symbol", "feature_collection_name", "transcript_name")
MUST_ESCAPE = "\t;=\n\r> %"          # the characters of ENCODING_MAP (constants.py docstring: "we escape equals, semicolon, whitespace, > ... %")
_PREFIX_RE = re.compile("(?:%s)." % "|".join(sorted(set(REGEX_PREFIXES), key=len, reverse=True)), re.S)
PREFIX_KEYS = ["identity", "idx", "name_like", "product2", "parental", "gene_idx", "locus_tagged", "named", "ids", "products", "transcript_idx"]
PLAIN_KEYS = ["note", "evidence", "db_xref", "function", "colour", "score", "my_key", "MyKey", "UPPER", "ec_number", "inference", "x"]
_HOSTILE = [";", "=", "%", "\t", "\n", "\r", " ", ">", "&", "'", "+", "#", "\\", "<", "|", "é", "中", "ß", "😀", "Ω", "%3B", "%25", "%2C", "%zz", "nan", "=;"]
_FILL = "abcXYZ019_-.:/()"


def setup(ctx):
    from bcv import core

    core.codon_storm(ctx)


def selftest():
    from bcv.core import HarnessError

    try:
        R.selftest()
        FM.selftest()
        PM.selftest()
        SM.selftest()
        assert pieces("a,b") == {"a", "b"} and pieces(5) == {"5"} and pieces(True) == {"True"}
        # escaping rule of the documentation (test_gff3_attributes.py: 'key1=a%3D1,a%3Ea,b,2,newline%0Anewline,...')
        a, msgs = R.parse_attributes("ID=abc%2C123;Parent=parent1%2Cparent2;Name=myname;key1=a%3D1,a%3Ea,b,2,newline%0Anewline,semi%3Bcolon,space%20space,tab%09tab")
        assert msgs == [] and a["ID"] == ["abc,123"] and set(a["key1"]) == {"a=1", "a>a", "b", "2", "newline\nnewline", "semi;colon", "space space", "tab\ttab"}
        spec = {"genes": [{"transcripts": [{"exons": [[10, 20], [30, 40]], "strand": "-", "cds": [[12, 20], [30, 35]], "frames": [1, 0],
                                            "transcript_id": "t", "transcript_symbol": None, "transcript_type": None, "protein_id": "p",
                                            "product": None, "qualifiers": {"K": ["a,b"]}}],
                           "gene_id": "g", "gene_symbol": "s", "gene_type": None, "locus_tag": None, "qualifiers": {}}], "fcolls": [], "sequence_name": "c"}
        (g,) = expected_tree(spec, 4)
        (t,) = g["children"]
        assert (g["type"], g["start"], g["end"], g["name"]) == ("gene", 7, 36, "s") and g["must"] == {"gene_id": {"g"}, "gene_name": {"s"}}
        assert [(c["type"], c["start"], c["end"], c["phases"]) for c in t["children"]] == [("exon", 7, 16, {"."}), ("exon", 27, 36, {"."}), ("CDS", 9, 16, {"2"}), ("CDS", 27, 31, {"0"})]
        assert frame_vectors({"cds": [[0, 4], [10, 14]], "strand": "+", "frames": [0, 0]}, True) == [[0, 0], [0, 1]]
        assert t["must"] == {"K": {"a", "b"}, "transcript_id": {"t"}, "protein_id": {"p"}} and t["strands"] == {"-"} and t["name"] is None
    except AssertionError as e:
        raise HarnessError(f"model self-test: {e!r}")


# ----------------------------------------------------------------------------------------------------------------
# workload
# ----------------------------------------------------------------------------------------------------------------
def _text(rng, alpha, comma):
    """A non-empty hostile string; with comma=True it may consist of several non-empty comma-separated pieces."""
    def piece():
        n = rng.choice([1, 1, 2, 3, 5, 8])
        s = "".join(rng.choice(alpha) if rng.random() < 0.55 else rng.choice(_FILL) for _ in range(n))
        if rng.random() < 0.15:
            s = rng.choice([" ", "  ", "\t"]) + s
        if rng.random() < 0.15:
            s = s + rng.choice([" ", "  ", "\t"])
        return s
    if comma and rng.random() < 0.3:
        return ",".join(piece() for _ in range(rng.randint(2, 3)))
    return piece()


def _alphabet(kind):
    if kind == "full":
        return _HOSTILE + ['"', '"']
    return list(_HOSTILE)


def _rand_key(rng, kind, used, reserved_ok):
    for _ in range(40):
        r = rng.random()
        if kind == "plain":
            k = rng.choice(PLAIN_KEYS[:7])
        elif r < 0.3:
            k = rng.choice(PLAIN_KEYS)
        elif r < 0.42:
            k = rng.choice(PREFIX_KEYS)
        elif r < 0.5:
            k = rng.choice(GFF3_RESERVED)
        elif reserved_ok and r < 0.62:
            k = rng.choice(STRUCTURAL)
        else:
            k = _text(rng, _alphabet(kind), comma=(kind == "full" and rng.random() < 0.3))
            if kind == "full" and rng.random() < 0.1:
                k += rng.choice([",", '"'])
        low = k.lower()
        if low in IDENT_KEYS and k not in STRUCTURAL:
            continue
        if k in STRUCTURAL and not reserved_ok:
            continue
        if "İ" in k or "Σ" in k:
            continue
        if used.get(low, k) != k:      # two different source keys never fold to the same tag
            continue
        used[low] = k
        return k
    return None


def _rand_values(rng, kind):
    vals = []
    for _ in range(rng.choice([1, 1, 1, 2, 3])):
        r = rng.random()
        if kind == "plain" or r < 0.3:
            vals.append(rng.choice(["v" + str(rng.randint(0, 999)), rng.randint(0, 50), rng.choice([True, False]), round(rng.random(), 3), "Mixed Case"]))
        else:
            vals.append(_text(rng, _alphabet(kind), comma=(kind == "full")))
    return vals


def _rand_quals(rng, kind, used, reserved_ok, nmax=3):
    out = {}
    for _ in range(rng.choice([0, 1, 1, 2, nmax])):
        k = _rand_key(rng, kind, used, reserved_ok)
        if k is not None:
            out[k] = _rand_values(rng, kind)
    return out


def _ident(rng, kind, base, none_prob):
    r = rng.random()
    if r < none_prob:
        return None
    if kind != "plain" and r < none_prob + 0.3:
        return _text(rng, _alphabet(kind), comma=(kind == "full" and rng.random() < 0.4)) + base[-2:]
    return base


def make_collection(rng, kind, seqname, glen, none_prob, reserved_ok, fcolls_ok, shared_cds, one_strand_fcolls=False):
    spec = GG.rand_collection_spec(rng, glen, ngenes=rng.choice([1, 1, 2, 3, 4]), nfcolls=rng.choice([0, 0, 1, 2]) if fcolls_ok else 0,
                                   seqname=seqname, qualifiers=False, max_exons=4)
    used = {}
    biotypes = GG.BIOTYPES_CODING + GG.BIOTYPES_NONCODING
    for g in spec["genes"]:
        if shared_cds and rng.random() < 0.7:
            base = next((t for t in g["transcripts"] if t["cds"]), None)
            if base is not None:
                iso = dict(base)
                ex = [list(b) for b in base["exons"]]
                lo, hi = ex[0][0], ex[-1][1]
                top = min(base["cds"][0][0], ex[0][1] - 1)
                options = (["shorter-utr"] if top > lo else []) + (["longer-last-exon"] if hi < glen else []) + (["longer-first-exon"] if lo > 0 else [])
                if options:                                                # another UTR boundary, the same CDS
                    o = rng.choice(options)
                    if o == "shorter-utr":
                        ex[0][0] = rng.randint(lo + 1, top)
                    elif o == "longer-last-exon":
                        ex[-1][1] = rng.randint(hi + 1, min(glen, hi + 6))
                    else:
                        ex[0][0] = rng.randint(max(0, lo - 6), lo - 1)
                    iso.update(exons=ex, transcript_id=base["transcript_id"] + "b", transcript_symbol=base["transcript_symbol"] + "b")
                    if rng.random() < 0.5:
                        iso["protein_id"] = base["protein_id"] + "b"
                    g["transcripts"] = g["transcripts"] + [iso]
        g["qualifiers"] = _rand_quals(rng, kind, used, reserved_ok)
        for f in ("gene_id", "gene_symbol", "locus_tag"):
            g[f] = _ident(rng, kind, g[f], none_prob)
        if rng.random() < none_prob:
            g["gene_type"] = None
        for t in g["transcripts"]:
            t["qualifiers"] = _rand_quals(rng, kind, used, reserved_ok)
            tid = t["transcript_id"]
            t["transcript_id"] = _ident(rng, kind, tid, none_prob) if rng.random() < 0.5 else tid   # mostly distinct, plain ids
            t["transcript_symbol"] = _ident(rng, kind, t["transcript_symbol"], none_prob)
            if t["cds"]:
                t["protein_id"] = _ident(rng, kind, t["protein_id"], max(none_prob, 0.2))
                t["product"] = _ident(rng, kind, t["product"], max(none_prob, 0.2))
            r = rng.random()
            if r < none_prob:
                t["transcript_type"] = None
            elif r < none_prob + (0.05 if kind == "plain" else 0.25):
                t["transcript_type"] = rng.choice(biotypes)
            elif r < none_prob + (0.8 if kind == "plain" else 0.6):
                t["transcript_type"] = g["gene_type"]
    for fc in spec["fcolls"]:
        if one_strand_fcolls:
            for f in fc["features"]:
                f["strand"] = fc["features"][0]["strand"]
        fc["qualifiers"] = _rand_quals(rng, kind, used, reserved_ok)
        for f in ("feature_collection_name", "feature_collection_id", "locus_tag"):
            fc[f] = _ident(rng, kind, fc[f], none_prob)
        if rng.random() < 0.3:
            fc["feature_collection_type"] = rng.choice(["regulatory", "mobile_element", _text(rng, _alphabet(kind), False)])
        for f in fc["features"]:
            f["qualifiers"] = _rand_quals(rng, kind, used, reserved_ok)
            f["feature_name"] = _ident(rng, kind, f["feature_name"], none_prob)
            f["feature_id"] = _ident(rng, kind, f["feature_id"], none_prob)
    # two members with identical content would be the same object twice (same computed guid): keep members distinct
    seen = set()
    for n, (o, field) in enumerate([(t, "transcript_id") for g in spec["genes"] for t in g["transcripts"]] + [(g, "gene_id") for g in spec["genes"]] +
                                   [(f, "feature_id") for fc in spec["fcolls"] for f in fc["features"]] + [(fc, "feature_collection_id") for fc in spec["fcolls"]]):
        while repr(sorted(o.items(), key=repr)) in seen:
            o[field] = f"distinct{n}"
        seen.add(repr(sorted(o.items(), key=repr)))
    return spec


_MODES = {  # name: (parent mode, chromosome_relative_coordinates, add_sequences)
    "chrom": ("chrom", True, False), "chrom+fasta": ("chrom", True, True), "noparent": ("none", True, False),
    "chrom-noseq": ("chrom-noseq", True, False), "chunk-chromcoords": ("chunk", True, False),
    "chunk-rel": ("chunk", False, False), "chunk-rel+fasta": ("chunk", False, True),
}
_REPARSE_MODES = ["chrom", "chrom+fasta", "chrom+fasta", "noparent", "chunk-rel", "chunk-rel+fasta", "chunk-chromcoords"]


def _span(spec):
    lo = min([GG.gene_span(g)[0] for g in spec["genes"]] + [GG.fcoll_span(f)[0] for f in spec["fcolls"]])
    hi = max([GG.gene_span(g)[1] for g in spec["genes"]] + [GG.fcoll_span(f)[1] for f in spec["fcolls"]])
    return lo, hi


def cases(spec, ctx):
    i, n = spec["i"], spec["n"]
    rng = ctx.rng
    total = SCOPE[ctx.tier]["N"]
    for k in range(total // n + 1):
        idx = k * n + i
        r = rng.random()
        if r < 0.30:
            profile, kind = "syntax-hostile", "full"
        elif r < 0.68:
            profile, kind = "reparse-hostile", "reparse"
        elif r < 0.80:
            profile, kind = "reparse-plain", "plain"
        elif r < 0.90:
            profile, kind = "reparse-none-fields", "reparse"
        else:
            profile, kind = "reserved-keys", rng.choice(["reparse", "full"])
        ncoll = 2 if rng.random() < 0.08 else 1
        colls = []
        for c in range(ncoll):
            glen = rng.choice([60, 120, 250, 400])
            cs = make_collection(rng, kind, seqname=["chr1", "NC_000002.11"][c] if ncoll == 2 else rng.choice(["chr1", "chrX", "contig-7|x", "NC_000913.3"]),
                                 glen=glen, none_prob={"reparse-none-fields": 0.35, "syntax-hostile": 0.1}.get(profile, 0.0),
                                 reserved_ok=(profile == "reserved-keys"), fcolls_ok=profile in ("syntax-hostile", "reserved-keys") or rng.random() < 0.25,
                                 shared_cds=rng.random() < 0.25, one_strand_fcolls=(kind != "full" and rng.random() < 0.9))
            lo, hi = _span(cs)
            colls.append({"spec": cs, "glen": glen, "gseed": rng.randrange(1 << 30), "window": [rng.randint(0, lo), rng.randint(hi, glen)]})
        if profile == "syntax-hostile":
            exports = [{"mode": m, "reparse": False} for m in rng.sample(sorted(_MODES), 3)]
        elif profile == "reserved-keys":
            exports = [{"mode": rng.choice(["chrom", "chunk-rel", "chrom+fasta"]), "reparse": kind == "reparse", "raise_reserved": False},
                       {"mode": rng.choice(["chrom", "noparent"]), "reparse": False, "raise_reserved": True}]
        else:
            exports = [{"mode": _REPARSE_MODES[idx % len(_REPARSE_MODES)] if rng.random() < 0.8 else rng.choice(_REPARSE_MODES), "reparse": True}]
            if rng.random() < 0.35:
                exports.append({"mode": rng.choice(sorted(_MODES)), "reparse": False})
        # flat layout (spec0 / meta0, spec1 / meta1): the replay store keeps at most 8 levels of nesting
        case = {"kind": profile, "exports": exports}
        for c, coll in enumerate(colls):
            case[f"spec{c}"] = coll.pop("spec")
            case[f"meta{c}"] = coll
        yield case


# ----------------------------------------------------------------------------------------------------------------
# model: expected rows of the source collection
# ----------------------------------------------------------------------------------------------------------------
def _colls(case):
    """The collections of a case: [{"spec", "glen", "gseed", "window"}]."""
    out = []
    for c in range(4):
        if f"spec{c}" in (case or {}):
            out.append(dict(case[f"meta{c}"], spec=case[f"spec{c}"]))
    return out


def pieces(v):
    """Source value -> set of GFF3 values (a comma is the documented separator)."""
    return set(str(v).split(","))


def _qual_pieces(quals, drop_structural=True):
    out = {}
    for k, vals in (quals or {}).items():
        if drop_structural and k in STRUCTURAL:
            continue          # documented: reserved for internal use, deleted from the export
        if not vals:
            continue
        s = set()
        for v in vals:
            s |= pieces(v)
        out[k] = s
    return out


def _merge(*dicts):
    out = {}
    for d in dicts:
        for k, s in d.items():
            out[k] = out.get(k, set()) | set(s)
    return out


def _idents(pairs):
    return {k: pieces(v) for k, v in pairs if v}


def _node(typ, s, e, off, strands, phase, name, must, may, children=()):
    return {"type": typ, "start": s - off + 1, "end": e - off, "strands": set(strands), "phases": {phase} if isinstance(phase, str) else set(phase), "name": name,
            "must": must, "may": _merge(may, must), "children": list(children)}


def frame_vectors(t, chunk_relative):
    """Admissible frame vectors of a coding transcript spec: the annotated one; in chunk-relative mode also the uninterrupted
    frame that starts with the 5' block's frame (documented in CDSInterval.chunk_relative_frames: 'if you are modeling a
    programmed frameshift using the Frames vector, this information will be lost')."""
    fr = [int(f) for f in t["frames"]]
    out = [fr]
    if chunk_relative:
        cons = FM.consistent_frames([list(b) for b in t["cds"]], t["strand"], fr[-1] if t["strand"] == "-" else fr[0])
        if cons != fr:
            out.append(cons)
    return out


def expected_tree(cspec, off=0, chunk_relative=False):
    """Top-level expected nodes (genes, feature collections) of one collection; off = chunk start in chunk-relative mode."""
    top = []
    for g in cspec["genes"]:
        gq = _qual_pieces(g.get("qualifiers"))
        gid = _idents([("gene_id", g.get("gene_id")), ("gene_name", g.get("gene_symbol")), ("gene_biotype", g.get("gene_type")),
                       ("locus_tag", g.get("locus_tag"))])
        gmust = _merge(gq, gid)
        gmay = _merge(gmust, {"gene_biotype": {"unspecified"}} if not g.get("gene_type") else {})
        txs = []
        strands = {t["strand"] for t in g["transcripts"]}
        for t in g["transcripts"]:
            tq = _qual_pieces(t.get("qualifiers"))
            tid = _idents([("transcript_id", t.get("transcript_id")), ("transcript_name", t.get("transcript_symbol")),
                           ("transcript_biotype", t.get("transcript_type")), ("protein_id", t.get("protein_id") if t.get("cds") else None)])
            tmust = _merge(tq, tid)
            tmay = _merge(gmay, tmust, {"transcript_biotype": {"unspecified"}} if not t.get("transcript_type") else {})
            kids = [_node("exon", s, e, off, t["strand"], ".", t.get("transcript_symbol"), {}, tmay) for s, e in t["exons"]]
            if t.get("cds"):
                cmust = _idents([("protein_id", t.get("protein_id")), ("product", t.get("product"))])
                vecs = frame_vectors(t, chunk_relative)
                for k, (s, e) in enumerate(t["cds"]):
                    kids.append(_node("CDS", s, e, off, t["strand"], {str((3 - v[k]) % 3) for v in vecs}, t.get("protein_id"), cmust, tmay))
                    kids[-1]["info"] = {"cds": t["cds"], "frames": t["frames"], "tx_strand": t["strand"]}
            s, e = GG.tx_span(t)
            txs.append(_node("transcript", s, e, off, t["strand"], ".", t.get("transcript_symbol"), tmust, tmay, kids))
        s, e = GG.gene_span(g)
        top.append(_node("gene", s, e, off, {"+", "."} | (strands if len(strands) == 1 else set()), ".", g.get("gene_symbol"), gmust, gmay, txs))
    for fc in cspec.get("fcolls", []):
        fq = _qual_pieces(fc.get("qualifiers"))
        fid = _idents([("feature_collection_id", fc.get("feature_collection_id")), ("feature_collection_name", fc.get("feature_collection_name")),
                       ("locus_tag", fc.get("locus_tag")), ("feature_collection_type", fc.get("feature_collection_type"))])
        types = set()
        for f in fc["features"]:
            types |= {str(x) for x in f.get("feature_types") or []}
        fmust = _merge(fq, fid)
        fmay = _merge(fmust, {"feature_type": types} if types else {})
        feats = []
        strands = {f["strand"] for f in fc["features"]}
        for f in fc["features"]:
            q = _qual_pieces(f.get("qualifiers"))
            i2 = _idents([("feature_name", f.get("feature_name")), ("feature_id", f.get("feature_id"))])
            own_types = {str(x) for x in f.get("feature_types") or []}
            must = _merge(q, i2, {"feature_type": own_types} if own_types else {})
            may = _merge(fmay, must)
            kids = [_node("subregion", s, e, off, f["strand"], ".", f.get("feature_name"), {}, may) for s, e in f["blocks"]]
            s, e = GG.feat_span(f)
            feats.append(_node("feature_interval", s, e, off, f["strand"], ".", f.get("feature_name"), must, may, kids))
        s, e = GG.fcoll_span(fc)
        top.append(_node("biological_region", s, e, off, {"+", "."} | (strands if len(strands) == 1 else set()), ".", fc.get("feature_collection_name"),
                         fmust, fmay, feats))
    return top


def _charclass(text):
    """Abstract class of a key / value text, for violation keys and signatures (never the text itself)."""
    t = str(text)
    out = []
    if any(c in MUST_ESCAPE for c in t):
        out.append("needs-escape")
    if "," in t:
        out.append("comma")
    if '"' in t:
        out.append("dquote")
    if any(ord(c) > 127 for c in t):
        out.append("unicode")
    if t != t.lower():
        out.append("upper")
    if _PREFIX_RE.match(t) or _PREFIX_RE.match(t.lower()):
        out.append("reserved-prefix")
    return "+".join(out) or "plain"


def _classes(texts):
    return "+".join(sorted({tok for t in texts for tok in _charclass(t).split("+")})) or "plain"


def _lookup(attrs, key):
    """Row tag that carries source key `key` (the key itself or its lower-cased form)."""
    for form in (key, key.lower()):
        if form in attrs:
            return form
    return None


def _attr_problems(exp, attrs):
    """-> list of (kind, abstract class, detail dict) for one matched row."""
    out = []
    if len(attrs.get("ID", [])) != 1 or not attrs["ID"][0]:
        out.append(("id-not-single", "plain", {"ID": attrs.get("ID")}))
    if len(attrs.get("Parent", [])) > 1:
        out.append(("parent-not-single", "plain", {"Parent": attrs.get("Parent")}))
    if "Name" in attrs and attrs["Name"] != [exp["name"]]:
        out.append(("Name", _charclass(exp["name"] or ""), {"want": exp["name"], "got": attrs.get("Name")}))
    for k, want in exp["must"].items():
        form = _lookup(attrs, k)
        if form is None:
            out.append(("missing-key", _charclass(k), {"tag": k, "row_keys": sorted(attrs)}))
        elif not want <= set(attrs[form]):
            out.append(("missing-value", _classes(want - set(attrs[form])),
                        {"tag": k, "want": sorted(want), "got": attrs[form]}))
    may = {}
    for k, s in exp["may"].items():
        for form in (k, k.lower()):
            may[form] = may.get(form, set()) | s
    for rk, vals in attrs.items():
        if rk in STRUCTURAL:
            continue
        if rk not in may:
            out.append(("unexpected-key", _charclass(rk), {"tag": rk, "values": vals, "source_keys": sorted(exp["may"])}))
        elif not set(vals) <= may[rk]:
            out.append(("unexpected-value", _classes(set(vals) - may[rk]),
                        {"tag": rk, "got": vals, "source": sorted(may[rk])}))
    return out


def _field_problems(exp, row):
    out = []
    if (row["start"], row["end"]) != (exp["start"], exp["end"]):
        out.append(("gff.coords", (exp["type"],), {"want": [exp["start"], exp["end"]], "got": [row["start"], row["end"]]}))
    if row["strand"] not in exp["strands"]:
        out.append(("gff.strand", (exp["type"],), {"want": sorted(exp["strands"]), "got": row["strand"]}))
    if row["phase"] not in exp["phases"]:
        out.append(("gff.phase", (exp["type"],), {"want": sorted(exp["phases"]), "got": row["phase"]}))
    for kind, klass, det in _attr_problems(exp, row["attrs"]):
        out.append(("gff.attr-decode", (exp["type"], kind, klass), det))
    return out


class _Matcher:
    """Pairs expected nodes with file nodes: a maximum matching over the 'deep-perfect' relation first (so a correct
    file is always recognised as correct), the rest greedily by similarity (only to word the report)."""

    def __init__(self):
        self.memo = {}

    def perfect(self, e, g):
        k = (id(e), id(g))
        if k not in self.memo:
            self.memo[k] = (e["type"] == g["row"]["type"] and not _field_problems(e, g["row"]) and len(e["children"]) == len(g["children"])
                            and len(self.pair(e["children"], g["children"])[0]) == len(e["children"]))
        return self.memo[k]

    def pair(self, exps, gots):
        """-> (perfect pairs, leftover expected, leftover got)"""
        adj = [[j for j, g in enumerate(gots) if self.perfect(e, g)] for e in exps]
        owner = {}

        def augment(i, seen):
            for j in adj[i]:
                if j in seen:
                    continue
                seen.add(j)
                if j not in owner or augment(owner[j], seen):
                    owner[j] = i
                    return True
            return False

        for i in range(len(exps)):
            augment(i, set())
        pairs = [(exps[i], gots[j]) for j, i in owner.items()]
        me = {i for i in owner.values()}
        return pairs, [e for i, e in enumerate(exps) if i not in me], [g for j, g in enumerate(gots) if j not in owner]


def _similarity(e, g):
    """Only used to word a report: which unmatched file row most likely renders this source object."""
    r = g["row"]
    a = r["attrs"]
    held = sum(1 for k, want in e["must"].items() if _lookup(a, k) is not None and want <= set(a[_lookup(a, k)]))
    return (e["type"] == r["type"], held + 2 * (e["name"] is not None and a.get("Name") == [e["name"]]) + (len(e["children"]) == len(g["children"])),
            -abs(r["start"] - e["start"]) - abs(r["end"] - e["end"]))


def _compare_forest(ctx, M, exps, gots, mode, depth=0):
    """Evaluates the row monitors on every expected row; reports differences with abstract keys."""
    pairs, le, lg = M.pair(exps, gots)
    for e, g in pairs:
        _count_ok(ctx, e)
    # diagnose what is left
    lg = list(lg)
    for e in le:
        cands = [g for g in lg if g["row"]["type"] == e["type"]]
        if not cands:
            ctx.check("gff.structure", False, key=("missing-row", e["type"]), mode=mode, want=_brief(e), siblings=[_brief_row(g) for g in lg][:6])
            continue
        g = max(cands, key=lambda g: _similarity(e, g))
        lg.remove(g)
        ctx.seen("gff.structure")
        probs = _field_problems(e, g["row"])
        mons = {p[0] for p in probs}
        for mon in ("gff.coords", "gff.strand", "gff.phase", "gff.attr-decode"):
            if mon not in mons:
                ctx.seen(mon)
        for mon, key, det in probs:
            ctx.check(mon, False, key=key, mode=mode, row_type=e["type"], line=g["row"]["line"], **det, **e.get("info", {}))
        _compare_forest(ctx, M, e["children"], g["children"], mode, depth + 1)
    for g in lg:
        ctx.check("gff.structure", False, key=("unexpected-row", g["row"]["type"], "top" if depth == 0 else "child"), mode=mode, got=_brief_row(g),
                  parent_type=g.get("parent_type"))


def _count_ok(ctx, e):
    for mon in ("gff.structure", "gff.coords", "gff.strand", "gff.phase", "gff.attr-decode"):
        ctx.seen(mon)
    for c in e["children"]:
        _count_ok(ctx, c)


def _brief(e):
    return {"type": e["type"], "start": e["start"], "end": e["end"], "children": [c["type"] for c in e["children"]]}


def _brief_row(g):
    r = g["row"]
    return {"type": r["type"], "start": r["start"], "end": r["end"], "line": r["line"], "children": [c["row"]["type"] for c in g["children"]]}


def _file_forest(rows):
    """File rows -> top-level nodes; children hang under the row whose ID their (first) Parent names."""
    by_id = {}
    nodes = []
    for r in rows:
        nd = {"row": r, "children": []}
        nodes.append(nd)
        for i in r["attrs"].get("ID", []):
            by_id.setdefault(i, nd)
    top = []
    for nd in nodes:
        ps = nd["row"]["attrs"].get("Parent", [])
        par = by_id.get(ps[0]) if ps else None
        if par is not None and par is not nd:
            par["children"].append(nd)
            nd["parent_type"] = par["row"]["type"]
        else:
            top.append(nd)
    return top


# ----------------------------------------------------------------------------------------------------------------
# driver
# ----------------------------------------------------------------------------------------------------------------
def _genome(coll):
    import random

    return GG.rand_genome(random.Random(f"g{coll['gseed']}"), coll["glen"])


def _source_sequence(coll, pmode):
    g = _genome(coll)
    return g[coll["window"][0]:coll["window"][1]] if pmode == "chunk" else g


def _signature(case):
    sig = []
    classes = set()
    nontrivial = False
    for coll in _colls(case):
        s = coll["spec"]
        for g in s["genes"]:
            txs = []
            for t in g["transcripts"]:
                adj = tuple(b2[0] == b1[1] for b1, b2 in zip(t["exons"], t["exons"][1:]))
                txs.append((t["strand"], len(t["exons"]), len(t["cds"] or []), tuple(t["frames"] or []), adj,
                            tuple(t.get(f) is None for f in ("transcript_id", "transcript_symbol", "transcript_type", "protein_id", "product")),
                            t.get("transcript_type") == g.get("gene_type")))
                nontrivial |= len(t["exons"]) > 1 or bool(t["cds"]) or t["strand"] == "-"
                for k, vals in (t.get("qualifiers") or {}).items():
                    classes |= {("k", _charclass(k))} | {("v", _charclass(v)) for v in vals}
                for f in ("transcript_id", "transcript_symbol", "protein_id", "product"):
                    if t.get(f):
                        classes.add(("i", _charclass(t[f])))
            for k, vals in (g.get("qualifiers") or {}).items():
                classes |= {("k", _charclass(k))} | {("v", _charclass(v)) for v in vals}
            for f in ("gene_id", "gene_symbol", "locus_tag"):
                if g.get(f):
                    classes.add(("i", _charclass(g[f])))
            sig.append((tuple(txs), tuple(g.get(f) is None for f in ("gene_id", "gene_symbol", "gene_type", "locus_tag"))))
        for fc in s["fcolls"]:
            sig.append(tuple((f["strand"], len(f["blocks"])) for f in fc["features"]))
            for o in [fc] + fc["features"]:
                for k, vals in (o.get("qualifiers") or {}).items():
                    classes |= {("k", _charclass(k))} | {("v", _charclass(v)) for v in vals}
    nontrivial |= any(c[1] != "plain" for c in classes)
    return (tuple(sig), tuple(sorted(classes)), tuple((e["mode"], e["reparse"]) for e in case["exports"])), nontrivial


def _has_reserved_keys(case):
    for coll in _colls(case):
        s = coll["spec"]
        objs = list(s["genes"]) + [t for g in s["genes"] for t in g["transcripts"]] + list(s["fcolls"]) + [f for fc in s["fcolls"] for f in fc["features"]]
        if any(k in STRUCTURAL and v for o in objs for k, v in (o.get("qualifiers") or {}).items()):
            return True
    return False


def run_case(case, ctx):
    import warnings

    sig, nontrivial = _signature(case)
    ctx.note(sig, nontrivial=nontrivial, klass=case["kind"])
    reserved = _has_reserved_keys(case)
    for exp in case["exports"]:
        ctx.bump("exports-" + exp["mode"])
        with warnings.catch_warnings():
            warnings.simplefilter("ignore")
            _one_export(case, exp, reserved, ctx)


def teardown(ctx):
    """The temp files are removed one by one; drop the (then empty) per-process scratch directory as well."""
    from bcv import env

    try:
        os.rmdir(env.workdir())
    except OSError:
        pass


def _build(case, pmode):
    colls = []
    for coll in _colls(case):
        name = coll["spec"]["sequence_name"]
        parent = GG.build_parent({"mode": pmode, "genome": _genome(coll), "seqname": name, "window": coll["window"]})
        colls.append(GG.build_collection(coll["spec"], parent))
    return colls


def _one_export(case, exp, reserved, ctx):
    from inscripta.biocantor.io.gff3.exc import GFF3ExportException
    from inscripta.biocantor.io.gff3.writer import collection_to_gff3

    mode = exp["mode"]
    pmode, chromrel, fasta = _MODES[mode]
    raise_reserved = bool(exp.get("raise_reserved", True))
    objs = _build(case, pmode)
    handle = io.StringIO()
    # `collections` is documented as an Iterable: some exports hand over a one-shot generator instead of the list
    as_gen = (len(mode) + len(objs) + sum(len(getattr(o, "genes", []) or []) for o in objs)) % 3 == 0
    _, exc = ctx.call(collection_to_gff3, (o for o in objs) if as_gen else objs, handle, add_sequences=fasta, chromosome_relative_coordinates=chromrel,
                      raise_on_reserved_attributes=raise_reserved)
    if reserved and raise_reserved:
        ctx.check("gff.reserved-attrs", isinstance(exc, GFF3ExportException), key=("refusal", type(exc).__name__ if exc else "exported"), mode=mode,
                  exc=repr(exc)[:200] if exc else None, text=None if exc else handle.getvalue()[:400])
        return
    if exc is not None:
        ctx.check("gff.columns", False, key=("export-raised", type(exc).__name__), mode=mode, exc=repr(exc)[:300])
        return
    text = handle.getvalue()
    # the same in-memory objects exported a second time with the same arguments give the same file (an export is a function of
    # its collection, not of how often it was exported)
    h2 = io.StringIO()
    _, exc2 = ctx.call(collection_to_gff3, objs, h2, add_sequences=fasta, chromosome_relative_coordinates=chromrel, raise_on_reserved_attributes=raise_reserved)
    ctx.check("gff.repeatable", exc2 is None and h2.getvalue() == text, key=("second-export-of-the-same-objects", "raised" if exc2 else "differs"), mode=mode,
              exc=repr(exc2)[:200] if exc2 else None, first_lines=len(text.splitlines()), second_lines=len(h2.getvalue().splitlines()))
    parsed = R.parse(text)
    _syntax_leg(case, exp, reserved, text, parsed, ctx)
    if exp.get("reparse"):
        _library_leg(case, exp, text, parsed, ctx)


_PROBLEM_MONITOR = {"version-header": "gff.columns", "columns9": "gff.columns", "coords": "gff.columns", "strand-symbol": "gff.columns", "phase": "gff.phase",
                    "attr-syntax": "gff.attr-decode", "unique-id": "gff.unique-ids", "parent-earlier": "gff.parent-earlier", "sorted-by-start": "gff.sorted",
                    "fasta": "gff.fasta"}


def _syntax_leg(case, exp, reserved, text, parsed, ctx):
    mode = exp["mode"]
    pmode, chromrel, fasta = _MODES[mode]
    rows = parsed["rows"]
    nrows = max(1, len(rows))
    probs = parsed["problems"]
    # ---- invariants of the format itself (reader) --------------------------------------------------------------
    for mon in ("gff.columns", "gff.unique-ids", "gff.parent-earlier", "gff.sorted"):
        ctx.seen(mon, nrows)
    for name, line, msg in probs:
        mon = _PROBLEM_MONITOR[name]
        row = next((r for r in rows if r["line"] == line), None)
        ctx.check(mon, False, key=(name, row["type"] if row else None), mode=mode, line=line, message=msg,
                  text_line=text.split("\n")[line - 1][:300] if 0 < line <= text.count("\n") + 1 else None)
    # ---- rows against the source model ---------------------------------------------------------------------------
    names = [c["spec"]["sequence_name"] for c in _colls(case)]
    ctx.check("gff.columns", all(r["seqid"] in names for r in rows), key="seqid", mode=mode, seqids=sorted({r["seqid"] for r in rows}), want=names)
    ctx.check("gff.sorted", [r["seqid"] for r in rows] == sorted(r["seqid"] for r in rows), key="sequence-order", mode=mode)
    M = _Matcher()
    for coll in _colls(case):
        off = coll["window"][0] if (pmode == "chunk" and not chromrel) else 0
        exps = expected_tree(coll["spec"], off, chunk_relative=(pmode == "chunk" and not chromrel))
        gots = _file_forest([r for r in rows if r["seqid"] == coll["spec"]["sequence_name"] and r["start"] is not None])
        _compare_forest(ctx, M, exps, gots, mode)
    # ---- reserved attributes ------------------------------------------------------------------------------------------
    if reserved:
        # structural tags only: one ID, at most one Parent, Name == the object's symbol (all checked per row above); here: no
        # row repeats a structural tag and no qualifier value leaked into one
        leaked = [r["line"] for r in rows if any(len(r["attrs"].get(t, [])) > 1 for t in STRUCTURAL) or re.search(r"(?:^|;)(ID|Name|Parent)=[^;]*;(?:.*;)?\1=", r["raw_attrs"])]
        ctx.check("gff.reserved-attrs", not leaked, key="structural-tag-repeated", mode=mode, lines=leaked[:5])
    # ---- FASTA section ----------------------------------------------------------------------------------------------------
    regions = [d.split() for _, d in parsed["directives"] if d.startswith("##sequence-region")]
    if fasta:
        want = {c["spec"]["sequence_name"]: _source_sequence(c, pmode) for c in _colls(case)}
        got = {i: s for i, s in (parsed["fasta"] or [])}
        ctx.check("gff.fasta", parsed["fasta"] is not None and sorted(got) == sorted(want), key="record-ids", mode=mode, got=sorted(got), want=sorted(want))
        ctx.check("gff.fasta", sorted(got.values()) == sorted(want.values()), key="residues", mode=mode, got_lengths=sorted(map(len, got.values())),
                  want_lengths=sorted(map(len, want.values())))
        ctx.check("gff.fasta", sorted(regions) == sorted(["##sequence-region", n, "1", str(len(s))] for n, s in want.items()), key="sequence-region",
                  mode=mode, got=regions)
    else:
        ctx.check("gff.fasta", parsed["fasta"] is None and not regions, key="no-fasta-requested", mode=mode)


# ---- leg 2 ---------------------------------------------------------------------------------------------------------------
def _qset(q):
    return {k: {str(v) for v in vals} for k, vals in (q or {}).items()}


def _own_quals(spec_quals):
    """Source qualifiers as {key: set(str values)} without the documented deletions (ID/Name/Parent)."""
    return {k: {str(v) for v in vals} for k, vals in (spec_quals or {}).items() if k not in STRUCTURAL and vals}


def _qual_check(ctx, who, own, inherited, parsed, mode, gspec=None):
    """own <= parsed <= own + inherited + identifier keys (keys up to lower-casing)."""
    parsed = _qset(parsed)
    for k, want in own.items():
        form = _lookup(parsed, k)
        if form is None:
            ctx.check("reparse.qualifiers", False, key=(who, "missing-key", _charclass(k)), mode=mode, qualifier_key=k, want=sorted(want), parsed_keys=sorted(parsed))
        else:
            ctx.check("reparse.qualifiers", want <= parsed[form], key=(who, "missing-value", _classes(want - parsed[form])),
                      mode=mode, qualifier_key=k, want=sorted(want), got=sorted(parsed[form]), parsed_form=form, source_keys=sorted(set(own) | set(inherited)))
    allowed = {}
    for d in (own, inherited):
        for k, s in d.items():
            for form in (k, k.lower()):
                allowed[form] = allowed.get(form, set()) | s
    for pk, vals in parsed.items():
        if pk.lower() in IDENT_KEYS:
            ctx.seen("reparse.qualifiers")
            continue
        if pk not in allowed:
            ctx.check("reparse.qualifiers", False, key=(who, "unexpected-key", _charclass(pk)), mode=mode, qualifier_key=pk, values=sorted(vals),
                      source_keys=sorted(set(own) | set(inherited)))
        else:
            ctx.check("reparse.qualifiers", vals <= allowed[pk], key=(who, "unexpected-value"), mode=mode, qualifier_key=pk, got=sorted(vals), source=sorted(allowed[pk]),
                      parsed_form=pk, source_keys=sorted(set(own) | set(inherited)))


def _enum_name(x):
    return None if x is None else getattr(x, "name", str(x))


def _tx_blocks(t, off):
    ex = [[s - off, e - off] for s, e in t["exons"]]
    cds = [[s - off, e - off] for s, e in t["cds"]] if t.get("cds") else None
    return ex, cds


def _greedy(sources, parsed, score):
    """Pairs source items with parsed items, best-scoring pairs first (a faithful parse pairs every item with its own image)."""
    cand = sorted(((score(s, p), -i, -j) for i, s in enumerate(sources) for j, p in enumerate(parsed)), reverse=True)
    si, pj = {}, set()
    for _, i, j in cand:
        if -i not in si and -j not in pj:
            si[-i] = -j
            pj.add(-j)
    return [(s, parsed[si[i]] if i in si else None) for i, s in enumerate(sources)], [p for j, p in enumerate(parsed) if j not in pj]


def _library_leg(case, exp, text, parsed_text, ctx):
    from inscripta.biocantor.io.gff3.parser import parse_gff3_embedded_fasta, parse_standard_gff3
    from inscripta.biocantor.io.gff3.writer import collection_to_gff3
    from bcv import env

    mode = exp["mode"]
    pmode, chromrel, fasta = _MODES[mode]
    path = os.path.join(env.workdir(), f"c11-{uuid.uuid4().hex}.gff3")
    with open(path, "w", newline="", encoding="utf-8") as fh:
        fh.write(text)
    try:
        recs, exc = ctx.call(lambda: list((parse_gff3_embedded_fasta if fasta else parse_standard_gff3)(path)))
    finally:
        os.remove(path)
    before = ctx.viol_count
    if type(exc).__name__ == "GFF3ChildParentMismatchError" and any(len({f["strand"] for f in fc["features"]}) > 1 for c in _colls(case) for fc in c["spec"]["fcolls"]):
        # documented refusal of the parser (it folds the members of a feature collection into one interval and refuses mixed
        # strands); feature collections are outside the parse leg of the property: observed, counted, not an alarm
        ctx.bump("parser-refused-mixed-strand-feature-collection")
        for mon in _LIB:
            ctx.seen(mon, 0)
        return
    if exc is not None:
        ctx.check("reparse.parses", False, key=("parser-raised", type(exc).__name__, "fasta" if fasta else "no-fasta", "chunk" if pmode == "chunk" else "chromosome"),
                  mode=mode, exc=repr(exc)[:300], fasta_ids=[i for i, _ in (parsed_text["fasta"] or [])], seqids=sorted({r["seqid"] for r in parsed_text["rows"]}))
        for mon in _LIB[1:]:
            ctx.seen(mon, 0)
        return
    by_name = {}
    for r in recs:
        by_name.setdefault(r.annotation.sequence_name, []).append(r)
    names = [c["spec"]["sequence_name"] for c in _colls(case)]
    ctx.check("reparse.parses", sorted(by_name) == sorted(names) and all(len(v) == 1 for v in by_name.values()), key="records", mode=mode,
              got=sorted(by_name), want=sorted(names))
    fully_specified = True
    for coll in _colls(case):
        spec = coll["spec"]
        rec = (by_name.get(spec["sequence_name"]) or [None])[0]
        if rec is None:
            continue
        off = coll["window"][0] if (pmode == "chunk" and not chromrel) else 0
        pgenes = list(rec.annotation.genes or [])
        ctx.check("reparse.parses", len(pgenes) == len(spec["genes"]), key="gene-count", mode=mode, got=len(pgenes), want=len(spec["genes"]))

        def gscore(g, p):
            ex = sorted(tuple(b) for t in g["transcripts"] for b in _tx_blocks(t, off)[0])
            pex = sorted((s, e) for t in p.transcripts for s, e in zip(t.exon_starts, t.exon_ends))
            return 4 * (g.get("gene_id") is not None and p.gene_id == g["gene_id"]) + 4 * (ex == pex) + (p.gene_symbol == g.get("gene_symbol")) + (
                len(p.transcripts) == len(g["transcripts"]))

        gpairs, _ = _greedy(spec["genes"], pgenes, gscore)
        for g, p in gpairs:
            if p is None:
                continue
            fully_specified &= _compare_gene(ctx, g, p, off, mode, chunk_relative=(pmode == "chunk" and not chromrel))
        # ---- sequence ---------------------------------------------------------------------------------------------
        if fasta:
            want = _source_sequence(coll, pmode)
            ctx.check("reparse.sequence", rec.seqrecord is not None and str(rec.seqrecord.seq) == want, key="seqrecord", mode=mode,
                      got_len=None if rec.seqrecord is None else len(rec.seqrecord), want_len=len(want))
            ac, exc = ctx.call(rec.to_annotation_collection)
            if exc is not None:
                ctx.check("reparse.sequence", False, key=("to_annotation_collection-raised", type(exc).__name__), mode=mode, exc=repr(exc)[:300])
            else:
                ctx.check("reparse.sequence", ac.sequence is not None and str(ac.sequence) == want, key="collection-sequence", mode=mode)
                for g, p in gpairs[:2]:
                    if p is None:
                        continue
                    t = g["transcripts"][0]
                    ex, _ = _tx_blocks(t, off)
                    wseq = SM.extract(PM.positions([tuple(b) for b in ex], t["strand"]), t["strand"], want)
                    obj = next((x for gg in ac.genes for x in gg.transcripts
                                if [[b.start, b.end] for b in x.chromosome_location.blocks] == ex and x.strand.to_symbol() == t["strand"]), None)
                    if obj is not None:
                        s, exc = ctx.call(lambda: str(obj.get_spliced_sequence()))
                        ctx.check("reparse.sequence", exc is None and s == wseq, key="spliced-transcript", mode=mode, got=s, want=wseq, exc=repr(exc)[:200] if exc else None)
        else:
            ctx.check("reparse.sequence", rec.seqrecord is None, key="no-fasta-no-seqrecord", mode=mode)
    # ---- re-export --------------------------------------------------------------------------------------------------------
    if ctx.viol_count != before:
        ctx.bump("reexport-skipped-after-reparse-difference")
        ctx.seen("reparse.reexport", 0)
        return
    if not fully_specified:
        ctx.bump("reexport-skipped-not-fully-specified")
        ctx.seen("reparse.reexport", 0)
        return
    h2 = io.StringIO()
    _, exc = ctx.call(lambda: collection_to_gff3([r.to_annotation_collection() for r in recs], h2, add_sequences=fasta))
    if exc is not None:
        ctx.check("reparse.reexport", False, key=("raised", type(exc).__name__), mode=mode, exc=repr(exc)[:300])
        return
    p2 = R.parse(h2.getvalue())
    a, b = _canon_rows(parsed_text["rows"]), _canon_rows(p2["rows"])
    only_a = sorted((a - b).elements(), key=repr)
    only_b = sorted((b - a).elements(), key=repr)
    ctx.check("reparse.reexport", not only_a and not only_b, key=("rows", tuple(sorted({r[1] for r in only_a + only_b}))), mode=mode,
              only_in_file=[_show(r) for r in only_a[:3]], only_in_reexport=[_show(r) for r in only_b[:3]])
    if fasta:
        ctx.check("reparse.reexport", sorted(parsed_text["fasta"] or []) == sorted(p2["fasta"] or []) and
                  sorted(d for _, d in parsed_text["directives"]) == sorted(d for _, d in p2["directives"]), key="fasta-and-directives", mode=mode)


def _canon_rows(rows):
    """Counter of gene-model rows with ID / Parent replaced by the content of the parent row."""
    from collections import Counter

    by_id = {}
    for r in rows:
        for i in r["attrs"].get("ID", []):
            by_id.setdefault(i, r)

    def content(r):
        return (r["seqid"], r["type"], r["start"], r["end"], r["strand"], r["phase"],
                tuple(sorted((k, tuple(sorted(v))) for k, v in r["attrs"].items() if k not in ("ID", "Parent"))))

    def canon(r, depth=0):
        ps = r["attrs"].get("Parent", [])
        par = by_id.get(ps[0]) if ps else None
        return content(r) + ((canon(par, depth + 1) if par is not None and depth < 4 else ("dangling",)) if ps else ("top",),)

    return Counter(canon(r) for r in rows if r["type"] in GENE_TYPES)


def _show(c):
    return {"type": c[1], "start": c[2], "end": c[3], "strand": c[4], "phase": c[5], "attrs": [list(x) for x in c[6]][:12], "parent": c[7][1:4] if len(c[7]) > 3 else c[7]}


def _compare_gene(ctx, g, p, off, mode, chunk_relative=False):
    """Returns True when the model is 'fully specified' (no field the parser may default)."""
    full = all(g.get(f) is not None for f in ("gene_id", "gene_symbol", "gene_type"))

    def ident(field, want, got, obj="gene", **extra):
        if want is None:
            ctx.seen("reparse.identifiers")
            ctx.bump("none-field-not-compared")
            return
        ctx.check("reparse.identifiers", got == want, key=(obj, field, _charclass(want)), mode=mode, field=field, want=want, got=got, **extra)

    ident("gene_id", g.get("gene_id"), p.gene_id)
    ident("gene_symbol", g.get("gene_symbol"), p.gene_symbol)
    ident("locus_tag", g.get("locus_tag"), p.locus_tag)
    if g.get("locus_tag") is None:
        ctx.check("reparse.identifiers", p.locus_tag is None, key=("gene", "locus_tag-from-nowhere"), mode=mode, got=p.locus_tag)
    ident("gene_type", g.get("gene_type"), _enum_name(p.gene_type))
    gown = _own_quals(g.get("qualifiers"))
    _qual_check(ctx, "gene", gown, {}, p.qualifiers, mode)

    def tscore(t, q):
        ex, cds = _tx_blocks(t, off)
        pex = [list(b) for b in zip(q.exon_starts, q.exon_ends)]
        pcds = [list(b) for b in zip(q.cds_starts, q.cds_ends)] if q.cds_starts else None
        return 4 * (t.get("transcript_id") is not None and q.transcript_id == t["transcript_id"]) + 4 * (ex == pex) + 2 * (cds == pcds) + (
            q.transcript_symbol == t.get("transcript_symbol")) + (q.protein_id == t.get("protein_id"))

    ctx.check("reparse.structure", len(p.transcripts) == len(g["transcripts"]), key="transcript-count", mode=mode, got=len(p.transcripts), want=len(g["transcripts"]))
    tpairs, _ = _greedy(g["transcripts"], list(p.transcripts), tscore)
    for t, q in tpairs:
        if q is None:
            continue
        full &= all(t.get(f) is not None for f in ("transcript_id", "transcript_symbol", "transcript_type"))
        ex, cds = _tx_blocks(t, off)
        pex = [list(b) for b in zip(q.exon_starts, q.exon_ends)]
        pcds = [list(b) for b in zip(q.cds_starts, q.cds_ends)] if q.cds_starts else None
        ctx.check("reparse.structure", pex == ex, key="exons", mode=mode, got=pex, want=ex)
        ctx.check("reparse.structure", pcds == cds, key="cds-blocks", mode=mode, got=pcds, want=cds)
        pfr = [f.value for f in q.cds_frames] if q.cds_frames else None
        ctx.check("reparse.structure", (pfr in frame_vectors(t, chunk_relative)) if cds else pfr is None, key="frames", mode=mode, got=pfr, want=t["frames"],
                  tx_strand=t["strand"], cds=t.get("cds"), frames=t.get("frames"))
        ctx.check("reparse.structure", q.strand.to_symbol() == t["strand"], key="strand", mode=mode, got=q.strand.to_symbol(), want=t["strand"])
        ident("transcript_id", t.get("transcript_id"), q.transcript_id, "transcript")
        ident("transcript_symbol", t.get("transcript_symbol"), q.transcript_symbol, "transcript")
        ident("transcript_type", t.get("transcript_type"), _enum_name(q.transcript_type), "transcript", gene_type=g.get("gene_type"))
        if t.get("transcript_type") is None:
            # a transcript without biotype may come back without one or with the documented default, its GENE's biotype - never
            # with something else (e.g. a sibling isoform's)
            gotbt = _enum_name(q.transcript_type)
            ctx.check("reparse.identifiers", gotbt is None or gotbt == g.get("gene_type"), key=("transcript", "transcript_type-default-is-the-gene-biotype"),
                      mode=mode, got=gotbt, gene_type=g.get("gene_type"), sibling_types=[x.get("transcript_type") for x in g["transcripts"]])
        for f in ("protein_id", "product"):
            want = t.get(f) if cds else None
            if want is None:
                ctx.check("reparse.identifiers", getattr(q, f) is None, key=("transcript", f + "-from-nowhere"), mode=mode, got=getattr(q, f))
            else:
                ident(f, want, getattr(q, f), "transcript")
        _qual_check(ctx, "transcript", _own_quals(t.get("qualifiers")), gown, q.qualifiers, mode)
    return full


# ----------------------------------------------------------------------------------------------------------------
# findings
# ----------------------------------------------------------------------------------------------------------------
def _find_specs(case):
    for coll in _colls(case):
        for g in coll["spec"]["genes"]:
            yield g


def classify(v):
    """Mechanistic classifiers (each re-derives the mechanism from the witness)."""
    d = v.get("detail") or {}
    case = v.get("case") or {}
    mon = v["monitor"]
    key = v.get("key") or []
    if mon == "reparse.qualifiers" and len(key) >= 2 and key[1] == "missing-key" and isinstance(d.get("qualifier_key"), str):
        k = d["qualifier_key"]
        parsed_keys = d.get("parsed_keys") or []
        # K4: the writer percent-encodes the key (and lower-cases it); the third-party reader does not decode tags, so the
        # key comes back still encoded.  Predicate: the key needs escaping and its encoded form is among the parsed keys.
        if any(c in MUST_ESCAPE for c in k):
            enc = "".join("%%%02X" % ord(c) if c in MUST_ESCAPE else c for c in k)
            if enc in parsed_keys or enc.lower() in parsed_keys:
                return "K4-escaped-qualifier-key-not-decoded"
        # F9: filter_and_sort_qualifiers uses re.match (prefix match) with the unanchored alternation of identifier names:
        # a key that merely STARTS with one of them (and is longer) is dropped.
        fold = k if k in GFF3_RESERVED else k.lower()
        if any(fold.startswith(p) and len(fold) > len(p) for p in set(REGEX_PREFIXES)) and _lookup(dict.fromkeys(parsed_keys), k) is None:
            return "F9-qualifier-key-with-reserved-prefix-dropped-on-reparse"
    if mon == "reparse.qualifiers" and len(key) >= 2 and key[1] == "unexpected-key" and isinstance(d.get("qualifier_key"), str):
        # K4 seen from the other side: the parsed key is the still-encoded form of a source key that needs escaping
        dec, ok = R.unescape(d["qualifier_key"])
        if ok and dec != d["qualifier_key"] and any(any(c in MUST_ESCAPE for c in k) and dec in (k, k.lower()) for k in d.get("source_keys") or []):
            return "K4-escaped-qualifier-key-not-decoded"
    if mon == "reparse.qualifiers" and len(key) >= 2 and key[1] in ("missing-value", "unexpected-value") and isinstance(d.get("parsed_form"), str):
        # K4 once more: the tag the values were read from is the still-encoded form of ANOTHER source key (e.g. keys ';' and
        # '%3B' in one model: ';' comes back as '%3b', which is also the lower-cased text of the second key)
        for k2 in d.get("source_keys") or []:
            if any(c in MUST_ESCAPE for c in k2):
                enc = "".join("%%%02X" % ord(c) if c in MUST_ESCAPE else c for c in k2)
                if d["parsed_form"] in (enc, enc.lower()):
                    return "K4-escaped-qualifier-key-not-decoded"
    if mon in ("gff.phase", "reparse.structure") and str(d.get("mode", "")).startswith("chunk-rel") and (mon == "gff.phase" or key == "frames"):
        # K13 (known from C05) reached through chunk_relative_frames -> construct_frames_from_location: the 5' CDS block is
        # shorter than the start offset, the remaining offset is not carried into the next block
        cds, fr = d.get("cds"), d.get("frames")
        if isinstance(cds, list) and isinstance(fr, list) and len(cds) > 1 and len(cds) == len(fr):
            b5, f5 = (cds[-1], fr[-1]) if d.get("tx_strand") == "-" else (cds[0], fr[0])
            if b5[1] - b5[0] < int(f5):
                return "K13-construct-frames-first-block-shorter-than-offset"
    if mon == "reparse.identifiers" and d.get("field") == "transcript_type":
        # F7: the parser reads transcript_biotype from the GENE row, which never carries it, and falls back to the gene biotype
        if d.get("want") and d.get("want") != d.get("gene_type") and d.get("got") == d.get("gene_type"):
            return "F7-transcript-biotype-read-from-gene-row"
    if mon == "gff.unique-ids" and key and key[0] == "unique-id" and key[1] == "CDS":
        # K41: a CDS row ID is the digest of (blocks, strand, frames, product, protein_id) of the CDS alone: two transcripts
        # with the same CDS content share it.
        seen = set()
        for coll in _colls(case):
            for g in coll["spec"]["genes"]:
                for t in g["transcripts"]:
                    if t.get("cds"):
                        sig = repr((t["cds"], t["strand"], t["frames"], t.get("product"), t.get("protein_id")))
                        if sig in seen:
                            return "K41-transcripts-with-identical-cds-share-gff3-row-ids"
                        seen.add(sig)
    if mon in ("reparse.parses", "gff.fasta"):
        # F16: chunk-relative export with FASTA names the record after the chunk ('name:start-end'), the rows after the sequence
        ids = d.get("fasta_ids") or d.get("got") or []
        if "chunk-rel+fasta" == d.get("mode") and ids and all(isinstance(i, str) and re.fullmatch(r".+:\d+-\d+", i) for i in ids):
            return "F16-chunk-relative-fasta-record-named-after-chunk"
    return None
