"""C03  Extracted sequence is the base-by-base image of the coordinate map.

Reference models: bcv.models.posmodel (position list P of a location, 5'->3') and bcv.models.seqmodel (IUPAC complement
from Biopython's tables, extract(P, strand, genome)).  A *recorded location is consistent with the characters* of a
Sequence D when reading D.parent.location through these two models on the parent's characters spells str(D).

Monitors
  extract.image            str(loc.extract_sequence()) == extract(P, strand, genome) (asked twice: memoised answer too)
  extract.reverse-strand   loc.reverse_strand().extract_sequence() == model of the flipped location, and
                           == reverse complement of what loc.extract_sequence() returned
  extract.split            for every cut k: seq(rel(0,k,+)) + seq(rel(k,n,+)) == seq(loc); random 3..5-way splits too
  extract.sub-interval     seq(rel(s,e,r)) == whole[s:e] (reverse-complemented for r = '-')
  comp.letter              every letter of every nucleotide alphabet, both cases: one-base minus-strand extraction and
                           Sequence.reverse_complement() give the IUPAC complement; plus strand gives the letter itself
  derived.slice            S[a:b] / S[i] for a Sequence S recorded at location L on the parent: characters == data[a:b] and
                           the recorded location spells them
  derived.slice-special    open (None), negative, over-long, reversed and stepped slices: see latitude
  derived.revcomp          S.reverse_complement(): characters == revcomp(data), recorded location spells them; slices of it
  derived.append           A.append(B): characters == A+B, recorded location spells them; pairs that satisfy the documented
                           compatibility rule are accepted; split pieces S[0:k] + S[k:n] re-join to the location of S

Latitude (the property text leaves these open; every admissible answer is accepted)
  * U complements to A (IUPAC), so complementing twice turns U into T.  Wherever a chain has complemented the parent's
    characters twice (reverse complement of a minus-strand reading) U/T and u/t are not distinguished.
  * An unstranded location: extract_sequence may refuse (InvalidStrandException) or read the plus strand; a Sequence
    recorded at an unstranded location is only checked for length; slicing it may be refused.
  * A location whose own blocks overlap each other can only enumerate its blocks in canonical (sorted) order, so a
    sub-location cut out of it cannot always spell its bases in the original reading order (same latitude as C01).  For
    such locations pieces / derived sequences are compared as multisets of characters plus length; the whole extraction
    is still compared exactly, and so is append() of operands that are not self-overlapping.  When two non-empty blocks
    share a start, their documented canonical order is (start, end) on plus but (start, -end) on minus, so flipping the
    strand does not reverse the reading order: only there 'reverse_strand == reverse complement' (and the location
    recorded by Sequence.reverse_complement) is compared as a multiset and slices of the reverse complement are skipped;
    the flipped location itself is still compared exactly with the model.  append() of pieces of a self-overlapping
    location may be refused (their spans are not ordered).
  * Slice bounds outside [0, len], reversed bounds, negative indices: Python clips / wraps, the library refuses with an
    explicit error; both an explicit refusal (ValueError / BioCantorException / IndexError) and a Python-semantics
    answer with a consistent location are accepted.  Open bounds (None) and steps: an explicit refusal or a consistent
    answer are accepted; for a stepped slice dropping the recorded location is accepted as well.  An *implicit* error
    (TypeError from comparing None) is not a refusal and is reported, as is a stepped slice that keeps a location
    which does not spell its characters.
  * A zero-length operand: its location carries no base; append() may drop the recorded location of the result or
    refuse the pair with an explicit error (the library tests locations for truthiness, so a zero-width location
    counts as 'no location / no strand'), and reverse_complement() of an empty Sequence may drop it too.
  * append(): 'compatible' = same alphabet / type / parent, same directional strand, and (documented in the error
    messages) the first operand's span entirely to the left (plus) / right (minus) of the second's.  Such pairs must be
    accepted.  Every other pair may be refused or accepted, but whatever is accepted must be consistent.
  * Zero-width pieces of a split contribute no characters; an EmptyLocation refusing extract_sequence counts as ''.
"""
from collections import Counter

from bcv.gen import loc as G
from bcv.models import posmodel as PM
from bcv.models import seqmodel as SM

ID = "C03"
LEVEL = "exploration"
EXHAUSTIVE = False
ALPHABETS = {
    "NT_STRICT": "ACGT",
    "NT_EXTENDED": "ATUCGNWSMKRYBDHV",
    "NT_STRICT_GAPPED": "ACGT-",
    "NT_EXTENDED_GAPPED": "ATUCGNWSMKRYBDHV-",
    "NT_STRICT_UNKNOWN": "ATGCN",
}
ALPHA_NAMES = tuple(ALPHABETS)
RULE = (
    "exhaustive: every sorted layout of 1..3 blocks (lengths and gaps incl. 0) over a genome of G1 positions x both "
    "strands (alphabet and window of forced letters rotating): whole extraction, reverse strand, every cut point, every "
    "(start,end,relative strand) sub-interval, and for a Sequence recorded at that location every slice (a,b), every "
    "index, special slices, reverse complement and its slices, every split re-joined by append; every ordered pair of "
    "<=2-block layouts over G2 positions x both strands appended (compatible or not); per alphabet NA genomes in which "
    "every letter appears in both cases, every letter complemented on its own; seeded random layouts (1..6 blocks, "
    "genome<=200 with every letter of the alphabet in both cases forced in, 20% self-overlapping blocks, 5% unstranded). "
    "Non-trivial = distinct (block lengths, gaps, strand, alphabet) shape with >=2 non-empty blocks, or minus strand, or "
    "an empty block; for append pairs the pair of shapes plus offset."
)
SCOPE = {
    "quick": {"G1": 7, "K1": 3, "G2": 5, "NA": 12, "NR": 9000, "ALL_AB": 12},
    "thorough": {"G1": 10, "K1": 3, "G2": 7, "NA": 80, "NR": 100000, "ALL_AB": 30},
}
EXHAUSTIVE_SCOPE = {t: f"layouts: genome {s['G1']}, <= {s['K1']} blocks; append pairs: genome {s['G2']}, <= 2 blocks; all slice bounds for "
                       f"recorded sequences of length <= {s['ALL_AB']}" for t, s in SCOPE.items()}
FLOOR = {"quick": 3000, "thorough": 20000}
REQUIRED_MONITORS = ["extract.image", "extract.reverse-strand", "extract.split", "extract.sub-interval", "comp.letter",
                     "derived.slice", "derived.slice-special", "derived.revcomp", "derived.append"]
_L = "inscripta.biocantor.location.location_impl:"
_S = "inscripta.biocantor.sequence.sequence:"
REACH = [
    _L + "SingleInterval.extract_sequence", _L + "CompoundInterval.extract_sequence",
    _L + "SingleInterval.relative_interval_to_parent_location", _L + "CompoundInterval.relative_interval_to_parent_location",
    _L + "SingleInterval.reverse_strand", _L + "CompoundInterval.reverse_strand",
    _S + "Sequence.__getitem__", _S + "Sequence.reverse_complement", _S + "Sequence.append",
]
REACH_REQUIRED = REACH
ASSUMPTIONS = ["oracle: position-list model (bcv/models/posmodel.py) and IUPAC complement from Bio.Data.IUPACData (bcv/models/seqmodel.py)",
               "U complements to A; chains that complement twice are compared modulo U==T",
               "self-overlapping locations: pieces compared as multisets (a Location enumerates blocks in canonical order only)"]
WATCHDOG = {"quick": 1200, "thorough": 3 * 3600}
MODES = ("P+seq", "P", "L", "Lp")


# ------------------------------------------------------------------------------------------------------ self-test
def selftest():
    from bcv.core import HarnessError

    try:
        PM.selftest()
        SM.selftest()
        for name, letters in ALPHABETS.items():
            for ch in letters + letters.lower():
                assert ch in SM.COMP, (name, ch)
        # literal examples of the upstream test-suite (tests/minimal/sequence/test_sequence.py::test_getitem):
        # Sequence("actgactg") recorded at 0-8:- ; [3:6] == "gac" recorded at 2-5:- ; [3] == "g" at 4-5:-
        genome = SM.revcomp("actgactg")
        assert SM.extract(PM.positions([(0, 8)], "-"), "-", genome) == "actgactg"
        assert SM.extract(PM.positions([(2, 5)], "-"), "-", genome) == "gac"
        assert SM.extract(PM.positions([(4, 5)], "-"), "-", genome) == "g"
        assert SM.extract(PM.positions([(3, 6)], "+"), "+", "actgactg") == "gac"
        assert _eq("AUTu", "ATTt", True) and not _eq("AU", "AT", False) and not _eq("AC", "AT", True)
    except AssertionError as e:
        raise HarnessError(f"C03 oracle self-test: {e!r}")


# ------------------------------------------------------------------------------------------------------ workload
def forced_genome(rng, n, alpha):
    """Random genome over the alphabet in both cases.  If there is room every letter is forced to appear in both cases;
    otherwise a random window of the shuffled letter list is used (so that all letters appear across cases)."""
    letters = list(ALPHABETS[alpha] + ALPHABETS[alpha].lower())
    rng.shuffle(letters)
    if n >= len(letters):
        g = letters + [rng.choice(letters) for _ in range(n - len(letters))]
        rng.shuffle(g)
        return "".join(g)
    off = rng.randrange(len(letters))
    return "".join(letters[(off + j) % len(letters)] for j in range(n))


def cases(spec, ctx):
    i, n = spec["i"], spec["n"]
    sc = SCOPE[ctx.tier]
    rng = ctx.rng
    # -- per-alphabet letter sweeps
    idx = 0
    for alpha in ALPHA_NAMES:
        for rep in range(sc["NA"]):
            idx += 1
            if idx % n != i:
                continue
            g = forced_genome(rng, 2 * len(ALPHABETS[alpha]) + rng.choice([0, 3, 9]), alpha)
            yield {"kind": "alphabet", "alpha": alpha, "genome": g, "seed": rng.randrange(1 << 30)}
    # -- exhaustive small layouts
    idx = 0
    for blocks in G.enum_layouts(sc["G1"], sc["K1"]):
        for strand in ("+", "-"):
            idx += 1
            if idx % n != i:
                continue
            j = idx // n
            alpha = ALPHA_NAMES[j % 5]
            yield {"kind": "layout", "blocks": blocks, "strand": strand, "alpha": alpha, "genome": forced_genome(rng, sc["G1"] + 1, alpha),
                   "mode": MODES[(j // 5) % 4], "compound": bool((j // 20) % 2), "seed": rng.randrange(1 << 30)}
    # -- append pairs: all B for this A
    idx = 0
    for blocks in G.enum_layouts(sc["G2"], 2):
        for strand in ("+", "-"):
            idx += 1
            if idx % n != i:
                continue
            j = idx // n
            alpha = ALPHA_NAMES[j % 5]
            yield {"kind": "pairs", "blocks": blocks, "strand": strand, "alpha": alpha, "genome": forced_genome(rng, sc["G2"] + 1, alpha),
                   "gp": sc["G2"], "mode": MODES[(j // 5) % 4]}
    # -- random
    for _ in range(sc["NR"] // n + 1):
        alpha = rng.choice(ALPHA_NAMES)
        gl = rng.choice([12, 30, 40, 80, 200])
        ov = rng.random() < 0.2
        if rng.random() < 0.5:
            # short locations (so that all slice bounds are swept) anywhere in the genome
            lo = rng.randrange(0, gl - 8)
            sub = G.rand_layout(rng, min(gl - lo, rng.choice([8, 14, 25])), 5, overlap=ov)
            blocks = tuple((s + lo, e + lo) for s, e in sub)
        else:
            blocks = G.rand_layout(rng, gl, 6, overlap=ov)
        r = rng.random()
        strand = "." if r < 0.05 else ("+" if r < 0.5 else "-")
        yield {"kind": "random", "blocks": blocks, "strand": strand, "alpha": alpha, "genome": forced_genome(rng, gl, alpha),
               "mode": rng.choice(MODES), "compound": rng.random() < 0.3, "seed": rng.randrange(1 << 30)}
    # -- twin genomes (one or two per shard): two parents with the same id whose sequences have the same length and the same first and
    # last thousands of bases and differ in a few bases in the middle, extracted from in one process (either order)
    trng = __import__("random").Random(f"C03-twin:{ctx.seed}:{i}")
    for n_t in ((70000,) if i % 2 else ((1 << 20) + 9,)):
        yield {"kind": "twin-genome", "n": n_t, "seed": trng.randrange(1 << 30), "alpha": "NT_STRICT", "genome": ""}
    # -- scale legs (own stream): long genomes with locations far from the origin, and locations of 9..30 blocks
    srng = __import__("random").Random(f"C03-scale:{ctx.seed}:{i}")
    for k in range(sc["NR"] // (10 * n) + 1):
        alpha = srng.choice(ALPHA_NAMES)
        gl = srng.choice([700, 3000, 20000])
        if k % 2 == 0:
            lo = srng.randrange(gl // 2, gl - 60)
            blocks = tuple((s0 + lo, e0 + lo) for s0, e0 in G.rand_layout(srng, srng.choice([14, 25, 50]), 5, overlap=srng.random() < 0.2))
        else:
            blocks = ()
            while len(blocks) < 9:
                blocks = G.rand_layout(srng, min(gl, 3000), srng.choice([srng.randint(9, 30), srng.randint(17, 40), srng.randint(33, 70), srng.randint(64, 150), srng.randint(129, 300)]),
                                       overlap=srng.random() < 0.3)
        r = srng.random()
        yield {"kind": "random", "blocks": blocks, "strand": "." if r < 0.05 else ("+" if r < 0.5 else "-"), "alpha": alpha,
               "genome": forced_genome(srng, gl, alpha), "mode": srng.choice(MODES), "compound": srng.random() < 0.3, "seed": srng.randrange(1 << 30)}


# ------------------------------------------------------------------------------------------------------ helpers
_U = str.maketrans("Uu", "Tt")


def _eq(a, b, mod_u=False, multiset=False):
    if mod_u:
        a, b = a.translate(_U), b.translate(_U)
    if multiset:
        return Counter(a) == Counter(b)
    return a == b


def _refusal():
    from inscripta.biocantor.exc import BioCantorException

    return (BioCantorException, ValueError, IndexError)


def _start_tie(blocks):
    """Two non-empty blocks share a start: their canonical order (start, end) / (start, -end) depends on the strand."""
    ne = [s for s, e in blocks if e > s]
    return len(set(ne)) < len(ne)


def _flip(s):
    return {"+": "-", "-": "+", ".": "."}[s]


def _genome_parent(case):
    return G.make_parent("seq", genome=case["genome"], alphabet=case["alpha"])


def _piece_str(ctx, loc):
    """Characters of a (possibly zero-width) piece; (string, exception)."""
    r, e = ctx.call(loc.extract_sequence)
    if e is not None:
        if len(loc) == 0 and type(e).__name__ == "EmptyLocationException":
            return "", None
        return None, e
    return str(r), None


def recorded(D):
    """(blocks, strand) of the location recorded on the parent of a Sequence, or None when nothing is recorded."""
    p = D.parent
    if p is None or p.location is None:
        return None
    r = PM.read_location(p.location)
    if r is None:
        return [], "+"
    return r


def spells(D, genome, multiset=False, mod_u=False):
    """Is the recorded location of D consistent with the characters of D?  -> (ok, info dict).  None location -> (None, ..)."""
    rec = recorded(D)
    data = str(D)
    if rec is None:
        return None, {"data": data, "location": None}
    blocks, st = rec
    n = sum(e - s for s, e in blocks)
    info = {"data": data, "blocks": blocks, "strand": st}
    if n != len(data):
        info["problem"] = f"recorded location has {n} bases, sequence has {len(data)} characters"
        return False, info
    if st == ".":
        return True, info
    want = SM.extract(PM.positions(blocks, st), st, genome)
    info["location_spells"] = want
    return _eq(data, want, mod_u=mod_u, multiset=multiset), info


def make_S(case, blocks, strand, data, mode, force_compound=False, seqtype=None):
    """A Sequence whose parent records `blocks:strand` as its location on the genome."""
    from inscripta.biocantor.parent import Parent
    from inscripta.biocantor.sequence import Sequence, Alphabet

    alpha = Alphabet[case["alpha"]]
    if mode == "Lp":
        L = G.build(blocks, strand, parent=_genome_parent(case), force_compound=force_compound)
        par = L
    else:
        L = G.build(blocks, strand, parent=None, force_compound=force_compound)
        if mode == "L":
            par = L
        elif mode == "P":
            par = Parent(id="chr1", sequence_type="chromosome", location=L)
        else:
            par = Parent(id="chr1", sequence_type="chromosome", sequence=Sequence(case["genome"], alpha), location=L)
    return Sequence(data, alpha, type=seqtype, parent=par)


# ------------------------------------------------------------------------------------------------------ location side
def check_location(ctx, case, loc, blocks, strand, P, ov, whole, rng, full):
    from inscripta.biocantor.exc import InvalidStrandException

    genome = case["genome"]
    tag = "overlapping" if ov else "plain"
    cls = type(loc).__name__
    n = len(P)
    # ---- whole extraction (twice: the second answer comes from the memo of SingleInterval)
    for rep in ("first", "again"):
        r, e = ctx.call(loc.extract_sequence)
        if strand == ".":
            ok = isinstance(e, InvalidStrandException) or (e is None and str(r) == whole)
            ctx.check("extract.image", ok, key=("unstranded", cls), got=None if r is None else str(r), exc=repr(e) if e else None)
        else:
            ctx.check("extract.image", e is None and str(r) == whole, key=("value", cls, strand, tag, rep), got=None if r is None else str(r), want=whole,
                      exc=repr(e)[:200] if e else None)
    if strand == "." or e is not None:
        return
    real = str(r)
    # ---- reverse strand
    rs, e = ctx.call(loc.reverse_strand)
    if e is not None:
        ctx.check("extract.reverse-strand", False, key=("raised", cls, type(e).__name__), exc=repr(e)[:200])
    else:
        r2, e2 = ctx.call(rs.extract_sequence)
        want = SM.extract(PM.positions(blocks, _flip(strand)), _flip(strand), genome)
        ctx.check("extract.reverse-strand", e2 is None and str(r2) == want, key=("model", cls, strand, tag), got=None if r2 is None else str(r2), want=want,
                  exc=repr(e2)[:200] if e2 else None)
        if e2 is None:
            # the property's own wording: reversing the strand reverse-complements the sequence (U->A->T after two complements)
            ctx.check("extract.reverse-strand", _eq(str(r2), SM.revcomp(real), mod_u=(strand == "-"), multiset=_start_tie(blocks)),
                      key=("revcomp", cls, strand, tag), got=str(r2), forward=real)
    # ---- every cut point
    ks = range(n + 1) if (full or n <= 40) else sorted({0, n, 1, n - 1} | {rng.randint(0, n) for _ in range(25)})
    plus = G.strand_of("+")
    for k in ks:
        a, ea = ctx.call(loc.relative_interval_to_parent_location, 0, k, plus)
        b, eb = ctx.call(loc.relative_interval_to_parent_location, k, n, plus)
        if ea is not None or eb is not None:
            ctx.check("extract.split", False, key=("map-raised", cls, type(ea or eb).__name__, "cut-at-end" if k in (0, n) else "inner"), k=k, n=n,
                      exc=repr(ea or eb)[:200])
            continue
        sa, ea = _piece_str(ctx, a)
        sb, eb = _piece_str(ctx, b)
        if ea is not None or eb is not None:
            ctx.check("extract.split", False, key=("extract-raised", cls, type(ea or eb).__name__), k=k, n=n, exc=repr(ea or eb)[:200])
            continue
        ok = _eq(sa + sb, real, multiset=ov) and len(sa) == k
        if not ov:
            ok = ok and sa == whole[:k] and sb == whole[k:]
        ctx.check("extract.split", ok, key=("two-way", cls, strand, tag), k=k, left=sa, right=sb, whole=real)
    # ---- a multi-way split into consecutive sub-intervals
    if n >= 2:
        for _ in range(2 if full else 4):
            cuts = [0] + sorted(rng.randint(0, n) for _ in range(rng.randint(2, 4))) + [n]
            parts = []
            bad = None
            for s, t in zip(cuts, cuts[1:]):
                pl, e = ctx.call(loc.relative_interval_to_parent_location, s, t, plus)
                ps, e = _piece_str(ctx, pl) if e is None else (None, e)
                if e is not None:
                    bad = e
                    break
                parts.append(ps)
            if bad is not None:
                ctx.check("extract.split", False, key=("multi-raised", cls, type(bad).__name__), cuts=cuts, exc=repr(bad)[:200])
            else:
                ok = _eq("".join(parts), real, multiset=ov) and [len(x) for x in parts] == [t - s for s, t in zip(cuts, cuts[1:])]
                if not ov:
                    ok = ok and parts == [whole[s:t] for s, t in zip(cuts, cuts[1:])]
                ctx.check("extract.split", ok, key=("multi-way", cls, strand, tag), cuts=cuts, parts=parts, whole=real)
    # ---- sub-intervals on either relative strand
    if full and n <= 12:
        subs = [(s, t, r) for s in range(n + 1) for t in range(s, n + 1) for r in "+-"]
    else:
        subs = []
        for _ in range(20):
            s = rng.randint(0, n)
            subs.append((s, rng.randint(s, n), rng.choice("+-")))
    for (s, t, r) in subs:
        sub, e = ctx.call(loc.relative_interval_to_parent_location, s, t, G.strand_of(r))
        got, e = _piece_str(ctx, sub) if e is None else (None, e)
        if e is not None:
            ctx.check("extract.sub-interval", False, key=("raised", cls, type(e).__name__, "zero-width" if s == t else "non-empty"), s=s, e=t, r=r,
                      exc=repr(e)[:200])
            continue
        want = whole[s:t] if r == "+" else SM.revcomp(whole[s:t])
        ctx.check("extract.sub-interval", _eq(got, want, mod_u=(strand == "-" and r == "-"), multiset=ov), key=("value", cls, strand, r, tag),
                  s=s, e=t, r=r, got=got, want=want)


# ------------------------------------------------------------------------------------------------------ derived sequences
def _slice_checks(ctx, S, data, genome, keys, ov, mod_u, monitor, tag):
    for (a, b) in keys:
        D, e = ctx.call(S.__getitem__, slice(a, b))
        if e is not None:
            ctx.check(monitor, False, key=("slice-raised", type(e).__name__, tag), a=a, b=b, n=len(data), exc=repr(e)[:200])
            continue
        ok, info = spells(D, genome, multiset=ov, mod_u=mod_u)
        ctx.check(monitor, str(D) == data[a:b] and ok is True, key=("slice", tag, "characters" if str(D) != data[a:b] else "location"), a=a, b=b,
                  want_data=data[a:b], **info)


def check_special_slices(ctx, S, data, genome, ov, rng, tag):
    """Open, negative, over-long, reversed and stepped slices (see latitude in the module docstring)."""
    n = len(data)
    a = rng.randint(0, n)
    b = rng.randint(a, n)
    keys = [("open", (None, b, None)), ("open", (a, None, None)), ("open", (None, None, None)),
            ("negative", (-min(n, 2), None, None)), ("negative", (None, -1, None)), ("negative", (-min(n, 3), -1, None)),
            ("over-long", (a, n + 3, None)), ("step-one", (a, b, 1))]
    if a != b:
        keys.append(("reversed", (b, a, None)))
    keys += [("step", (0, n, 2)), ("step", (None, None, -1)), ("step", (min(1, n), n, 3))]
    ref = _refusal()
    for kind, (x, y, z) in keys:
        key = slice(x, y, z)
        D, e = ctx.call(S.__getitem__, key)
        if e is not None:
            # an explicit refusal is admissible for every special slice; an implicit error is not a refusal
            must_work = kind == "step-one"
            ctx.check("derived.slice-special", isinstance(e, ref) and not must_work, key=(kind, "raised", type(e).__name__), slice=[x, y, z], n=n,
                      exc=repr(e)[:200])
            continue
        ok, info = spells(D, genome, multiset=ov or kind == "step")
        want = data[key]
        if kind == "step" and ok is None:
            good = str(D) == want  # no location recorded for a stepped slice: nothing to be inconsistent with
        else:
            # (a location kept by a stepped slice must cover exactly the bases the characters were taken from: multiset)
            good = str(D) == want and ok is True
        ctx.check("derived.slice-special", good, key=(kind, "characters" if str(D) != want else "location", tag), slice=[x, y, z], n=n, want_data=want, **info)
    for kind, i in (("negative-index", -1), ("index-out-of-range", n), ("index-out-of-range", n + 2)):
        D, e = ctx.call(S.__getitem__, i)
        if e is not None:
            ctx.check("derived.slice-special", isinstance(e, ref), key=(kind, "raised", type(e).__name__), index=i, n=n, exc=repr(e)[:200])
            continue
        ok, info = spells(D, genome, multiset=ov)
        inrange = -n <= i < n
        ctx.check("derived.slice-special", inrange and str(D) == data[i] and ok is True, key=(kind, "value", tag), index=i, n=n, **info)


def check_derived(ctx, case, blocks, strand, P, ov, whole, rng, full, all_ab):
    from inscripta.biocantor.exc import InvalidStrandException

    genome = case["genome"]
    mode = case["mode"]
    tag = "overlapping" if ov else "plain"
    n = len(P)
    data = whole if strand != "." else SM.extract(P, "+", genome)
    S = make_S(case, blocks, strand, data, mode, force_compound=case.get("compound", False))
    ok, info = spells(S, genome)
    if ok is None and n == 0:
        return  # Sequence(parent=<zero-width location>) records nothing (the constructor tests the parent for truthiness)
    if ok is not True:
        from bcv.core import HarnessError

        raise HarnessError(f"generator built an inconsistent recorded sequence: {info}")
    if strand == ".":
        # slicing a sequence recorded at an unstranded location may be refused; reverse complement keeps the length
        D, e = ctx.call(S.__getitem__, slice(0, min(1, n)))
        if e is None:
            ok, info = spells(D, genome)
            ctx.check("derived.slice", ok is not False and str(D) == data[0:min(1, n)], key=("unstranded", "value"), **info)
        else:
            ctx.check("derived.slice", isinstance(e, InvalidStrandException), key=("unstranded", "raised", type(e).__name__), exc=repr(e)[:200])
        R, e = ctx.call(S.reverse_complement)
        ok, info = spells(R, genome) if e is None else (False, {})
        ctx.check("derived.revcomp", e is None and str(R) == SM.revcomp(data) and ok is not False, key=("unstranded",), exc=repr(e)[:200] if e else None, **info)
        return
    # ---- slices and indices
    if n <= all_ab:
        keys = [(a, b) for a in range(n + 1) for b in range(a, n + 1)]
    else:
        keys = [(0, n), (0, 0), (n, n), (0, 1), (n - 1, n)]
        for _ in range(30):
            a = rng.randint(0, n)
            keys.append((a, rng.randint(a, n)))
    _slice_checks(ctx, S, data, genome, keys, ov, False, "derived.slice", tag)
    for i in (range(n) if n <= 40 else sorted({0, n - 1} | {rng.randrange(n) for _ in range(25)})):
        D, e = ctx.call(S.__getitem__, i)
        if e is not None:
            ctx.check("derived.slice", False, key=("index-raised", type(e).__name__, tag), i=i, n=n, exc=repr(e)[:200])
            continue
        ok, info = spells(D, genome, multiset=ov)
        ctx.check("derived.slice", str(D) == data[i] and ok is True, key=("index", tag, strand), i=i, **info)
    check_special_slices(ctx, S, data, genome, ov, rng, tag)
    # ---- reverse complement (the parent's characters are complemented twice when S itself reads the minus strand)
    twice = strand == "-"
    R, e = ctx.call(S.reverse_complement)
    if e is not None:
        ctx.check("derived.revcomp", False, key=("raised", type(e).__name__), exc=repr(e)[:200])
        R = None
    else:
        rdata = SM.revcomp(data)
        tie = _start_tie(blocks)
        ok, info = spells(R, genome, mod_u=twice, multiset=tie)
        good = str(R) == rdata and (ok is True or (ok is None and n == 0))
        ctx.check("derived.revcomp", good, key=("value", tag, strand, "characters" if str(R) != rdata else "location"), want_data=rdata, **info)
        if n and ok is not None and not tie:
            if n <= min(all_ab, 8):
                rkeys = [(a, b) for a in range(n + 1) for b in range(a, n + 1)]
            else:
                rkeys = [(0, n), (0, 1), (n - 1, n)]
                for _ in range(8):
                    a = rng.randint(0, n)
                    rkeys.append((a, rng.randint(a, n)))
            _slice_checks(ctx, R, rdata, genome, rkeys, ov, twice, "derived.revcomp", tag + "-slice-of-rc")
            RR, e = ctx.call(R.reverse_complement)
            if e is not None:
                ctx.check("derived.revcomp", False, key=("rc-rc-raised", type(e).__name__), exc=repr(e)[:200])
            else:
                ok, info = spells(RR, genome, mod_u=True, multiset=tie)
                ctx.check("derived.revcomp", _eq(str(RR), data, mod_u=True) and ok is True, key=("rc-of-rc", tag, strand), want_data=data, **info)
        # reverse complement of a slice
        if n >= 2:
            a = rng.randint(0, n - 1)
            b = rng.randint(a + 1, n)
            D, e = ctx.call(S.__getitem__, slice(a, b))
            RD, e = ctx.call(D.reverse_complement) if e is None else (None, e)
            if e is None:
                ok, info = spells(RD, genome, mod_u=twice, multiset=ov)
                ctx.check("derived.revcomp", str(RD) == SM.revcomp(data[a:b]) and ok is True, key=("rc-of-slice", tag, strand), a=a, b=b, **info)
    # ---- split and re-join
    ks = range(n + 1) if (full or n <= 25) else sorted({0, n, 1, n - 1} | {rng.randint(0, n) for _ in range(12)})
    ref = _refusal()
    for k in ks:
        A, ea = ctx.call(S.__getitem__, slice(0, k))
        B, eb = ctx.call(S.__getitem__, slice(k, n))
        if ea is not None or eb is not None:
            continue  # reported by derived.slice
        C, e = ctx.call(A.append, B)
        if e is not None:
            # pieces of a self-overlapping location need not be ordered along the parent: refusal admissible there
            # (and a zero-length piece carries no base: refusing to join it is admissible, see latitude)
            ctx.check("derived.append", (ov or k in (0, n)) and isinstance(e, ref), key=("rejoin-raised", type(e).__name__, tag), k=k, n=n, exc=repr(e)[:200],
                      left=repr(recorded(A)), right=repr(recorded(B)))
            continue
        ok, info = spells(C, genome, multiset=ov)
        if ok is None:
            good = str(C) == data and (k in (0, n))  # a zero-length operand: the location may be dropped
        else:
            good = str(C) == data and ok is True
            if good and not ov:
                rb, rst = recorded(C)
                good = PM.positions(rb, rst) == P and rst == strand
        ctx.check("derived.append", good, key=("rejoin", tag, strand, "cut-at-end" if k in (0, n) else "inner"), k=k, want_data=data, want_positions=P, **info)
        # the same pieces, reverse-complemented, join in the opposite order
        if R is not None and 0 < k < n and (full or k % 3 == 0):
            RA, e1 = ctx.call(A.reverse_complement)
            RB, e2 = ctx.call(B.reverse_complement)
            if e1 is None and e2 is None:
                C2, e = ctx.call(RB.append, RA)
                if e is not None:
                    ctx.check("derived.append", ov and isinstance(e, ref), key=("rc-rejoin-raised", type(e).__name__, tag), k=k, exc=repr(e)[:200])
                else:
                    ok, info = spells(C2, genome, mod_u=twice, multiset=ov)
                    ctx.check("derived.append", str(C2) == SM.revcomp(data) and ok is True, key=("rc-rejoin", tag, strand), k=k, **info)


# ------------------------------------------------------------------------------------------------------ append pairs
def _span(blocks):
    return (min(b[0] for b in blocks), max(b[1] for b in blocks))


def check_append_pair(ctx, case, SA, a, da, b, sb, mode, tag="plain"):
    """SA (recorded at a:strand, characters da) .append( sequence recorded at b:sb )."""
    genome = case["genome"]
    sa = case["strand"]
    db = SM.extract(PM.positions(b, sb), sb, genome)
    SB = make_S(case, b, sb, db, mode)
    C, e = ctx.call(SA.append, SB)
    spa, spb = _span(a), _span(b)
    ordered = (spa[1] <= spb[0]) if sa == "+" else (spa[0] >= spb[1])
    compatible = sa == sb and ordered
    nonempty = bool(da) and bool(db)
    ov = PM.self_overlapping(a) or PM.self_overlapping(b)
    if e is not None:
        ctx.check("derived.append", isinstance(e, _refusal()) and not (compatible and nonempty), key=("pair-raised", "compatible" if compatible else "incompatible", type(e).__name__, tag),
                  a=a, b=b, sa=sa, sb=sb, exc=repr(e)[:200])
        return compatible
    ok, info = spells(C, genome, multiset=ov)  # (joining may merge touching blocks of a self-overlapping operand: canonical order changes)
    good = str(C) == da + db
    if ok is None:
        good = good and not (compatible and nonempty)
    else:
        good = good and ok is True
    ctx.check("derived.append", good, key=("pair", "compatible" if compatible else "incompatible", sa, sb, tag, "no-location" if ok is None else "location"),
              a=a, b=b, sa=sa, sb=sb, want_data=da + db, **info)
    return compatible


# ------------------------------------------------------------------------------------------------------ driver
def run_case(case, ctx):
    import random

    from bcv.core import HarnessError

    kind = case["kind"]
    genome = case["genome"]
    alpha = case["alpha"]
    sc = SCOPE[ctx.tier]

    if kind == "twin-genome":
        from inscripta.biocantor.parent import Parent
        from inscripta.biocantor.sequence import Sequence, Alphabet

        rng = random.Random(case["seed"])
        n = case["n"]
        unit = "".join(rng.choice("ACGT") for _ in range(97))
        a = (unit * (n // 97 + 1))[:n]
        mid = n // 2
        flip = {"A": "C", "C": "G", "G": "T", "T": "A"}
        b = a[:mid - 3] + "".join(flip[c] for c in a[mid - 3:mid + 3]) + a[mid + 3:]
        ctx.note(("twin-genome", n), nontrivial=True, klass="twin-genome")
        order = [("first", a), ("second", b)] if rng.random() < 0.5 else [("first", b), ("second", a)]
        blocks = ((mid - 10, mid - 1), (mid + 1, mid + 12))
        for strand in "+-":
            for label, data in order + order:      # each genome asked twice: the second round sees whatever the first one cached
                parent = Parent(id="chrTwin", sequence=Sequence(data, Alphabet.NT_STRICT, id="chrTwin", type="chromosome"))
                want = SM.extract(PM.positions(blocks, strand), strand, data)
                r, e = ctx.call(G.build(blocks, strand, parent=parent).extract_sequence)
                ctx.check("extract.image", e is None and str(r) == want, key=("twin-genome", label, strand), n=n, got=None if r is None else str(r), want=want,
                          exc=repr(e)[:200] if e else None)
                r, e = ctx.call(G.build(((mid - 2, mid + 2),), strand, parent=parent).extract_sequence)
                want1 = SM.extract(PM.positions(((mid - 2, mid + 2),), strand), strand, data)
                ctx.check("extract.image", e is None and str(r) == want1, key=("twin-genome-single", label, strand), n=n, got=None if r is None else str(r), want=want1)
        return

    if kind == "alphabet":
        from inscripta.biocantor.sequence import Sequence, Alphabet

        rng = random.Random(case["seed"])
        ctx.note(("alphabet", alpha, len(genome)), nontrivial=True, klass="alphabet-" + alpha)
        parent = _genome_parent(case)
        missing = set(ALPHABETS[alpha] + ALPHABETS[alpha].lower()) - set(genome)
        if missing:
            raise HarnessError(f"letters not forced into the genome: {missing}")
        for i, ch in enumerate(genome):
            for st, want in (("-", SM.COMP[ch]), ("+", ch)):
                r, e = ctx.call(G.build(((i, i + 1),), st, parent=parent).extract_sequence)
                ctx.check("comp.letter", e is None and str(r) == want, key=("extract", alpha, ch, st), letter=ch, got=None if r is None else str(r), want=want,
                          exc=repr(e)[:200] if e else None)
            r, e = ctx.call(Sequence(ch, Alphabet[alpha]).reverse_complement)
            ctx.check("comp.letter", e is None and str(r) == SM.COMP[ch], key=("reverse_complement", alpha, ch), letter=ch, got=None if r is None else str(r),
                      want=SM.COMP[ch], exc=repr(e)[:200] if e else None)
        r, e = ctx.call(Sequence(genome, Alphabet[alpha]).reverse_complement)
        ctx.check("comp.letter", e is None and str(r) == SM.revcomp(genome), key=("reverse_complement-whole", alpha), got=None if r is None else str(r),
                  want=SM.revcomp(genome))
        # the whole genome and a few spliced minus-strand locations over it
        for blocks in [((0, len(genome)),)] + [G.rand_layout(rng, len(genome), 4, allow_empty_blocks=False) for _ in range(3)]:
            P = PM.positions(blocks, "-")
            loc = G.build(blocks, "-", parent=parent)
            r, e = ctx.call(loc.extract_sequence)
            want = SM.extract(P, "-", genome)
            ctx.check("extract.image", e is None and str(r) == want, key=("alphabet-sweep", alpha, type(loc).__name__), blocks=blocks, got=None if r is None else str(r),
                      want=want, exc=repr(e)[:200] if e else None)
        return

    blocks = tuple(tuple(b) for b in case["blocks"])
    strand = case["strand"]

    if kind in ("layout", "random"):
        rng = random.Random(case["seed"])
        full = kind == "layout"
        P = PM.positions(blocks, strand)
        ov = PM.self_overlapping(blocks)
        whole = SM.extract(P, strand, genome)
        loc = G.build(blocks, strand, parent=_genome_parent(case), force_compound=case.get("compound", False))
        klass = ("layout-" if full else ("random-overlapping-" if ov else "random-")) + type(loc).__name__ + ("-unstranded" if strand == "." else "")
        ctx.note((kind,) + G.layout_signature(blocks, strand) + (alpha, type(loc).__name__), nontrivial=G.nontrivial_layout(blocks, strand), klass=klass)
        check_location(ctx, case, loc, blocks, strand, P, ov, whole, rng, full)
        check_derived(ctx, case, blocks, strand, P, ov, whole, rng, full, sc["ALL_AB"])
        if kind == "random" and strand != ".":
            # a partner strictly beyond the 3' end (compatible) and one that is not
            lo, hi = _span(blocks)
            da = whole
            SA = make_S(case, blocks, strand, da, case["mode"], force_compound=case.get("compound", False))
            glen = len(genome)
            room = (glen - hi) if strand == "+" else lo
            if room >= 1:
                sub = G.rand_layout(rng, room, 3, overlap=False)
                off = hi if strand == "+" else 0
                b = tuple((s + off, e + off) for s, e in sub)
                check_append_pair(ctx, case, SA, blocks, da, b, strand, case["mode"], tag="overlapping" if ov else "plain")
            b = G.rand_layout(rng, glen, 3, overlap=False)
            # (an arbitrary partner: refused or consistent)
            if not ov:
                check_append_pair(ctx, case, SA, blocks, da, b, rng.choice("+-"), case["mode"], tag="arbitrary")
        return

    if kind == "pairs":
        da = SM.extract(PM.positions(blocks, strand), strand, genome)
        SA = make_S(case, blocks, strand, da, case["mode"])
        ctx.note(("pairs-from",) + G.layout_signature(blocks, strand) + (alpha,), nontrivial=G.nontrivial_layout(blocks, strand), klass="append-pairs-from")
        j = 0
        for b in G.enum_layouts(case["gp"], 2):
            j += 1
            for sb in ((strand, _flip(strand)) if j % 4 == 0 else (strand,)):
                comp = check_append_pair(ctx, case, SA, blocks, da, b, sb, case["mode"])
                ctx.note(("pair", G.layout_signature(blocks, strand), G.layout_signature(b, sb), b[0][0] - blocks[0][0]), nontrivial=comp)
        return

    raise HarnessError(f"unknown kind {kind}")


K_SLICE = "K-C03-slice-open-bound-or-step-with-recorded-location"
K_APPEND = "K-C03-append-self-overlapping-operand"


def classify(v):
    """Two mechanisms found on the unchanged tree (proposed fixes: /verif/proposed_fixes/C03-*.diff).  Both are re-derived
    from the witness, never matched on coordinates:

    K_SLICE   Sequence.__getitem__ hands key.start / key.stop / (no step) straight to relative_interval_to_parent_location:
              (a) a None bound reaches an integer comparison there -> TypeError; (b) a step is ignored, the recorded
              location is the image of [start:stop] although the characters are every step-th one.
    K_APPEND  Sequence.append joins the two recorded locations with union() (a set union): when an operand's own blocks
              cover a base twice, the joined location has one base per *distinct* position, fewer than the characters."""
    case, d, mon = v.get("case") or {}, v.get("detail") or {}, v.get("monitor")
    if mon == "derived.slice-special" and isinstance(d.get("slice"), list):
        x, y, z = d["slice"]
        if str(d.get("exc", "")).startswith("TypeError(") and (x is None or y is None):
            return K_SLICE
        if z not in (None, 1) and x is not None and y is not None and "blocks" in d and case.get("strand") in ("+", "-"):
            P = PM.positions([tuple(b) for b in case["blocks"]], case["strand"])
            whole = SM.extract(P, case["strand"], case["genome"])
            got = PM.positions([tuple(b) for b in d["blocks"]], d["strand"])
            if Counter(got) == Counter(P[x:y]) and d.get("data") == whole[x:y:z] and d["strand"] == case["strand"]:
                return K_SLICE
        return None
    if mon == "derived.append" and "blocks" in d and "data" in d and isinstance(v.get("key"), list):
        kind = v["key"][0]
        if kind == "pair":
            ops = [tuple(b) for b in d["a"]] + [tuple(b) for b in d["b"]]
            dup = PM.self_overlapping([tuple(b) for b in d["a"]]) or PM.self_overlapping([tuple(b) for b in d["b"]])
        elif kind in ("rejoin", "rc-rejoin"):
            ops = [tuple(b) for b in case["blocks"]]
            dup = PM.self_overlapping(ops)
        else:
            return None
        rec = [tuple(b) for b in d["blocks"]]
        nrec = sum(e - s for s, e in rec)
        if dup and PM.posset(rec) == PM.posset(ops) and nrec == len(PM.posset(ops)) < len(d["data"]):
            return K_APPEND
    return None
