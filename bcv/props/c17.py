"""C17  NCBI feature-table (.tbl) export lists the model's genes 5'->3', partial marks correct.

The text written by collection_to_tbl is parsed back by an independent 5-column reader (bcv.models.tblreader) and
compared with what the *source spec* (plain lists of blocks / frames / strand + genome string) says must be there.

Monitors
  tbl.format         the export of a valid collection completes and the text is a well-formed 5-column feature table
  tbl.header         one section per exported collection, header line == ">Features <sequence_name>", in call order
  tbl.structure      every gene group of a section is the export of exactly one source gene: a `gene` row followed,
                     per transcript in model order, by [mRNA,] CDS (coding gene) or one *RNA row (non-coding gene)
  tbl.flavour        mRNA rows exist for every coding transcript in the EUKARYOTIC flavour and never in PROKARYOTIC
  tbl.feature-key    tRNA / rRNA genes are exported with the feature key of that name
  tbl.intervals      interval lines == source blocks as 1-based inclusive pairs, 5'->3', start > end on minus
                     (gene: its span; mRNA / *RNA: exons; CDS: CDS blocks)
  tbl.partial-5p     `<` on the first coordinate of a CDS and of its mRNA  <=>  first codon not a start codon of the table
  tbl.partial-3p     `>` on the last coordinate of a CDS and of its mRNA   <=>  not ((len - frame) % 3 == 0 and last codon is a stop)
  tbl.codon-start    CDS carries exactly one codon_start == start frame + 1
  tbl.pseudo         CDS flagged pseudo <=> some transcript of its gene has an in-frame stop (a stop codon before the
                     last codon); no pseudo flag on any feature of a gene without one
  tbl.locus-tags     one locus_tag per gene row, all distinct, the k-th exported gene (k = 1, 2, ... across all
                     collections of the call) carries <prefix>_<step*k>; children carry their gene's tag
  tbl.reproducible   all exports of a case (2 flavours x 3 tables) run on the SAME in-memory collection objects; the first
                     export is then repeated on them with the same random_seed (global random state perturbed in between)
                     and must be byte-identical to the first
  tbl.operand-unchanged  the caller's model is not altered by exporting it: to_dict() of every collection and a direct reading
                     of the live objects (qualifier sets of genes / transcripts, exon and CDS blocks, frames) are equal before
                     the first and after the last export (what makes a second export of the same objects reproducible)

Oracle for the CDS marks (DESIGN C17-O): the property is stated on the *exported* model - a .tbl CDS is its interval list
plus codon_start, i.e. ONE uninterrupted reading frame over the merged (adjacent blocks combined) CDS starting
`frame` bases in.  Codons are recomputed with bcv.models.framemodel.uninterrupted_codons on the merged blocks and read
from the genome string; start codons from Biopython tables (DEFAULT = ATG only, STANDARD = table 1, PROKARYOTE = table 11).

Latitude
  (i)   adjacent (0 bp gap) exon / CDS blocks may be listed combined or one by one (same positions, same order): the
        writer combines them for mRNA / CDS and leaves them for non-coding RNA rows; both readings are "the source blocks".
  (ii)  gene groups are matched to source genes by content (maximum matching), not by file order; the order of genes in
        the file is not part of the property.
  (iii) partial marks on gene and *RNA rows, qualifiers other than locus_tag / codon_start / pseudo, and features with
        other keys (feature collections) are not judged.
  (iv)  genes with a transcript whose merged 5' CDS block is shorter than its start frame (1 bp block, frame 2): known finding
        K13 (recorded for C05: construct_frames_from_location does not carry the rest of the offset into the second block)
        decides which frame the writer rebuilds.  A small marked share of such genes is generated; their frame-dependent
        monitors (partial-5p / partial-3p / pseudo; a StopIteration refusal when the rebuilt frame leaves no complete codon) are
        raised and classify() maps them to the K13 key (REPORT_K13 = True; with False they are only counted in extra["k13-..."])
        (needs a KNOWN_FINDINGS entry for C17).  Intervals, codon_start, structure and locus tags are judged as usual.
  (v)   CDS with fewer than one complete codon are not generated (no "first codon" exists; the refusal is C19's subject);
        genes are homogeneous (all transcripts coding, or none) and single-stranded; non-coding transcripts carry a
        transcript_type (the ncRNA_class qualifier is computed from it).
  Not granted: the first exported gene must carry <prefix>_<step> (the offset starts at 0 and is advanced before use);
  random_seed=0 is "a fixed seed" like any other.
"""
import itertools

from bcv.gen import genes as GG
from bcv.models import framemodel as FM
from bcv.models import seqmodel as SM
from bcv.models import tblreader as TR

ID = "C17"
LEVEL = "exploration"
EXHAUSTIVE = False
RULE = (
    "grid: one gene, one coding transcript for every (strand, start frame 0/1/2, (len-frame)%3, first codon in {ATG, TTG, CTG, GTG, "
    "ATT, none}, last codon stop / none, in-frame stop yes / no, layout in {1 block, 2 blocks with intron, 2 adjacent blocks, 3 blocks "
    "with an adjacent pair and a frame-shifted annotation, UTR exons}) on a C/G background; random: 1-2 collections of 1-4 genes "
    "(coding / tRNA / rRNA / misc_RNA / ncRNA / lncRNA / snoRNA / tmRNA, 1-3 isoforms, 1-4 exons, adjacent blocks, start frames, "
    "programmed frameshifts, engineered start / alternative start / stop / in-frame stop codons; product (single and multi-valued), "
    "gene_synonym, db_xref and note qualifiers on genes and on coding and non-coding transcripts); every case exported in both "
    "flavours x translation tables DEFAULT / STANDARD / PROKARYOTE with sampled prefix / jump size / seed / lab name. Signature = "
    "per transcript (biotype class, strand, #exon blocks, #merged CDS blocks, adjacency, start frame, (len-frame)%3, first-codon "
    "class, 3' complete, in-frame stop, gene pseudo, #isoforms); non-trivial = coding, or multi-exon, or minus strand."
)
SCOPE = {"quick": {"NR": 9000, "grid_stride": 1}, "thorough": {"NR": 100000, "grid_stride": 1}}
FLOOR = {"quick": 2500, "thorough": 6000}
REQUIRED_MONITORS = ["tbl.format", "tbl.header", "tbl.structure", "tbl.flavour", "tbl.feature-key", "tbl.intervals", "tbl.partial-5p",
                     "tbl.partial-3p", "tbl.codon-start", "tbl.pseudo", "tbl.locus-tags", "tbl.reproducible", "tbl.operand-unchanged"]
_W = "inscripta.biocantor.io.ncbi.tbl_writer:"
REACH = [_W + x for x in ("collection_to_tbl", "TblGene.__init__", "TblFeature._location_to_str", "TblFeature._qualifiers_to_str",
                          "GeneTblFeature.__init__", "MRNATblFeature.__init__", "CDSTblFeature.__init__", "NcRNATblFeature.__init__",
                          "TRNATblFeature.__init__", "RRNATblFeature.__init__", "random_uppercase_str")] + [
    "inscripta.biocantor.gene.cds:CDSInterval.optimize_and_combine_blocks",
    "inscripta.biocantor.gene.cds:CDSInterval.has_start_codon_in_specific_translation_table",
]
REACH_REQUIRED = REACH
ASSUMPTIONS = [
    "oracle: independent 5-column reader bcv/models/tblreader.py (self-tested on the TblFeature docstring example and on the bundled "
    "tests/data/*.tbl files) and bcv/models/framemodel.py uninterrupted_codons on the merged CDS; start codons from Bio.Data.CodonTable 1 / 11",
    "collections carry sequence (chromosome parent); genomes are ACGT only (upper case, a share soft-masked in mixed case)",
]
REPORT_K13 = True  # K13 is registered for C17 in KNOWN_FINDINGS.json
FRAME_DEPENDENT = ("tbl.partial-5p", "tbl.partial-3p", "tbl.pseudo")
FLAVOURS = ("EUKARYOTIC", "PROKARYOTIC")
TABLES = ("DEFAULT", "STANDARD", "PROKARYOTE")
NONCODING = ["tRNA", "rRNA", "misc_RNA", "ncRNA", "lncRNA", "snoRNA", "tmRNA"]


def setup(ctx):
    from bcv import core

    core.codon_storm(ctx)


def selftest():
    import glob
    import os

    from bcv import env
    from bcv.core import HarnessError

    try:
        TR.selftest()
        FM.selftest()
        assert _merge([[0, 3], [3, 5], [7, 9], [9, 9], [9, 12]]) == [[0, 5], [7, 12]]
        assert _orient([[0, 5], [7, 12]], "+") == [(1, 5), (8, 12)] and _orient([[0, 5], [7, 12]], "-") == [(12, 8), (5, 1)]
        # documented example of the TblFeature docstring: minus-strand mRNA 14406..14393, 14390..14382, 14380..14026
        assert _orient([[14025, 14380], [14381, 14390], [14392, 14406]], "-") == [(14406, 14393), (14390, 14382), (14380, 14026)]
        m = _tx_model({"exons": [[0, 12]], "cds": [[0, 11]], "frames": [2], "strand": "+"}, "AAATGAAATAAG")
        assert (m["first"], m["last"], m["L"], m["f0"], m["tail"]) == ("ATG", "TAA", 11, 2, 0)
        assert m["p5"] == {"DEFAULT": False, "STANDARD": False, "PROKARYOTE": False} and m["p3"] is False and m["inframe_stop"] is False
        m = _tx_model({"exons": [[0, 12]], "cds": [[0, 6], [6, 12]], "frames": [0, 0], "strand": "-"}, "CTTTTACTACAA")
        assert (m["first"], m["last"], m["tail"], m["p3"], m["inframe_stop"]) == ("TTG", "AAG", 0, True, True)
        assert m["p5"] == {"DEFAULT": True, "STANDARD": False, "PROKARYOTE": False} and m["cds_opts"] == [[(12, 1)], [(12, 7), (6, 1)]]
    except AssertionError as e:
        raise HarnessError(f"C17 model self-test: {e!r}")
    # the reader must digest the bundled, tbl2asn-validated files (read as text only)
    for f in sorted(glob.glob(os.path.join(env.REPO, "tests", "data", "*.tbl"))):
        try:
            secs = TR.parse(open(f).read())
            assert secs and any(s["features"] for s in secs) and all(ft["intervals"] for s in secs for ft in s["features"])
        except (TR.TblFormatError, AssertionError) as e:
            raise HarnessError(f"tblreader cannot read bundled {f}: {e!r}")


# ------------------------------------------------------------------------------------------------------------------
# model side (plain ints / strings)
# ------------------------------------------------------------------------------------------------------------------
def _merge(blocks):
    out = []
    for s, e in sorted([list(b) for b in blocks if b[1] > b[0]]):
        if out and s <= out[-1][1]:
            out[-1][1] = max(out[-1][1], e)
        else:
            out.append([s, e])
    return out


def _orient(blocks, strand):
    """0-based half-open plus-strand blocks -> 1-based inclusive pairs in 5'->3' order."""
    if strand == "-":
        return [(e, s + 1) for s, e in reversed(blocks)]
    return [(s + 1, e) for s, e in blocks]


def _opts(blocks, strand):
    a, b = _orient(_merge(blocks), strand), _orient([list(x) for x in blocks], strand)
    return [a] if a == b else [a, b]


def _tx_model(t, genome):
    strand = t["strand"]
    m = {"coding": bool(t.get("cds")), "strand": strand, "exon_opts": _opts(t["exons"], strand), "nexons": len(t["exons"]),
         "adjacent": len(_merge(t["exons"])) != len(t["exons"])}
    if not m["coding"]:
        return m
    merged = _merge(t["cds"])
    f0 = FM.frames_5to3([int(f) for f in t["frames"]], strand)[0]
    cod = FM.uninterrupted_codons([tuple(b) for b in merged], strand, f0)
    cs = [SM.extract(c, strand, genome).upper() for c in cod]
    L = sum(e - s for s, e in merged)
    first5 = merged[-1] if strand == "-" else merged[0]
    m.update(cds_opts=_opts(t["cds"], strand), f0=f0, L=L, tail=(L - f0) % 3, ncodons=len(cs), first=cs[0] if cs else None,
             last=cs[-1] if cs else None, ncds=len(merged), cds_adjacent=len(merged) != len(t["cds"]),
             k13=(first5[1] - first5[0]) < f0, frameshift=[int(f) for f in t["frames"]] != FM.consistent_frames(t["cds"], strand, f0))
    m["p5"] = {tb: (not cs or cs[0] not in FM.STARTS[tb]) for tb in TABLES}
    m["p3"] = not (m["tail"] == 0 and bool(cs) and cs[-1] in FM.STOPS)
    m["inframe_stop"] = any(c in FM.STOPS for c in cs[:-1])
    return m


def _gene_model(g, genome):
    txs = [_tx_model(t, genome) for t in g["transcripts"]]
    strand = g["transcripts"][0]["strand"]
    lo, hi = GG.gene_span(g)
    coding = any(t["coding"] for t in txs)
    return {"gene_type": g["gene_type"], "strand": strand, "iv": _orient([[lo, hi]], strand), "coding": coding, "txs": txs,
            "pseudo": coding and any(t.get("inframe_stop") for t in txs), "k13": any(t.get("k13") for t in txs)}


# ------------------------------------------------------------------------------------------------------------------
# workload
# ------------------------------------------------------------------------------------------------------------------
def _put(g, codon_pos, text, strand):
    for p, ch in zip(codon_pos, text):
        g[p] = SM.COMP[ch] if strand == "-" else ch


def _engineer(g, t, mode, rng):
    """Write start / stop / in-frame stop codons of the exported reading frame of transcript spec t into genome list g."""
    strand = t["strand"]
    merged = _merge(t["cds"])
    f0 = FM.frames_5to3(t["frames"], strand)[0]
    cod = FM.uninterrupted_codons([tuple(b) for b in merged], strand, f0)
    if not cod:
        return
    if "nostop" in mode:
        for c in cod:
            if SM.extract(c, strand, g).upper() in FM.STOPS:
                _put(g, c, rng.choice(["GCA", "CCC", "AAA", "TTC"]), strand)
    if "start" in mode:
        _put(g, cod[0], "ATG", strand)
    if "alt" in mode:
        _put(g, cod[0], rng.choice(["TTG", "CTG", "GTG", "ATT", "ATA", "ATC"]), strand)
    if "stop" in mode.replace("nostop", "").replace("inframe-stop", ""):
        _put(g, cod[-1], rng.choice(["TAA", "TAG", "TGA"]), strand)
    if "inframe-stop" in mode and len(cod) > 2:
        _put(g, cod[rng.randrange(1, len(cod) - 1)], rng.choice(["TAA", "TAG", "TGA"]), strand)


_ENG = ["none", "nostop", "nostop+start", "nostop+start+stop", "nostop+start+stop", "nostop+alt+stop", "nostop+stop", "nostop+alt",
        "start+stop", "nostop+start+stop+inframe-stop", "nostop+alt+inframe-stop", "nostop+start+stop"]


def _k13_transcript(rng, lo, hi, strand, ident):
    """Coding transcript whose 5' CDS block is 1 bp long with start frame 2 (the K13 situation)."""
    n2 = rng.randint(8, max(8, min(30, hi - lo - 6)))
    gap = rng.randint(1, 3)
    if strand == "+":
        cds = [[lo + 1, lo + 2], [lo + 2 + gap, lo + 2 + gap + n2]]
    else:
        cds = [[lo + 1, lo + 1 + n2], [lo + 1 + n2 + gap, lo + 2 + n2 + gap]]
    exons = [[cds[0][0] - rng.choice([0, 1]), cds[0][1]], [cds[1][0], cds[1][1] + rng.choice([0, 1])]]
    return {"exons": exons, "strand": strand, "cds": cds, "frames": FM.consistent_frames(cds, strand, 2), "transcript_id": "tx" + ident,
            "transcript_symbol": None, "transcript_type": "protein_coding", "protein_id": "prot" + ident, "product": "product " + ident,
            "is_primary_tx": None, "qualifiers": {}, "guid": None}


_PRODUCTS = {"coding": ["kinase_1", "DNA polymerase (subunit beta)", "alpha", "123", "hypothetical protein", "ABC transporter; permease", "cell division protein FtsZ"],
             "rRNA": ["16S_ribosomal_RNA", "23S ribosomal RNA", "5S rRNA", "large_subunit ribosomal RNA"],
             "tRNA": ["tRNA-Ala", "tRNA-Gly", "transfer RNA alanine", "tRNA-Xxx"]}
_SYNONYMS = ["yabC", "b0001", "thrA2", "ORF_19", "locusA"]
_XREFS = ["GeneID:851234", "UniProtKB:P00561", "SGD:S000002142", "ASAP:ABE-0000008"]


def _rich_qualifiers(rng, kind, base=None):
    """Qualifier dictionary the way the GenBank / GFF3 parsers fill it: product (single or multi-valued), gene synonyms,
    db_xref, notes - on top of the generic random keys."""
    q = {k: list(v) for k, v in (base or {}).items()}
    r = rng.random()
    pool = _PRODUCTS.get(kind) or ["small regulatory RNA", "RNase P RNA", "SRP_RNA", "antisense RNA [cis]"]
    if r < 0.5:
        q["product"] = [rng.choice(pool)]
    elif r < 0.7:
        q["product"] = rng.sample(pool, rng.randint(2, 3))
    if rng.random() < 0.3:
        q[rng.choice(["gene_synonym", "synonym"])] = rng.sample(_SYNONYMS, rng.randint(1, 3))
    if rng.random() < 0.3:
        q["db_xref"] = rng.sample(_XREFS, rng.randint(1, 3))
    if rng.random() < 0.2:
        q["note"] = rng.sample(["frameshifted", "putative; partial", "similar to E. coli b0002", "manually curated (2020)"], rng.randint(1, 2))
    return q


def _rand_gene(rng, lo, hi, ident, allow_k13, max_exons=4):
    kind = rng.choice(["coding"] * 6 + NONCODING)
    strand = rng.choice("+-")
    ntx = rng.choice([1, 1, 1, 2, 3])
    txs = []
    for k in range(ntx):
        if allow_k13 and kind == "coding" and rng.random() < 0.5:
            txs.append(_k13_transcript(rng, lo, hi, strand, f"{ident}_{k}"))
            if rng.random() < 0.5:
                txs[-1]["qualifiers"] = _rich_qualifiers(rng, kind)
            continue
        for attempt in range(40):
            t = GG.rand_transcript_spec(rng, lo, hi, coding=(kind == "coding"), max_exons=max_exons, strand=strand, ident=f"{ident}_{k}",
                                        start_offset=rng.choice([0, 0, 1, 2]), qualifiers=rng.random() < 0.5,
                                        frameshifts=None if rng.random() < 0.8 else 1)
            if kind != "coding":
                t["transcript_type"] = kind
                break
            if not t["cds"]:
                continue
            m = _tx_model(t, "A" * hi)
            if m["ncodons"] >= 2 and (allow_k13 or not m["k13"]):
                break
        else:
            a = lo + 1
            t = {"exons": [[lo, min(hi, lo + 14)]], "strand": strand, "cds": [[a, min(hi, lo + 13)]], "frames": [0], "transcript_id": f"tx{ident}_{k}",
                 "transcript_symbol": None, "transcript_type": "protein_coding", "protein_id": None, "product": None, "is_primary_tx": None,
                 "qualifiers": {}, "guid": None}
        if kind == "coding" and rng.random() < 0.3:
            t["product"] = None
        if rng.random() < 0.75:
            t["qualifiers"] = _rich_qualifiers(rng, kind, t.get("qualifiers"))
        txs.append(t)
    return {"transcripts": txs, "gene_id": "gene" + ident, "gene_symbol": rng.choice(["gsym" + ident, None]),
            "gene_type": "protein_coding" if kind == "coding" else kind, "locus_tag": rng.choice(["LT_" + ident, None]),
            "qualifiers": _rich_qualifiers(rng, "gene", GG.rand_qualifiers(rng)) if rng.random() < 0.5 else {}, "guid": None}


def _rand_coll(rng, name, allow_k13, scale=False):
    glen = rng.choice([120, 200, 320]) if not scale else rng.choice([900, 1500])
    ng = rng.choice([1, 2, 2, 3, 4]) if not scale else 1
    genes = []
    for k in range(ng):
        w = rng.randint(20, max(20, glen // 2)) if not scale else glen - 20
        s = rng.randint(0, glen - w)
        # scale: one gene whose transcripts have up to 60 exons (strategies that switch by block count)
        genes.append(_rand_gene(rng, s, s + w, f"{name}g{k}", allow_k13, max_exons=4 if not scale else rng.choice([30, 45, 60])))
    g = list(GG.rand_genome(rng, glen, rng.choice(["ACGT"] * 5 + ["ACGTacgt"])))  # a share of soft-masked (mixed case) genomes
    for gene in genes:
        for t in gene["transcripts"]:
            if t["cds"]:
                _engineer(g, t, rng.choice(_ENG), rng)
    fcolls = [GG.rand_fcoll_spec(rng, 0, glen, ident=name + "f")] if rng.random() < 0.15 else []
    return genes, fcolls, "".join(g)


_FIRSTS = ["ATG", "TTG", "CTG", "GTG", "ATT", "GCC"]


def _grid_layout(kind, strand, f0, tail):
    """(exons, cds, frames): a CDS of >= 4 codons whose merged length L has (L - f0) % 3 == tail."""
    n = 15 + f0 + tail  # merged CDS length
    if kind == 0:  # single block, UTRs on both sides
        cds = [[5, 5 + n]]
        exons = [[2, 5 + n + 3]]
    elif kind == 1:  # two blocks with an intron
        cds = [[5, 12], [20, 20 + n - 7]]
        exons = [[5, 12], [20, 20 + n - 7]]
    elif kind == 2:  # two adjacent blocks (0 bp gap), consistent frames
        cds = [[5, 13], [13, 5 + n]]
        exons = [[3, 13], [13, 5 + n + 2]]
    elif kind == 3:  # three blocks, adjacent pair in the middle, annotation claims a frameshift at the adjacency
        cds = [[5, 10], [14, 19], [19, 14 + n - 5]]
        exons = [[5, 10], [14, 19], [19, 14 + n - 5]]
    elif kind == 5:  # ONE exon whose CDS is two abutting blocks, the annotation claims a frameshift at the adjacency
        cds = [[5, 12], [12, 5 + n]]
        exons = [[2, 5 + n + 3]]
    elif kind == 6:  # ONE exon, CDS of two abutting blocks in one consistent frame
        cds = [[5, 11], [11, 5 + n]]
        exons = [[3, 5 + n + 2]]
    else:  # CDS inside the middle exon of three; adjacent exon pair outside the CDS
        cds = [[12, 12 + n]]
        exons = [[0, 4], [4, 8], [10, 12 + n + 1], [12 + n + 4, 12 + n + 9]]
    fr = FM.consistent_frames(cds, strand, f0)
    if kind == 3:
        fr[1] = (fr[1] + 1) % 3  # the middle block is never the 5' one
    if kind == 5:
        k3 = 1 if strand == "+" else 0     # the 3' block carries the shifted annotation (never the 5' one)
        fr[k3] = (fr[k3] + 1) % 3
    return exons, cds, fr


def _grid_cases(stride):
    idx = 0
    for kind, strand, f0, tail, first, stop, inframe in itertools.product(range(7), "+-", (0, 1, 2), (0, 1, 2), _FIRSTS, (True, False), (True, False)):
        idx += 1
        if idx % stride:
            continue
        exons, cds, fr = _grid_layout(kind, strand, f0, tail)
        glen = exons[-1][1] + 3
        g = [("C", "G")[(i * 7 + idx) % 2] for i in range(glen)]
        t = {"exons": exons, "strand": strand, "cds": cds, "frames": fr, "transcript_id": "tx1", "transcript_symbol": None,
             "transcript_type": "protein_coding", "protein_id": "p1", "product": "kinase 1", "is_primary_tx": None,
             "qualifiers": {"product": ["kinase 1"]} if idx % 2 else {}, "guid": None}
        cod = FM.uninterrupted_codons([tuple(b) for b in _merge(cds)], strand, f0)
        _put(g, cod[0], first, strand)
        if stop:
            _put(g, cod[-1], ("TAA", "TAG", "TGA")[idx % 3], strand)
        if inframe:
            _put(g, cod[1 + idx % (len(cod) - 2)], ("TAG", "TGA", "TAA")[idx % 3], strand)
        gene = {"transcripts": [t], "gene_id": "g1", "gene_symbol": "abc", "gene_type": "protein_coding", "locus_tag": None, "qualifiers": {}, "guid": None}
        yield idx, {"kind": "grid", "names": ["chrG"], "genomes": ["".join(g)], "genes": [[gene]], "fcolls": [[]], "prefix": "GRD", "lab": "lab", "jump": (1, 5, 10)[idx % 3],
                    "seed": (3, 0, 11, 2 ** 31 + 5)[idx % 4], "combos": [[f, tb] for f in FLAVOURS for tb in TABLES]}


def cases(spec, ctx):
    i, n = spec["i"], spec["n"]
    sc = SCOPE[ctx.tier]
    rng = ctx.rng
    for idx, case in _grid_cases(sc["grid_stride"]):
        if idx % n == i:
            yield case
    for k in range(sc["NR"] // n + 1):
        ncoll = rng.choice([1, 1, 2])
        names = rng.sample(["chr1", "contig_2", "NC_000913.3", "gnl|lab|seq7", "X"], ncoll)
        allow_k13 = rng.random() < 0.04
        built = [_rand_coll(rng, nm, allow_k13) for nm in names]
        yield {"kind": "rand-k13" if allow_k13 else "rand", "names": names, "genomes": [b[2] for b in built], "genes": [b[0] for b in built],
               "fcolls": [b[1] for b in built],
               "prefix": rng.choice(["PFX", "test", "AB12", None]), "lab": rng.choice(["inscripta", None]),
               "jump": rng.choice([1, 2, 5, 5, 10, 100, 1000]), "seed": rng.choice([0, 1, 7, 123, 99991, 2 ** 32 - 1]),
               "combos": [[f, tb] for f in FLAVOURS for tb in TABLES]}
    srng = __import__("random").Random(f"C17-scale:{ctx.seed}:{i}")
    for k in range(sc["NR"] // (40 * n) + 1):
        built = [_rand_coll(srng, "chrS", False, scale=True)]
        yield {"kind": "rand-scale", "names": ["chrS"], "genomes": [b[2] for b in built], "genes": [b[0] for b in built], "fcolls": [b[1] for b in built],
               "prefix": "SC", "lab": "lab", "jump": 5, "seed": 7, "combos": [[f, tb] for f in FLAVOURS for tb in TABLES]}


# ------------------------------------------------------------------------------------------------------------------
# comparison of one parsed gene group with one source gene
# ------------------------------------------------------------------------------------------------------------------
def _fdesc(f):
    return {"key": f["key"], "intervals": f["intervals"], "marks": f["marks"], "line": f["line"],
            "q": [(k, v) for k, v in f["qualifiers"] if k in ("locus_tag", "codon_start", "pseudo")]}


def _compare(group, gm, flavour, table):
    """-> list of (monitor, ok, key, detail) for `group` (parsed features, gene row first) read as the export of gene model gm."""
    out = []
    st = gm["strand"]
    grow, kids = group[0], group[1:]
    out.append(("tbl.intervals", grow["intervals"] == gm["iv"], ("gene", st), {"feature": "gene", "got": grow["intervals"], "want": [gm["iv"]]}))
    i = 0
    for k, tm in enumerate(gm["txs"]):
        if tm["coding"]:
            mrow = None
            if i < len(kids) and kids[i]["key"] == "mRNA":
                mrow = kids[i]
                i += 1
            if i >= len(kids) or kids[i]["key"] != "CDS":
                out.append(("tbl.structure", False, ("coding-transcript-without-CDS-row", flavour), {"transcript": k, "got": [f["key"] for f in kids]}))
                return out
            crow = kids[i]
            i += 1
            out.append(("tbl.structure", True, None, None))
            out.append(("tbl.flavour", (mrow is not None) == (flavour == "EUKARYOTIC"), (flavour, "mRNA-row-present" if mrow else "mRNA-row-absent"),
                        {"transcript": k, "got": [f["key"] for f in kids]}))
            for row, opts, what in ((mrow, tm["exon_opts"], "mRNA"), (crow, tm["cds_opts"], "CDS")):
                if row is None:
                    continue
                out.append(("tbl.intervals", row["intervals"] in opts, (what, st, "multi" if len(opts[0]) > 1 else "single"),
                            {"feature": what, "transcript": k, "got": row["intervals"], "want": opts}))
                p5, p3 = TR.partial5(row), TR.partial3(row)
                det = {"feature": what, "transcript": k, "table": table, "first_codon": tm["first"], "last_codon": tm["last"], "frame": tm["f0"],
                       "cds_len": tm["L"], "tail": tm["tail"], "row": _fdesc(row), "k13": tm["k13"]}
                out.append(("tbl.partial-5p", p5 == tm["p5"][table], (what, "missing" if tm["p5"][table] else "spurious", table), dict(det, got=p5, want=tm["p5"][table])))
                out.append(("tbl.partial-3p", p3 == tm["p3"], (what, "missing" if tm["p3"] else "spurious", "tail0" if tm["tail"] == 0 else "tail12"),
                            dict(det, got=p3, want=tm["p3"])))
                sm = TR.stray_marks(row)
                out.append(("tbl.partial-5p" if any(x[2] == "<" for x in sm) else "tbl.partial-3p", not sm, (what, "stray-mark"), dict(det, stray=sm)))
            cs = TR.qualifier(crow, "codon_start")
            out.append(("tbl.codon-start", cs == [str(tm["f0"] + 1)], ("codon_start", st, tm["f0"]), {"transcript": k, "got": cs, "want": tm["f0"] + 1, "k13": tm["k13"]}))
            ps = TR.qualifier(crow, "pseudo")
            out.append(("tbl.pseudo", (len(ps) >= 1) == gm["pseudo"], ("CDS", "missing" if gm["pseudo"] else "spurious"),
                        {"transcript": k, "got": ps, "want": gm["pseudo"], "k13": gm["k13"],
                         "inframe_stop_per_transcript": [t.get("inframe_stop") for t in gm["txs"]]}))
            if mrow is not None and not gm["pseudo"]:
                out.append(("tbl.pseudo", not TR.qualifier(mrow, "pseudo"), ("mRNA", "spurious"), {"transcript": k, "k13": gm["k13"]}))
        else:
            if i >= len(kids) or not kids[i]["key"].endswith("RNA") or kids[i]["key"] == "mRNA":
                out.append(("tbl.structure", False, ("noncoding-transcript-without-RNA-row", flavour), {"transcript": k, "got": [f["key"] for f in kids]}))
                return out
            row = kids[i]
            i += 1
            out.append(("tbl.structure", True, None, None))
            if gm["gene_type"] in ("tRNA", "rRNA"):
                out.append(("tbl.feature-key", row["key"] == gm["gene_type"], (gm["gene_type"],), {"got": row["key"]}))
            out.append(("tbl.intervals", row["intervals"] in tm["exon_opts"], ("RNA", st, "multi" if len(tm["exon_opts"][0]) > 1 else "single"),
                        {"feature": row["key"], "transcript": k, "got": row["intervals"], "want": tm["exon_opts"]}))
            out.append(("tbl.pseudo", not TR.qualifier(row, "pseudo"), ("RNA", "spurious"), {"transcript": k}))
    out.append(("tbl.structure", i == len(kids), ("extra-rows-in-gene-group", flavour), {"got": [f["key"] for f in kids], "transcripts": len(gm["txs"])}))
    if not gm["pseudo"]:
        out.append(("tbl.pseudo", not TR.qualifier(grow, "pseudo"), ("gene", "spurious"), {"k13": gm["k13"]}))
    return out


def _fails(entries):
    return sum(1 for e in entries if not e[1])


def _match(groups, gms, flavour, table):
    """Assign gene groups to source genes: maximum matching over zero-disagreement pairs (latitude ii), the rest by fewest
    disagreements.  -> list of (group index, gene index | None, entries)."""
    cmp = {(a, b): _compare(g, m, flavour, table) for a, g in enumerate(groups) for b, m in enumerate(gms)}
    owner = {}

    def augment(a, seen):
        for b in range(len(gms)):
            if b in seen or _fails(cmp[(a, b)]):
                continue
            seen.add(b)
            if b not in owner or augment(owner[b], seen):
                owner[b] = a
                return True
        return False

    for a in range(len(groups)):
        augment(a, set())
    assigned = {a: b for b, a in owner.items()}
    free = [b for b in range(len(gms)) if b not in owner]

    def cost(a, b):
        e = cmp[(a, b)]
        return (not e[0][1], sum(1 for x in e if x[0] == "tbl.structure" and not x[1]), _fails(e))  # gene span first, then row structure

    rest = sorted((cost(a, b), a, b) for a in range(len(groups)) if a not in assigned for b in free)
    for _, a, b in rest:
        if a not in assigned and b in free:
            assigned[a] = b
            free.remove(b)
    out = [(a, assigned.get(a), cmp[(a, assigned[a])] if a in assigned else []) for a in range(len(groups))]
    return out, free


_JUDGED = ("gene", "mRNA", "CDS")


def _judged(f):
    return f["key"] in _JUDGED or f["key"].endswith("RNA")


def _export(colls, case, flavour, table, seed):
    import io

    from inscripta.biocantor.gene.codon import TranslationTable
    from inscripta.biocantor.io.genbank.constants import GenbankFlavor
    from inscripta.biocantor.io.ncbi.tbl_writer import collection_to_tbl

    fh = io.StringIO()
    # `collections` is documented as an Iterable: a third of the exports (chosen by the case) hand over a one-shot generator
    arg = (c for c in colls) if (case["jump"] + len(case["prefix"] or "") + seed) % 3 == 0 else colls
    collection_to_tbl(arg, fh, translation_table=TranslationTable[table], locus_tag_prefix=case["prefix"], genbank_flavor=GenbankFlavor[flavour],
                      locus_tag_jump_size=case["jump"], submitter_lab_name=case["lab"], random_seed=seed)
    return fh.getvalue()


def _snapshot(colls):
    """What the caller's in-memory model says before / after the exports: the dictionary form of every collection plus a
    direct reading of the live objects (qualifier sets, exon / CDS blocks, frames) that does not go through to_dict()."""
    import copy

    def q(obj):
        return {str(k): sorted(str(x) for x in v) for k, v in (obj.qualifiers or {}).items()}

    def blocks(loc):
        return [(b.start, b.end) for b in loc.blocks]

    out = []
    for c in colls:
        genes = []
        for g in c.genes:
            txs = []
            for tx in g.transcripts:
                txs.append({"qualifiers": q(tx), "exons": blocks(tx.chunk_relative_location), "strand": tx.strand.name,
                            "cds": blocks(tx.cds.chunk_relative_location) if tx.is_coding else None,
                            "frames": [f.value for f in tx.cds.frames] if tx.is_coding else None})
            genes.append({"qualifiers": q(g), "transcripts": txs})
        out.append({"to_dict": copy.deepcopy(c.to_dict()), "live": genes})
    return out


def _first_diff(a, b, path=""):
    """Path of the first difference between two nested snapshots (for the witness)."""
    if type(a) is not type(b):
        return path or "/", repr(a)[:120], repr(b)[:120]
    if isinstance(a, dict):
        for k in sorted(set(a) | set(b), key=str):
            if k not in a or k not in b:
                return f"{path}/{k}", repr(a.get(k))[:120], repr(b.get(k))[:120]
            d = _first_diff(a[k], b[k], f"{path}/{k}")
            if d:
                return d
        return None
    if isinstance(a, (list, tuple)):
        if len(a) != len(b):
            return path + "/len", len(a), len(b)
        for i, (x, y) in enumerate(zip(a, b)):
            d = _first_diff(x, y, f"{path}/{i}")
            if d:
                return d
        return None
    return None if a == b else (path, repr(a)[:120], repr(b)[:120])


def _first_class(tm):
    c = tm["first"]
    return "ATG" if c == "ATG" else ("std-alt" if c in FM.STARTS["STANDARD"] else ("prok-alt" if c in FM.STARTS["PROKARYOTE"] else "none"))


def run_case(case, ctx):
    import random as _random

    # the case is kept shallow (names / genomes / genes / fcolls side by side) so that the stored witness is complete JSON
    colls_spec = [{"genes": gs, "fcolls": fs, "name": "coll" + nm, "sequence_name": nm, "start": None, "end": None, "qualifiers": {}, "genome": gen}
                  for nm, gen, gs, fs in zip(case["names"], case["genomes"], case["genes"], case["fcolls"])]
    gms = [[_gene_model(g, c["genome"]) for g in c["genes"]] for c in colls_spec]
    for per in gms:
        for gm in per:
            for tm in gm["txs"]:
                if tm["coding"]:
                    sig = ("cds", gm["strand"], min(tm["nexons"], 4), min(tm["ncds"], 3), tm["adjacent"], tm["cds_adjacent"], tm["frameshift"], tm["f0"], tm["tail"],
                           _first_class(tm), tm["p3"], tm["inframe_stop"], gm["pseudo"], min(len(gm["txs"]), 3), tm["k13"])
                    ctx.note(sig, nontrivial=True)
                else:
                    ctx.note(("rna", gm["gene_type"], gm["strand"], min(tm["nexons"], 4), tm["adjacent"], min(len(gm["txs"]), 3)),
                             nontrivial=tm["nexons"] > 1 or gm["strand"] == "-")
    ctx.note(("case", case["kind"], len(colls_spec), case["prefix"] is None, case["lab"] is None, case["jump"], case["seed"]), nontrivial=False, klass=case["kind"])
    any_k13 = any(gm["k13"] for per in gms for gm in per)
    if any_k13:
        ctx.bump("cases-with-5p-cds-block-shorter-than-start-frame")

    colls = [GG.build_collection(c, GG.build_parent({"mode": "chrom", "genome": c["genome"], "seqname": c["sequence_name"]})) for c in colls_spec]
    seed = case["seed"]
    first_text = None
    before, exc = ctx.call(_snapshot, colls)
    if exc is not None:
        ctx.check("tbl.operand-unchanged", False, key=("snapshot-raised", type(exc).__name__), exc=repr(exc)[:300])
    for flavour, table in case["combos"]:
        text, exc = ctx.call(_export, colls, case, flavour, table, seed)
        if exc is not None:
            if any_k13 and isinstance(exc, StopIteration) and not REPORT_K13:
                # latitude (iv)+(v): the frame vector rebuilt under K13 leaves the exported CDS without a complete codon
                ctx.seen("tbl.format")
                ctx.bump("k13-export-refused-not-raised")
                continue
            ctx.check("tbl.format", False, key=("export-raised", type(exc).__name__), flavour=flavour, table=table, exc=repr(exc)[:300], any_k13=any_k13)
            continue
        if first_text is None:
            first_text = (flavour, table, text)
        _judge_text(text, colls_spec, gms, case, flavour, table, ctx)

    # ---- reproducibility: same collections, same seed, perturbed global random state ----------------------------------
    if first_text is not None and seed is not None:
        flavour, table, text = first_text
        _random.seed(f"c17-perturbation-{len(text)}")
        _random.random()
        text2, exc = ctx.call(_export, colls, case, flavour, table, seed)
        same = exc is None and text2 == text
        diff = None
        if exc is None and not same:
            diff = next(((a, b) for a, b in zip(text.split("\n"), text2.split("\n")) if a != b), None)
        has_random = case["prefix"] is None or case["lab"] is None or any(gm["coding"] for per in gms for gm in per)
        ctx.check("tbl.reproducible", same, key=("same-seed-differs", "seed==0" if seed == 0 else "seed!=0", "raised" if exc else "text"), seed=seed,
                  first_difference=diff, exc=repr(exc)[:200] if exc else None, random_content=has_random, exports_before_repeat=len(case["combos"]))

    # ---- the caller's model is an operand of the export, not its scratch space ---------------------------------------
    if before is not None:
        after, exc = ctx.call(_snapshot, colls)
        if exc is not None:
            ctx.check("tbl.operand-unchanged", False, key=("snapshot-raised-after-export", type(exc).__name__), exc=repr(exc)[:300])
        else:
            d = _first_diff(before, after)
            what = None
            if d:
                what = "qualifiers" if "qualifiers" in d[0] else ("blocks" if any(x in d[0] for x in ("exon", "cds", "frames")) else "other")
            ctx.check("tbl.operand-unchanged", d is None, key=("changed", what), first_difference=d)


def _judge_text(text, colls_spec, gms, case, flavour, table, ctx):
    try:
        sections = TR.parse(text)
    except TR.TblFormatError as e:
        ctx.check("tbl.format", False, key=("malformed", flavour), error=str(e)[:200], text=text[:1500])
        return
    ctx.check("tbl.format", True)
    common = {"flavour": flavour, "table": table}
    want_headers = [f">Features {c['sequence_name']}" for c in colls_spec]
    got_headers = [s["header"] for s in sections]
    if not ctx.check("tbl.header", got_headers == want_headers, key=("headers",), got=got_headers, want=want_headers, **common):
        return
    tags = []
    for sec, per in zip(sections, gms):
        feats = [f for f in sec["features"] if _judged(f)]
        groups = []
        orphan = 0
        for f in feats:
            if f["key"] == "gene":
                groups.append([f])
            elif groups:
                groups[-1].append(f)
            else:
                orphan += 1
        ctx.check("tbl.structure", orphan == 0 and len(groups) == len(per), key=("gene-count", flavour), section=sec["name"], orphan_rows=orphan,
                  got_genes=len(groups), want_genes=len(per), **common)
        pairs, free = _match(groups, per, flavour, table)
        for a, b, entries in pairs:
            if b is None:
                ctx.check("tbl.structure", False, key=("gene-group-without-source-gene", flavour), group=[_fdesc(f) for f in groups[a]], **common)
                continue
            for monitor, ok, key, detail in entries:
                if ok:
                    ctx.seen(monitor)
                elif per[b]["k13"] and monitor in FRAME_DEPENDENT and not REPORT_K13:
                    ctx.seen(monitor)  # latitude (iv): evaluated and counted, decided by known finding K13
                    ctx.bump("k13-frame-dependent-disagreements-not-raised")
                else:
                    ctx.check(monitor, False, key=key, section=sec["name"], gene_index=b, group=[_fdesc(f) for f in groups[a]],
                              gene_strand=per[b]["strand"], **dict(detail or {}, **common))
        for g in groups:
            tags.append((TR.qualifier(g[0], "locus_tag"), [TR.qualifier(f, "locus_tag") for f in g[1:]]))
    # ---- locus tags (file order across all sections) ------------------------------------------------------------------
    jump, prefix = case["jump"], case["prefix"]
    flat = [t[0][0] if len(t[0]) == 1 else None for t in tags]
    ctx.check("tbl.locus-tags", None not in flat, key=("one-tag-per-gene-row",), got=[t[0] for t in tags], **common)
    if None in flat or not flat:
        return
    ctx.check("tbl.locus-tags", len(set(flat)) == len(flat), key=("unique",), got=flat, jump=jump, **common)
    if prefix is None:
        prefix = flat[0].rsplit("_", 1)[0]
    want = [f"{prefix}_{jump * (k + 1)}" for k in range(len(flat))]
    firstbad = next((k for k, (a, b) in enumerate(zip(flat, want)) if a != b), None)
    ctx.check("tbl.locus-tags", flat == want, key=("value", "first-gene" if firstbad == 0 else "later-gene"), got=flat, want=want, jump=jump, **common)
    ctx.check("tbl.locus-tags", all(ch == own for own, kids in tags for ch in kids), key=("child-tag",), got=[[a, b] for a, b in tags][:6], **common)


def classify(v):
    """K13 (recorded for C05): construct_frames_from_location(loc, f) when the 5' block is shorter than f does not describe one
    uninterrupted frame; the writer rebuilds the frames of every merged multi-block CDS with it, so codon_start / partial marks /
    pseudo of such a CDS follow the library's broken frame vector.  Mechanistic predicate: the judged gene contains a transcript
    whose merged 5' CDS block is shorter than its start frame (recomputed from the stored case), and the monitor is one of the
    frame-dependent ones."""
    d = v.get("detail") or {}
    case = v.get("case") or {}
    k2 = (v.get("key") or [None])[:2]
    if v.get("monitor") == "tbl.format" and (k2 == ["export-raised", "StopIteration"] or
                                             (k2 == ["export-raised", "ValueError"] and "Codon not a multiple of 3" in str(d.get("exc")))):
        # the K13 frame vector leaves fewer bases than the uninterrupted frame does; a short CDS then has no complete codon (the writer's
        # first-codon lookup raised StopIteration before F-fix of has_start_codon; its has_valid_stop now reads Codon("") -> ValueError)
        try:
            if any(_gene_model(g, gen)["k13"] for gs, gen in zip(case["genes"], case["genomes"]) for g in gs):
                return "K13-construct-frames-first-block-shorter-than-offset"
        except (KeyError, TypeError, IndexError):
            pass
        return None
    if v.get("monitor") not in FRAME_DEPENDENT:
        return None
    try:
        k = case["names"].index(d["section"])
        gm = _gene_model(case["genes"][k][d["gene_index"]], case["genomes"][k])
    except (KeyError, ValueError, IndexError, TypeError):
        return None
    if gm["k13"]:
        return "K13-construct-frames-first-block-shorter-than-offset"
    return None
