"""C06  Genome, transcript and CDS coordinate systems of a transcript commute.

Reference model: bcv.models.posmodel position lists.  E = exon positions 5'->3', C = CDS positions 5'->3' (a contiguous
sub-list of E), both built from (blocks, strand) without BioCantor code.  Every conversion is list indexing:
  chromosome -> transcript  E.index(p)         transcript -> chromosome  E[i]
  chromosome -> CDS         C.index(p)         CDS -> chromosome         C[i]
  CDS -> transcript         E.index(C[i])      transcript -> CDS         C.index(E[j])
  amino acid                C.index(p) // 3
  5' UTR  E[:E.index(C[0])]     3' UTR  E[E.index(C[-1]) + 1:]     introns  set(range(lo, hi)) - set(E)
The three "systems" (transcript, feature, CDS) expose the same eight methods each (position / interval, to / from the
system, chromosome / chunk-relative); one generic driver checks them all.  On a parent that is a sequence chunk
[cs, ce) covering the whole transcript, chunk-relative coordinate == chromosome coordinate - cs; on every other parent
chunk-relative == chromosome.

Monitors
  tx.pos-maps         sequence_pos_to_transcript / transcript_pos_to_sequence / chunk_relative_pos_to_transcript /
                      transcript_pos_to_chunk_relative == E indexing; every probe outside the source system rejected
  tx.interval-maps    sequence_interval_to_transcript / transcript_interval_to_sequence (+ chunk-relative twins):
                      positions and strand of the result == the model slice; disjoint source interval refused; invalid
                      relative bounds refused; zero-width requests answered with len == 0
  feature.maps        the same eight methods of FeatureInterval (sequence_pos_to_feature ... feature_interval_to_chunk_relative)
  cds.pos-maps        the four point conversions of the CDS system through the TranscriptInterval wrappers and directly
                      on the CDSInterval; UTR / intron / outside positions rejected
  cds.interval-maps   the four interval conversions of the CDS system (wrappers and direct)
  cds-tx.maps         cds_pos_to_transcript / transcript_pos_to_cds == the model; UTR and out-of-range positions rejected
  commute.paths       library vs library: chromosome->CDS == chromosome->transcript->CDS (same answer or both refused),
                      CDS->chromosome == CDS->transcript->chromosome, also through the chunk-relative methods
  commute.inverse     library vs library: each conversion is inverted by its counterpart (all six point pairs)
  cds.amino-acid      CDSInterval.sequence_pos_to_amino_acid(p) == C.index(p) // 3 (an int); non-CDS positions rejected
  utr.partition       get_5p_interval / cds location / get_3p_interval == the model slices, on the transcript strand,
                      pairwise disjoint, concatenated in that order == E exactly
  utr.empty-at-end    a UTR is empty (len == 0), not an error, when the CDS reaches that end of the transcript
  introns.span-minus-exons   chromosome_intron_location / chromosome_gaps_location / chunk-relative twins == span minus
                      exons (len == 0 when there is none); chromosome_span / chunk_relative_span == [lo, hi)
  noncoding.refused   on a transcript without CDS every CDS conversion and both UTR accessors are refused with a
                      BioCantor exception (there is no CDS system: every position is outside it)

Latitude
  * transcripts whose CDS blocks overlap each other are not generated (C is not a sub-list of E there); a CDS that *skips*
    1..2 bases inside an exon (+1 / +2 frameshift model) is generated (variant "skip"): C is then a non-contiguous sub-list of E,
    the skipped bases have no CDS position (rejected) and belong to neither UTR nor CDS, everything else is list indexing as before;
  * exon blocks that overlap or nest (kind "ovl", non-coding transcripts and features): a doubly covered base has two transcript
    positions, either is accepted; position -> sequence follows the library's own canonical block order, whose multiset of
    positions must equal the spec's; only the point maps are claimed there;
  * zero-width results are compared by len == 0 only (their coordinates, type and strand are free);
  * "rejected" = any BioCantorException or ValueError;
  * a result whose strand is unstranded is compared as a multiset of positions;
  * source intervals are always valid intervals of the source system (0 <= start < end <= sequence length); an
    interval sharing no base with the target system must be refused, a partial overlap maps the shared bases;
  * the strand of intron / span locations is not compared (the property speaks of the position set).
"""
import random

from bcv.gen import loc as G
from bcv.gen import genes as GG
from bcv.models import framemodel as FM
from bcv.models import posmodel as PM

ID = "C06"
LEVEL = "exploration"
EXHAUSTIVE = False
RULE = (
    "exhaustive: every layout of 1..3 non-empty exons (gaps incl. 0 bp) over GE positions x both strands x every CDS "
    "placement (CDS = exons clipped to [a, b] for every pair of exon positions a <= b, plus the variant with CDS blocks "
    "merged across 0-bp exon gaps) x parent in {none, chromosome with sequence, covering sequence chunk, chromosome "
    "without sequence} x every position of span+-2 / every relative index -2..len+1 x every sub-interval (transcript and "
    "feature system: all (start, end, strand) in both coordinate flavours; CDS system: all (start, end) with rotating "
    "strand and flavour); seeded random transcripts with 1..4 exons on genomes of 30..400 bp (CDS modes random / full / "
    "start-at-boundary / end-at-boundary / single-exon, merged and split CDS blocks, non-coding) with every position and "
    "sampled sub-intervals. Non-trivial = distinct (exon lengths, gaps, strand, CDS start index, CDS end index, number of "
    "CDS blocks, parent mode) with >= 2 exons or minus strand or a CDS that is a proper part of the transcript."
)
SCOPE = {"quick": {"GE": 7, "NR": 4800, "NI": 12}, "thorough": {"GE": 10, "NR": 24000, "NI": 30}}
EXHAUSTIVE_SCOPE = {t: f"exon layouts over {s['GE']} positions, <= 3 exons, all CDS placements, all positions" for t, s in SCOPE.items()}
FLOOR = {"quick": 4000, "thorough": 30000}
REQUIRED_MONITORS = ["tx.pos-maps", "tx.interval-maps", "feature.maps", "cds.pos-maps", "cds.interval-maps", "cds-tx.maps",
                     "commute.paths", "commute.inverse", "cds.amino-acid", "utr.partition", "utr.empty-at-end",
                     "introns.span-minus-exons", "noncoding.refused"]
_T = "inscripta.biocantor.gene.transcript:TranscriptInterval."
_A = "inscripta.biocantor.gene.interval:AbstractFeatureInterval."
_C = "inscripta.biocantor.gene.cds:CDSInterval."
REACH = (
    [_T + x for x in ("cds_pos_to_transcript", "transcript_pos_to_cds", "get_5p_interval", "get_3p_interval", "sequence_pos_to_transcript",
                      "chunk_relative_pos_to_transcript", "sequence_interval_to_transcript", "chunk_relative_interval_to_transcript",
                      "transcript_pos_to_sequence", "transcript_pos_to_chunk_relative", "transcript_interval_to_sequence",
                      "transcript_interval_to_chunk_relative", "cds_pos_to_sequence", "cds_pos_to_chunk_relative", "cds_interval_to_sequence",
                      "cds_interval_to_chunk_relative", "sequence_pos_to_cds", "chunk_relative_pos_to_cds", "sequence_interval_to_cds",
                      "chunk_relative_interval_to_cds", "chromosome_intron_location", "chunk_relative_intron_location")]
    + [_A + x for x in ("sequence_pos_to_feature", "sequence_interval_to_feature", "feature_pos_to_sequence", "feature_interval_to_sequence",
                        "chunk_relative_pos_to_feature", "chunk_relative_interval_to_feature", "feature_pos_to_chunk_relative",
                        "feature_interval_to_chunk_relative", "chromosome_gaps_location", "chromosome_span", "chunk_relative_gaps_location",
                        "chunk_relative_span")]
    + [_C + x for x in ("cds_pos_to_sequence", "cds_pos_to_chunk_relative", "cds_interval_to_sequence", "cds_interval_to_chunk_relative",
                        "sequence_pos_to_cds", "chunk_relative_pos_to_cds", "sequence_interval_to_cds", "chunk_relative_interval_to_cds",
                        "sequence_pos_to_amino_acid")]
    + ["inscripta.biocantor.location.location_impl:CompoundInterval.relative_interval_to_parent_location"]
)
REACH_REQUIRED = REACH
ASSUMPTIONS = [
    "oracle: position-list model (bcv/models/posmodel.py): E and C are Python lists built from (blocks, strand); self-tested against the "
    "literal examples of tests/minimal/gene/test_transcript.py and test_cds.py",
    "a sequence-chunk parent that covers the whole transcript shifts every chunk-relative coordinate by the chunk start and nothing else",
]
WATCHDOG = {"quick": 1500, "thorough": 4 * 3600}

MODES = ("none", "chrom", "chunk", "chrom-noseq")
NAMES = {
    "transcript": ("sequence_pos_to_transcript", "chunk_relative_pos_to_transcript", "transcript_pos_to_sequence",
                   "transcript_pos_to_chunk_relative", "sequence_interval_to_transcript", "chunk_relative_interval_to_transcript",
                   "transcript_interval_to_sequence", "transcript_interval_to_chunk_relative"),
    "feature": ("sequence_pos_to_feature", "chunk_relative_pos_to_feature", "feature_pos_to_sequence", "feature_pos_to_chunk_relative",
                "sequence_interval_to_feature", "chunk_relative_interval_to_feature", "feature_interval_to_sequence",
                "feature_interval_to_chunk_relative"),
    "cds": ("sequence_pos_to_cds", "chunk_relative_pos_to_cds", "cds_pos_to_sequence", "cds_pos_to_chunk_relative",
            "sequence_interval_to_cds", "chunk_relative_interval_to_cds", "cds_interval_to_sequence", "cds_interval_to_chunk_relative"),
}
CDS_METHODS_ON_NONCODING = (
    ("cds_pos_to_sequence", "rel"), ("cds_pos_to_chunk_relative", "rel"), ("cds_interval_to_sequence", "reli"),
    ("cds_interval_to_chunk_relative", "reli"), ("sequence_pos_to_cds", "src"), ("chunk_relative_pos_to_cds", "csrc"),
    ("sequence_interval_to_cds", "srci"), ("chunk_relative_interval_to_cds", "csrci"), ("cds_pos_to_transcript", "rel"),
    ("transcript_pos_to_cds", "rel"), ("get_5p_interval", "none"), ("get_3p_interval", "none"),
)


# ------------------------------------------------------------------------------------------------------------------
# model
# ------------------------------------------------------------------------------------------------------------------
def model(exons, strand, cds, gapped=False):
    """gapped: the CDS skips one or two bases inside an exon (how a +1 / +2 frameshift is modelled): C is then an order-preserving
    but not contiguous sub-list of E; the skipped bases belong to neither UTR nor CDS."""
    E = PM.positions(exons, strand)
    lo, hi = min(s for s, _ in exons), max(e for _, e in exons)
    m = {"E": E, "C": None, "lo": lo, "hi": hi, "introns": set(range(lo, hi)) - set(E)}
    if cds:
        C = PM.positions(cds, strand)
        a, b = E.index(C[0]), E.index(C[-1])
        where = [E.index(p) if p in E else -1 for p in C]
        if (E[a:b + 1] != C and not gapped) or -1 in where or where != sorted(set(where)):
            from bcv.core import HarnessError

            raise HarnessError(f"generator produced a CDS that is not a {'sub-list' if gapped else 'contiguous part'} of the exons: {exons} {cds}")
        m.update(C=C, a=a, b=b, utr5=E[:a], utr3=E[b + 1:], clo=min(s for s, _ in cds), chi=max(e for _, e in cds))
    return m


def selftest():
    from bcv.core import HarnessError

    try:
        PM.selftest()
        ex = [(2, 6), (7, 10), (12, 15)]
        m = model(ex, "+", [(7, 10)])  # e3_spliced_utr
        assert [m["E"].index(m["C"][i]) for i in range(3)] == [4, 5, 6]
        assert m["utr5"] == [2, 3, 4, 5] and m["utr3"] == [12, 13, 14]
        m = model(ex, "-", [(7, 10)])  # e3_spliced_utr_minus
        assert [m["E"].index(m["C"][i]) for i in range(3)] == [3, 4, 5]
        assert [m["C"].index(m["E"][j]) for j in (3, 4, 5)] == [0, 1, 2]
        m = model(ex, "+", [(4, 6), (7, 10), (12, 13)])  # e3_spliced
        assert m["utr5"] == [2, 3] and m["utr3"] == [13, 14] and m["introns"] == {6, 10, 11}
        m = model([(0, 18)], "+", [(0, 18)])  # se_unspliced
        assert m["utr5"] == [] and m["utr3"] == [] and m["introns"] == set()
        cds = [(2, 4), (6, 7), (10, 13), (14, 17)]  # test_cds.py sequence_pos_to_cds / amino acid tables
        C = PM.positions(cds, "+")
        assert [C.index(p) for p in (2, 3, 6, 10, 12)] == [0, 1, 2, 3, 5] and [C.index(p) // 3 for p in (2, 3, 6, 10, 12)] == [0, 0, 0, 1, 1]
        C = PM.positions(cds, "-")
        assert [C.index(p) for p in (16, 14, 12, 10, 6, 2)] == [0, 2, 3, 5, 6, 8]
        assert [C.index(p) // 3 for p in (16, 14, 12, 10, 6, 2)] == [0, 0, 1, 1, 2, 2]
        assert all(p not in C for p in (0, 1, 5, 13, 20))
    except AssertionError as e:
        raise HarnessError(f"C06 model self-test: {e!r}")


# ------------------------------------------------------------------------------------------------------------------
# workload
# ------------------------------------------------------------------------------------------------------------------
def _layouts(ge):
    for lay in G.enum_layouts(ge, 3):
        if all(e > s for s, e in lay):
            yield [list(b) for b in lay]


def _merge_adjacent(cds):
    out = [list(cds[0])]
    for s, e in cds[1:]:
        if s == out[-1][1]:
            out[-1][1] = e
        else:
            out.append([s, e])
    return out


def _pspec(mode, lo, hi, glen, k):
    if mode == "chunk":
        return {"mode": "chunk", "window": [max(0, lo - (k % 3)), min(glen, hi + ((k // 3) % 3))]}
    return {"mode": mode}


def _exhaustive(ge):
    """(index, case) for the complete small scope."""
    glen = ge + 2
    idx = 0
    for lay in _layouts(ge):
        lo, hi = lay[0][0], lay[-1][1]
        pos = [p for s, e in lay for p in range(s, e)]
        for strand in "+-":
            idx += 1
            yield idx, {"kind": "tx", "exons": lay, "strand": strand, "cds": None, "frames": None, "glen": glen, "ivl": "all",
                        "_p": (lo, hi)}
            for ai, a in enumerate(pos):
                for b in pos[ai:]:
                    cds = GG.clip_blocks(lay, a, b + 1)
                    variants = [cds]
                    merged = _merge_adjacent(cds)
                    if len(merged) != len(cds):
                        variants.append(merged)
                    for v in variants:
                        idx += 1
                        yield idx, {"kind": "cds", "exons": lay, "strand": strand, "cds": v, "frames": None, "glen": glen, "ivl": "rot",
                                    "_p": (lo, hi)}


def cases(spec, ctx):
    i, n = spec["i"], spec["n"]
    sc = SCOPE[ctx.tier]
    for idx, case in _exhaustive(sc["GE"]):
        if idx % n != i:
            continue
        k = idx // n + ctx.seed  # the seed rotates which parent mode / strand rotation / start frame a placement is run with
        lo, hi = case.pop("_p")
        case["parent"] = _pspec(MODES[k % 4], lo, hi, case["glen"], k // 4)
        case["rot"] = k % 6
        if case["cds"]:
            case["frames"] = FM.consistent_frames(case["cds"], case["strand"], k % 3)
        yield case
    rng = ctx.rng
    for k in range(sc["NR"] // n + 1):
        glen = rng.choice([30, 60, 120, 400])
        lo = rng.randint(0, glen // 4)
        hi = glen - rng.randint(0, glen // 4)
        t = GG.rand_transcript_spec(rng, lo, hi, coding=(rng.random() < 0.88), max_exons=4, qualifiers=False)
        cds, frames = t["cds"], t["frames"]
        variant = "plain"
        if cds:
            r = rng.random()
            merged = _merge_adjacent(cds)
            if r < 0.3 and len(merged) != len(cds):
                cds, variant = merged, "merged"
            elif r > 0.85:
                big = [j for j, (s, e) in enumerate(cds) if e - s >= 2]
                if big:
                    j = rng.choice(big)
                    s, e = cds[j]
                    cut = rng.randint(s + 1, e - 1)
                    cds, variant = cds[:j] + [[s, cut], [cut, e]] + cds[j + 1:], "split"
            if variant == "plain" and 0.62 < r < 0.85:
                # a CDS that skips 1..2 bases inside an exon (+1 / +2 frameshift model): not contiguous on the spliced transcript
                big = [j for j, (s, e) in enumerate(cds) if e - s >= 4]
                if big:
                    j = rng.choice(big)
                    s, e = cds[j]
                    k = rng.choice([1, 1, 2])
                    cut = rng.randint(s + 1, e - 1 - k)
                    cds, variant = cds[:j] + [[s, cut], [cut + k, e]] + cds[j + 1:], "skip"
            if variant != "plain":
                frames = FM.consistent_frames(cds, t["strand"], rng.choice([0, 0, 1, 2]))
        mode = rng.choice(MODES)
        pspec = {"mode": mode}
        if mode == "chunk":
            pspec["window"] = [rng.choice([t["exons"][0][0], rng.randint(0, t["exons"][0][0])]),
                               rng.choice([t["exons"][-1][1], rng.randint(t["exons"][-1][1], glen)])]
        yield {"kind": "rand", "exons": t["exons"], "strand": t["strand"], "cds": cds, "frames": frames, "glen": glen, "parent": pspec,
               "ivl": "sample", "nint": sc["NI"], "seed": rng.randrange(1 << 30), "variant": variant}
    # scale (own stream): transcripts of 17..60 exons (strategies that switch by block count), CDS anywhere, every position
    srng = random.Random(f"C06-scale:{ctx.seed}:{i}")
    for k in range(sc["NR"] // (30 * n) + 1):
        glen = srng.choice([400, 700])
        t = None
        while t is None or len(t["exons"]) < 17:
            t = GG.rand_transcript_spec(srng, srng.randint(0, 10), glen - srng.randint(0, 10), coding=(srng.random() < 0.85), max_exons=srng.choice([24, 40, 60]),
                                        qualifiers=False, frameshifts=0)
        mode = srng.choice(MODES)
        pspec = {"mode": mode}
        if mode == "chunk":
            pspec["window"] = [srng.randint(0, t["exons"][0][0]), srng.randint(t["exons"][-1][1], glen)]
        yield {"kind": "rand", "exons": t["exons"], "strand": t["strand"], "cds": t["cds"], "frames": t["frames"], "glen": glen, "parent": pspec,
               "ivl": "sample", "nint": 6, "seed": srng.randrange(1 << 30), "variant": "scale-many-exons"}
    # transcripts / features whose exon blocks overlap or nest (the location classes keep such blocks; a doubly covered base has two
    # positions on the transcript).  Own random stream, so the cases above do not depend on this leg.
    orng = random.Random(f"C06-ovl:{ctx.seed}:{i}")
    for k in range(sc["NR"] // (4 * n) + 1):
        glen = orng.choice([16, 30, 60])
        nb = orng.choice([2, 2, 3, 4])
        blocks = []
        while len(blocks) < nb:
            s0 = orng.randint(0, glen - 3)
            blocks.append([s0, orng.randint(s0 + 1, min(glen, s0 + orng.choice([2, 5, 12])))])
        # force one nested / straddling pair
        s0, e0 = max(blocks, key=lambda b: b[1] - b[0])
        if e0 - s0 >= 3:
            blocks.append(orng.choice([[s0 + 1, e0 - 1], [s0, e0 - 1], [s0 + 1, min(glen, e0 + 1)]]))
        blocks = sorted(set(map(tuple, blocks)))
        mode = orng.choice(MODES)
        pspec = {"mode": mode}
        if mode == "chunk":
            pspec["window"] = [orng.randint(0, blocks[0][0]), orng.randint(max(e for _, e in blocks), glen)]
        yield {"kind": "ovl", "exons": [list(b) for b in blocks], "strand": orng.choice("+-"), "cds": None, "frames": None, "glen": glen,
               "parent": pspec}


# ------------------------------------------------------------------------------------------------------------------
# helpers
# ------------------------------------------------------------------------------------------------------------------
REJECT = None
STR3 = ("+", "-", ".")


def _reject_types():
    global REJECT
    if REJECT is None:
        from inscripta.biocantor.exc import BioCantorException

        REJECT = (BioCantorException, ValueError)
    return REJECT


def _x(exc):
    return repr(exc)[:160] if exc is not None else None


def _enum(loc, shift=0):
    """(positions 5'->3' in chromosome coordinates, strand symbol) of a result location read through its public surface."""
    r = PM.read_location(loc)
    if r is None:
        return [], None
    blocks, st = r
    return [p + shift for p in PM.positions(blocks, st)], st


def _is_int(r):
    return isinstance(r, int) and not isinstance(r, bool)


def check_points(ctx, mon, obj, names, P, probes, shift, tag):
    """The four point conversions of one system against list indexing on P."""
    rej = _reject_types()
    idx = {p: i for i, p in enumerate(P)}
    n = len(P)
    to_rel = ((getattr(obj, names[0]), names[0], 0), (getattr(obj, names[1]), names[1], shift))
    to_src = ((getattr(obj, names[2]), names[2], 0), (getattr(obj, names[3]), names[3], shift))
    for p in probes:
        for fn, nm, sh in to_rel:
            r, e = ctx.call(fn, p - sh)
            if p in idx:
                ctx.check(mon, e is None and _is_int(r) and r == idx[p], key=(tag, nm, "value"), pos=p - sh, got=r, want=idx[p], exc=_x(e))
            else:
                ctx.check(mon, isinstance(e, rej), key=(tag, nm, "reject-outside"), pos=p - sh, got=r, exc=_x(e))
    for i in range(-2, n + 2):
        for fn, nm, sh in to_src:
            r, e = ctx.call(fn, i)
            if 0 <= i < n:
                ctx.check(mon, e is None and _is_int(r) and r == P[i] - sh, key=(tag, nm, "value"), index=i, got=r, want=P[i] - sh, exc=_x(e))
            else:
                ctx.check(mon, isinstance(e, rej), key=(tag, nm, "reject-outside"), index=i, length=n, got=r, exc=_x(e))


def check_rel_interval(ctx, mon, fn, nm, P, lstrand, s, e, r, sh, tag):
    """system interval [s, e) with relative strand r -> spliced location on the sequence."""
    res, exc = ctx.call(fn, s, e, G.strand_of(r))
    if exc is not None:
        ctx.check(mon, False, key=(tag, nm, "raised", "zero-width-at-3p-end" if s == e == len(P) else ("zero-width" if s == e else "non-empty"),
                                   type(exc).__name__), s=s, e=e, r=r, length=len(P), exc=_x(exc))
        return
    if s == e:
        ctx.check(mon, len(res) == 0, key=(tag, nm, "zero-width-len"), s=s, e=e, r=r, got=repr(res)[:120])
        return
    got, gst = _enum(res, sh)
    want = P[s:e][::-1] if r == "-" else P[s:e]
    wst = PM.compose_strand(lstrand, r)
    ok = (sorted(got) == sorted(want)) if wst == "." else (got == want)
    ctx.check(mon, ok and gst == wst, key=(tag, nm, "value"), s=s, e=e, r=r, got=got, want=want, got_strand=gst, want_strand=wst)


def check_src_interval(ctx, mon, fn, nm, P, idx, lstrand, s, e, q, sh, tag):
    """contiguous sequence interval [s, e) (chromosome coordinates; passed shifted by sh) with strand q -> location in the system."""
    res, exc = ctx.call(fn, s - sh, e - sh, G.strand_of(q))
    Q = PM.positions([(s, e)], q)
    shared = [p for p in Q if p in idx]
    if not shared:
        ctx.check(mon, isinstance(exc, _reject_types()), key=(tag, nm, "disjoint-refused"), s=s - sh, e=e - sh, q=q, got=repr(res)[:120], exc=_x(exc))
        return
    if exc is not None:
        ctx.check(mon, False, key=(tag, nm, "raised", type(exc).__name__), s=s - sh, e=e - sh, q=q, exc=_x(exc))
        return
    got, gst = _enum(res)
    want = [idx[p] for p in shared]
    wst = PM.compose_strand(q, lstrand)
    ok = (sorted(got) == sorted(want)) if wst == "." else (got == want)
    ctx.check(mon, ok and gst == wst, key=(tag, nm, "value"), s=s - sh, e=e - sh, q=q, got=got, want=want, got_strand=gst, want_strand=wst)


def check_intervals(ctx, mon, obj, names, P, lstrand, wlo, whi, clo, chi, shift, tag, plan, rot, rng, nint, extra_rel=()):
    """The four interval conversions.  Source windows lie in [wlo, whi] (chromosome flavour) / [clo, chi] (chunk flavour)."""
    idx = {p: i for i, p in enumerate(P)}
    n = len(P)
    s2r, c2r, r2s, r2c = (getattr(obj, nm) for nm in names[4:8])
    flav_rel = ((r2s, names[6], 0), (r2c, names[7], shift))
    flav_src = ((s2r, names[4], 0, wlo, whi), (c2r, names[5], shift, clo, chi))
    if plan == "all":
        for s in range(n + 1):
            for e in range(s, n + 1):
                for r in STR3:
                    for fn, nm, sh in flav_rel:
                        check_rel_interval(ctx, mon, fn, nm, P, lstrand, s, e, r, sh, tag)
        for fn, nm, sh, a, b in flav_src:
            for s in range(a, b):
                for e in range(s + 1, b + 1):
                    for q in STR3:
                        check_src_interval(ctx, mon, fn, nm, P, idx, lstrand, s, e, q, sh, tag)
    elif plan == "rot":
        for s in range(n + 1):
            for e in range(s, n + 1):
                fn, nm, sh = flav_rel[(s + rot) % 2]
                check_rel_interval(ctx, mon, fn, nm, P, lstrand, s, e, STR3[(s + e + rot) % 3], sh, tag)
        for s in range(wlo, whi):
            for e in range(s + 1, whi + 1):
                fn, nm, sh, a, b = flav_src[(e + rot) % 2]
                if a <= s and e <= b:
                    check_src_interval(ctx, mon, fn, nm, P, idx, lstrand, s, e, STR3[(s + 2 * e + rot) % 3], sh, tag)
    else:
        pairs = [(0, n), (0, 0), (n, n), (n - 1, n), (0, 1)]
        for _ in range(nint):
            s = rng.randint(0, n)
            pairs.append((s, rng.randint(s, n)))
        for s, e in pairs:
            fn, nm, sh = flav_rel[rng.randrange(2)]
            check_rel_interval(ctx, mon, fn, nm, P, lstrand, s, e, rng.choice(STR3), sh, tag)
        for _ in range(nint + 2):
            fn, nm, sh, a, b = flav_src[rng.randrange(2)]
            if b - a < 1:
                continue
            s = rng.randint(a, b - 1)
            e = rng.randint(s + 1, min(b, s + rng.choice([1, 3, 10, b - a])))
            check_src_interval(ctx, mon, fn, nm, P, idx, lstrand, s, e, rng.choice(STR3), sh, tag)
    for s, e in extra_rel:
        for fn, nm, sh in flav_rel:
            check_rel_interval(ctx, mon, fn, nm, P, lstrand, s, e, "+", sh, tag)
    # requests that are not intervals of the system must be refused
    for s, e in ((-1, 0), (0, n + 1), (2, 1), (n + 1, n + 1)):
        for fn, nm, sh in flav_rel:
            res, exc = ctx.call(fn, s, e, G.strand_of("+"))
            ctx.check(mon, isinstance(exc, _reject_types()), key=(tag, nm, "reject-invalid-bounds"), s=s, e=e, length=n, got=repr(res)[:120], exc=_x(exc))
    if wlo < whi:
        res, exc = ctx.call(s2r, -1, whi, G.strand_of("+"))
        ctx.check(mon, isinstance(exc, _reject_types()), key=(tag, names[4], "reject-negative-start"), got=repr(res)[:120], exc=_x(exc))


def check_gaps(ctx, obj, P, lo, hi, shift, tag):
    mon = "introns.span-minus-exons"
    want = set(range(lo, hi)) - set(P)
    for attr, sh in (("chromosome_gaps_location", 0), ("chunk_relative_gaps_location", shift), ("chromosome_intron_location", 0),
                     ("chunk_relative_intron_location", shift)):
        if not any(attr in k.__dict__ for k in type(obj).__mro__):
            continue
        res, exc = ctx.call(lambda: getattr(obj, attr))
        if exc is not None:
            ctx.check(mon, False, key=(tag, attr, "raised", type(exc).__name__), exc=_x(exc), want=sorted(want))
            continue
        if not want:
            ctx.check(mon, len(res) == 0, key=(tag, attr, "no-intron-empty"), got=repr(res)[:120])
            continue
        got, _ = _enum(res, sh)
        ctx.check(mon, set(got) == want and len(got) == len(want), key=(tag, attr, "value"), got=got, want=sorted(want))
    for attr, sh in (("chromosome_span", 0), ("chunk_relative_span", shift)):
        res, exc = ctx.call(lambda: getattr(obj, attr))
        got = None if exc else [(b.start + sh, b.end + sh) for b in res.blocks]
        ctx.check(mon, got == [(lo, hi)], key=(tag, attr, "span"), got=got, want=[lo, hi], exc=_x(exc))


def check_cds_tx(ctx, tx, M, probes, shift):
    E, C = M["E"], M["C"]
    n, m = len(E), len(C)
    eidx = {p: i for i, p in enumerate(E)}
    cidx = {p: i for i, p in enumerate(C)}
    rej = _reject_types()
    for i in range(-2, m + 2):
        r, e = ctx.call(tx.cds_pos_to_transcript, i)
        if 0 <= i < m:
            ctx.check("cds-tx.maps", e is None and _is_int(r) and r == eidx[C[i]], key=("cds_pos_to_transcript", "value"), index=i, got=r,
                      want=eidx[C[i]], exc=_x(e))
        else:
            ctx.check("cds-tx.maps", isinstance(e, rej), key=("cds_pos_to_transcript", "reject-outside"), index=i, cds_length=m, got=r, exc=_x(e))
    for j in range(-2, n + 2):
        r, e = ctx.call(tx.transcript_pos_to_cds, j)
        if 0 <= j < n and E[j] in cidx:
            ctx.check("cds-tx.maps", e is None and _is_int(r) and r == cidx[E[j]], key=("transcript_pos_to_cds", "value"), index=j, got=r,
                      want=cidx[E[j]], exc=_x(e))
        else:
            ctx.check("cds-tx.maps", isinstance(e, rej), key=("transcript_pos_to_cds", "reject-utr" if 0 <= j < n else "reject-outside"),
                      index=j, got=r, exc=_x(e))

    # ---- path independence, library against library --------------------------------------------------------------
    def via(f1, f2, x):
        t, te = ctx.call(f1, x)
        if te is not None:
            return None, te
        return ctx.call(f2, t)

    def same(direct, composed):
        (d, de), (v, ve) = direct, composed
        if de is None and ve is None:
            return d == v
        return isinstance(de, rej) and isinstance(ve, rej)

    for p in probes:
        d = ctx.call(tx.sequence_pos_to_cds, p)
        v = via(tx.sequence_pos_to_transcript, tx.transcript_pos_to_cds, p)
        ctx.check("commute.paths", same(d, v), key="chromosome->cds vs chromosome->transcript->cds", pos=p, direct=d[0], composed=v[0],
                  direct_exc=_x(d[1]), composed_exc=_x(v[1]))
        d = ctx.call(tx.chunk_relative_pos_to_cds, p - shift)
        v = via(tx.chunk_relative_pos_to_transcript, tx.transcript_pos_to_cds, p - shift)
        ctx.check("commute.paths", same(d, v), key="chunk->cds vs chunk->transcript->cds", pos=p - shift, direct=d[0], composed=v[0],
                  direct_exc=_x(d[1]), composed_exc=_x(v[1]))
    for i in range(-1, m + 1):
        d = ctx.call(tx.cds_pos_to_sequence, i)
        v = via(tx.cds_pos_to_transcript, tx.transcript_pos_to_sequence, i)
        ctx.check("commute.paths", same(d, v), key="cds->chromosome vs cds->transcript->chromosome", index=i, direct=d[0], composed=v[0],
                  direct_exc=_x(d[1]), composed_exc=_x(v[1]))
        d = ctx.call(tx.cds_pos_to_chunk_relative, i)
        v = via(tx.cds_pos_to_transcript, tx.transcript_pos_to_chunk_relative, i)
        ctx.check("commute.paths", same(d, v), key="cds->chunk vs cds->transcript->chunk", index=i, direct=d[0], composed=v[0],
                  direct_exc=_x(d[1]), composed_exc=_x(v[1]))

    # ---- inverses, library against library -------------------------------------------------------------------------
    pairs = (
        ("transcript_pos_to_sequence", "sequence_pos_to_transcript", n), ("transcript_pos_to_chunk_relative", "chunk_relative_pos_to_transcript", n),
        ("cds_pos_to_sequence", "sequence_pos_to_cds", m), ("cds_pos_to_chunk_relative", "chunk_relative_pos_to_cds", m),
        ("cds_pos_to_transcript", "transcript_pos_to_cds", m),
    )
    for f, g, size in pairs:
        bad = None
        for i in range(size):
            r, e = via(getattr(tx, f), getattr(tx, g), i)
            if e is not None or r != i:
                bad = {"index": i, "back": r, "exc": _x(e)}
                break
        ctx.check("commute.inverse", bad is None, key=(f, g), bad=bad)
    bad = None
    for p in C:
        for f, g, sh in (("sequence_pos_to_cds", "cds_pos_to_sequence", 0), ("chunk_relative_pos_to_cds", "cds_pos_to_chunk_relative", shift),
                         ("sequence_pos_to_transcript", "transcript_pos_to_sequence", 0)):
            r, e = via(getattr(tx, f), getattr(tx, g), p - sh)
            if e is not None or r != p - sh:
                bad = {"pair": [f, g], "pos": p - sh, "back": r, "exc": _x(e)}
    ctx.check("commute.inverse", bad is None, key="sequence-side round trips", bad=bad)
    bad = None
    for j in range(M["a"], M["b"] + 1):
        if E[j] not in cidx:
            continue    # a base skipped by a gapped CDS has no CDS position (its rejection is checked above)
        r, e = via(tx.transcript_pos_to_cds, tx.cds_pos_to_transcript, j)
        if e is not None or r != j:
            bad = {"index": j, "back": r, "exc": _x(e)}
    ctx.check("commute.inverse", bad is None, key=("transcript_pos_to_cds", "cds_pos_to_transcript"), bad=bad)

    # ---- amino acid ------------------------------------------------------------------------------------------------
    for p in probes:
        r, e = ctx.call(tx.cds.sequence_pos_to_amino_acid, p)
        if p in cidx:
            ctx.check("cds.amino-acid", e is None and _is_int(r) and r == cidx[p] // 3, key="value", pos=p, got=r, want=cidx[p] // 3,
                      cds_index=cidx[p], exc=_x(e))
        else:
            ctx.check("cds.amino-acid", isinstance(e, rej), key="reject-outside", pos=p, got=r, exc=_x(e))


def check_utrs(ctx, tx, M, strand, shift, multi_exon):
    E, C = M["E"], M["C"]
    r5, e5 = ctx.call(tx.get_5p_interval)
    r3, e3 = ctx.call(tx.get_3p_interval)
    rc, ec = ctx.call(lambda: tx.cds_chunk_relative_location)
    rl, el = ctx.call(lambda: tx.cds_location)
    multi = "multi-exon" if multi_exon else "single-exon"
    for name, res, exc, want in (("5p", r5, e5, M["utr5"]), ("3p", r3, e3, M["utr3"])):
        if not want:
            if exc is not None:
                ctx.check("utr.empty-at-end", False, key=(name, "raised", type(exc).__name__, multi), exc=_x(exc), cds_full_length=(C == E))
            else:
                ctx.check("utr.empty-at-end", len(res) == 0, key=(name, "not-empty", multi), got=repr(res)[:120])
        else:
            if exc is not None:
                ctx.check("utr.partition", False, key=(name, "raised", type(exc).__name__), exc=_x(exc), want=want)
            else:
                got, gst = _enum(res, shift)
                ctx.check("utr.partition", got == want and gst == strand, key=(name, "value"), got=got, want=want, got_strand=gst, want_strand=strand)
    gotc = None if ec else _enum(rc, shift)
    ctx.check("utr.partition", gotc is not None and gotc[0] == C and gotc[1] == strand, key=("cds", "chunk-relative-value"), got=gotc, want=C,
              exc=_x(ec))
    gotl = None if el else _enum(rl, 0)
    ctx.check("utr.partition", gotl is not None and gotl[0] == C and gotl[1] == strand, key=("cds", "chromosome-value"), got=gotl, want=C, exc=_x(el))
    if e5 is None and e3 is None and ec is None:
        p5 = _enum(r5, shift)[0] if len(r5) else []
        p3 = _enum(r3, shift)[0] if len(r3) else []
        pc = gotc[0]
        disjoint = len(set(p5) | set(pc) | set(p3)) == len(p5) + len(pc) + len(p3)
        ctx.check("utr.partition", disjoint, key="disjoint", utr5=p5, cds=pc, utr3=p3)
        lib_exons = _enum(tx.chunk_relative_location, shift)[0]
        skipped = set(E[M["a"]:M["b"] + 1]) - set(C)      # non-empty only for a gapped CDS
        ctx.check("utr.partition", p5 + pc + p3 == [q for q in E if q not in skipped] and lib_exons == E, key="ordered-exact-cover", utr5=p5, cds=pc,
                  utr3=p3, exons=E, library_exons=lib_exons, skipped_by_cds=sorted(skipped))
    else:
        ctx.seen("utr.partition")
    ctx.seen("utr.empty-at-end")


def check_noncoding(ctx, tx, E, lo, hi, shift):
    rej = _reject_types()
    plus = G.strand_of("+")
    args = {"rel": (0,), "reli": (0, 1, plus), "src": (E[0],), "csrc": (E[0] - shift,), "srci": (lo, hi, plus),
            "csrci": (lo - shift, hi - shift, plus), "none": ()}
    for nm, kind in CDS_METHODS_ON_NONCODING:
        res, exc = ctx.call(getattr(tx, nm), *args[kind])
        ctx.check("noncoding.refused", isinstance(exc, rej), key=nm, got=repr(res)[:100], exc=_x(exc))


def _classes(M, exons, strand):
    """Where the CDS starts / ends relative to the exon structure (5'->3')."""
    E, C = M["E"], M["C"]
    ex5 = [PM.positions([b], strand) for b in (exons if strand == "+" else exons[::-1])]
    firsts, lasts = {x[0] for x in ex5}, {x[-1] for x in ex5}
    st = "tx-5p-end" if C[0] == E[0] else ("exon-start" if C[0] in firsts else "inside")
    en = "tx-3p-end" if C[-1] == E[-1] else ("exon-end" if C[-1] in lasts else "inside")
    ncov = sum(1 for x in ex5 if set(x) & set(C))
    return st, en, "1exon-cds" if ncov == 1 else "multi-exon-cds"


# ------------------------------------------------------------------------------------------------------------------
# driver
# ------------------------------------------------------------------------------------------------------------------
def run_case(case, ctx):
    exons = [tuple(b) for b in case["exons"]]
    strand = case["strand"]
    cds = [tuple(b) for b in case["cds"]] if case.get("cds") else None
    glen = case["glen"]
    pspec = dict(case["parent"])
    mode = pspec["mode"]
    kind = case["kind"]
    plan = case.get("ivl", "sample")
    rot = case.get("rot", 0)
    nint = case.get("nint", 8)
    rng = random.Random(case.get("seed", 0))
    if kind == "ovl":
        return run_overlapping(case, ctx)
    M = model(exons, strand, cds, gapped=case.get("variant") == "skip")
    E, C, lo, hi = M["E"], M["C"], M["lo"], M["hi"]
    genome = ("ACGT" * (glen // 4 + 1))[:glen]
    if mode == "chunk":
        cs, ce = pspec["window"]
        if not (0 <= cs <= lo and hi <= ce <= glen):
            from bcv.core import HarnessError

            raise HarnessError(f"chunk window {cs, ce} does not cover the transcript {lo, hi}")
        shift, clo, chi = cs, cs, ce
    else:
        shift, clo, chi = 0, max(0, lo - 1), min(glen, hi + 1)
    wlo, whi = max(0, lo - 1), min(glen, hi + 1)
    if mode == "chunk":
        clo, chi = max(clo, wlo), min(chi, whi)
    parent = GG.build_parent({"mode": mode, "genome": genome, "seqname": "chr1", "window": pspec.get("window")})
    tspec = {"exons": [list(b) for b in exons], "strand": strand, "cds": [list(b) for b in cds] if cds else None,
             "frames": [int(f) for f in case["frames"]] if cds else None}
    tx, exc = ctx.call(GG.build_transcript, tspec, parent)
    if exc is not None:
        ctx.check("tx.pos-maps", False, key=("constructor-raised", type(exc).__name__), exc=_x(exc))
        return
    probes = range(lo - 2, hi + 2)
    shape = G.layout_signature(exons, strand)
    multi = len(exons) >= 2

    if cds is None:
        ctx.note((kind, "noncoding", shape, mode), nontrivial=multi or strand == "-", klass=f"{kind}-noncoding-{mode}")
        check_points(ctx, "tx.pos-maps", tx, NAMES["transcript"], E, probes, shift, "TranscriptInterval")
        check_intervals(ctx, "tx.interval-maps", tx, NAMES["transcript"], E, strand, wlo, whi, clo, chi, shift, "TranscriptInterval", plan, rot,
                        rng, nint)
        check_gaps(ctx, tx, E, lo, hi, shift, "TranscriptInterval")
        check_noncoding(ctx, tx, E, lo, hi, shift)
        ft, exc = ctx.call(GG.build_feature, {"blocks": [list(b) for b in exons], "strand": strand}, parent)
        if exc is not None:
            ctx.check("feature.maps", False, key=("constructor-raised", type(exc).__name__), exc=_x(exc))
            return
        check_points(ctx, "feature.maps", ft, NAMES["feature"], E, probes, shift, "FeatureInterval")
        check_intervals(ctx, "feature.maps", ft, NAMES["feature"], E, strand, wlo, whi, clo, chi, shift, "FeatureInterval",
                        "rot" if plan == "all" else plan, rot, rng, nint)
        check_gaps(ctx, ft, E, lo, hi, shift, "FeatureInterval")
        return

    st, en, cov = _classes(M, exons, strand)
    ctx.note((kind, shape, M["a"], M["b"], len(cds), mode), nontrivial=multi or strand == "-" or C != E,
             klass=f"{'exh' if kind == 'cds' else 'rand'}-cds-start:{st}-end:{en}-{cov}")
    if case.get("variant", "plain") != "plain":
        ctx.bump("random-cds-" + case["variant"])
    ctx.bump("parent-" + mode)
    n, a, b = len(E), M["a"], M["b"]
    # transcript system (independent of the CDS: point maps on every coding transcript, intervals at the UTR/CDS joints)
    check_points(ctx, "tx.pos-maps", tx, NAMES["transcript"], E, probes, shift, "TranscriptInterval")
    joints = ((0, a), (a, b + 1), (b + 1, n), (0, n))
    check_intervals(ctx, "tx.interval-maps", tx, NAMES["transcript"], E, strand, wlo, whi, clo, chi, shift, "TranscriptInterval",
                    "sample", rot, rng, 2 if kind == "cds" else nint, extra_rel=joints)
    # CDS system through the transcript wrappers and directly on the CDSInterval
    check_points(ctx, "cds.pos-maps", tx, NAMES["cds"], C, probes, shift, "TranscriptInterval")
    check_points(ctx, "cds.pos-maps", tx.cds, NAMES["cds"], C, probes, shift, "CDSInterval")
    direct = (rot % 2 == 1) if kind == "cds" else (rng.random() < 0.5)
    check_intervals(ctx, "cds.interval-maps", tx.cds if direct else tx, NAMES["cds"], C, strand, wlo, whi, clo, chi, shift,
                    "CDSInterval" if direct else "TranscriptInterval", plan, rot, rng, nint)
    check_cds_tx(ctx, tx, M, probes, shift)
    check_utrs(ctx, tx, M, strand, shift, multi)
    check_gaps(ctx, tx, E, lo, hi, shift, "TranscriptInterval")
    check_gaps(ctx, tx.cds, C, M["clo"], M["chi"], shift, "CDSInterval")


def run_overlapping(case, ctx):
    """Exon blocks that overlap / nest: a doubly covered base has two positions on the transcript.  Point maps only:
    position -> sequence is list indexing on the library's own (canonical) block order, whose multiset of positions must be the
    spec's; sequence -> position must answer with *a* preimage for every covered base and reject every other position; the
    composition position -> sequence -> position -> sequence is the identity on bases."""
    exons = sorted(tuple(b) for b in case["exons"])
    strand = case["strand"]
    glen = case["glen"]
    pspec = dict(case["parent"])
    mode = pspec["mode"]
    lo, hi = min(s for s, _ in exons), max(e for _, e in exons)
    shift = pspec["window"][0] if mode == "chunk" else 0
    genome = ("ACGT" * (glen // 4 + 1))[:glen]
    parent = GG.build_parent({"mode": mode, "genome": genome, "seqname": "chr1", "window": pspec.get("window")})
    rej = _reject_types()
    ctx.note(("ovl", G.layout_signature(exons, strand), mode), nontrivial=True, klass=f"overlapping-exons-{mode}")
    want_multiset = sorted(p for s, e in exons for p in range(s, e))
    for label, build, spec, names in (("TranscriptInterval", GG.build_transcript, {"exons": [list(b) for b in exons], "strand": strand, "cds": None, "frames": None}, NAMES["transcript"]),
                                      ("FeatureInterval", GG.build_feature, {"blocks": [list(b) for b in exons], "strand": strand}, NAMES["feature"])):
        mon = "tx.pos-maps" if label == "TranscriptInterval" else "feature.maps"
        obj, exc = ctx.call(build, spec, parent)
        if exc is not None:
            ctx.check(mon, isinstance(exc, rej), key=("overlapping-exons", "constructor-internal-error", type(exc).__name__), exc=_x(exc))
            ctx.bump("overlapping-exons-refused-by-constructor")
            continue
        E, gst = _enum(obj.chunk_relative_location, shift)
        ctx.check(mon, sorted(E) == want_multiset and gst == strand, key=("overlapping-exons", label, "blocks-kept"), got=sorted(E), want=want_multiset)
        n = len(E)
        where = {}
        for i2, q in enumerate(E):
            where.setdefault(q, []).append(i2)
        for fn_name, sh in ((names[0], 0), (names[1], shift)):
            fn = getattr(obj, fn_name)
            for q in range(lo - 2, hi + 2):
                r, e = ctx.call(fn, q - sh)
                if q in where:
                    ctx.check(mon, e is None and _is_int(r) and r in where[q], key=("overlapping-exons", fn_name, "value"), pos=q - sh, got=r,
                              admissible=where[q], exc=_x(e), blocks=exons, strand=strand)
                else:
                    ctx.check(mon, isinstance(e, rej), key=("overlapping-exons", fn_name, "reject-outside"), pos=q - sh, got=r, exc=_x(e))
        for fn_name, sh in ((names[2], 0), (names[3], shift)):
            fn = getattr(obj, fn_name)
            for i2 in range(-2, n + 2):
                r, e = ctx.call(fn, i2)
                if 0 <= i2 < n:
                    ctx.check(mon, e is None and _is_int(r) and r == E[i2] - sh, key=("overlapping-exons", fn_name, "value"), index=i2, got=r,
                              want=E[i2] - sh, exc=_x(e), blocks=exons, strand=strand)
                else:
                    ctx.check(mon, isinstance(e, rej), key=("overlapping-exons", fn_name, "reject-outside"), index=i2, length=n, got=r, exc=_x(e))
        bad = None
        to_src, to_rel = getattr(obj, names[2]), getattr(obj, names[0])
        for i2 in range(n):
            q, e1 = ctx.call(to_src, i2)
            j, e2 = ctx.call(to_rel, q) if e1 is None else (None, e1)
            q2, e3 = ctx.call(to_src, j) if e2 is None else (None, e2)
            if e3 is not None or q2 != q:
                bad = {"index": i2, "base": q, "back_index": j, "back_base": q2, "exc": _x(e3)}
                break
        ctx.check("commute.inverse", bad is None, key=("overlapping-exons", label, "position->sequence->position->sequence"), bad=bad, blocks=exons)


def classify(v):
    return None
