"""C07  A chunk-relative view is the chromosome view restricted to the chunk.

Twin monitor.  Every object is built twice from the same JSON spec: once on ``seq_to_parent(genome)`` (whole
chromosome) and once on ``seq_chunk_to_parent(genome[cs:ce], name, cs, ce)``.  The oracle for the chunk-level answers
is written on plain position lists (bcv.models.posmodel / seqmodel / framemodel), no BioCantor code.

Monitors
  twin.chromosome-answers  chromosome_location blocks, strand, start/end, len, to_dict(), num_blocks, span, gaps, CDS frames,
                           num_codons, chromosome_codon_locations, scan_chromosome_codon_locations(window), cds_start/end/size,
                           children guids and primary transcript/feature of the chunk twin == the whole-chromosome twin
                           (and == the spec for blocks / strand / start / end); an exception on one side only is a violation
  twin.guid-supplied       guids given in the spec are preserved by both twins (leaf and container classes)
  twin.guid-computed       guids computed by the library are the same for both twins
  chunk.location           chunk_relative_location: blocks + cs == the chromosome blocks clipped to [cs, ce) (0-bp gaps kept),
                           lifted back with lift_over_to_first_ancestor_of_type("chromosome") == the chromosome positions
                           inside the chunk in 5'->3' order, same strand; chunk_relative_start/end/size; an interval with no
                           base in the chunk has an empty location (no exception)
  chunk.sequence           get_spliced_sequence / get_transcript_sequence / get_genomic_sequence / get_reference_sequence of
                           the chunk twin == seqmodel on the positions inside the chunk
  chunk.codons             chunk_relative_codon_locations (lifted back, and their own sequences), num_chunk_relative_codons ==
                           the framemodel codons of the WHOLE CDS that lie fully inside [cs, ce)
  chunk.cds-sequence       extract_sequence() fresh (fast path) and after the codon tuple was cached (slow path), translate(),
                           TranscriptInterval.get_cds_sequence / get_protein_sequence on the chunk twin == those codons
  chunk.window-codons      scan_chunk_relative_codon_locations(chromosome_start, chromosome_end) on the chunk twin == the model
                           codons fully inside the window AND the chunk
  chunk.frames             chunk_relative_frames / to_dict(chromosome_relative_coordinates=False): the exported chunk-relative
                           blocks + frames, read by framemodel as a stand-alone CDS, give exactly the codons inside the chunk
  (history)                every chunk twin is asked in three call histories: chromosome-level questions first on a fresh object, then
                           the chunk-level ones; chromosome-level questions AGAIN after all chunk-level accessors were touched (codon tuple
                           cached, fast path, windows, frames, sequences); and, for CDS / transcripts, a fresh object answering all
                           chromosome- and chunk-level questions in a seeded shuffled order - every answer must equal the fresh-object one
  collection.query         AnnotationCollection.query_by_position(qs, qe) on the whole-chromosome collection (and nested on a
                           chunk-built one): every returned gene / feature collection / transcript / feature satisfies all of
                           the above for the window (qs, qe) and keeps the guid of the whole-chromosome child

Latitude (documented, see DESIGN C07 / C05-L)
  (a) no base of the interval in the chunk: the *location* must be empty without an exception and the codon tuple must be
      empty; the *sequence* accessors may return an empty sequence or refuse with a BioCantorException (the library has no
      parent to read from); the same for a CDS whose chunk part holds no complete codon (sequence may be "" or refused).
  (b) get_reference_sequence / get_genomic_sequence (unspliced): both readings of "that stretch" are accepted - the span of
      the in-chunk location, or the whole span clipped to the chunk (they differ when the chunk edge lies in an intron).
  (c) windows (chromosome_start/end): when the model yields zero codons inside window and chunk the library may answer
      empty or refuse with a BioCantorException / ValueError (C05 latitude i); a refusal with >= 1 expected codon is a violation.
  (d) CDS whose whole-chromosome twin does not reproduce framemodel (C05's latitude ii / C05 findings) are not judged at the
      chunk level (counted as `skipped-whole-twin-disagrees-with-model`).
  (e) chunk.frames is claimed only for CDS in one uninterrupted frame (the library documents that programmed frameshifts are
      lost in chunk-relative frames) and only when the 5' in-chunk block is at least as long as the offset it must carry
      (otherwise C05's finding K13 in construct_frames_from_location applies; counted as `frames-skipped-k13`).
  (f) AnnotationCollection twins are compared with explicit start/end (the documented default bounds are taken from the
      parent and therefore differ by construction); unbounded twins are compared on everything but start/end/guid.

Findings on the unchanged tree (each reproduced by hand; classify() recognises them by re-deriving the mechanism)
  K18  single-block CDS, start frame 1/2, the chunk removes d 5' bases with f + (-d mod 3) >= 3: the first codon inside the
       chunk is lost (same offset sum as C05's K18; the repair is blocked by 4 pinned tests)            -> known finding
  K8   GeneInterval / FeatureIntervalCollection / AnnotationCollection digest chunk_relative_location into a computed guid
       (the repair changes the identifiers pinned by the shimmed test_gff3_export_chunk_relative)       -> known finding
  K5   CDS with no base in the chunk: is_chunk_relative is False, chunk-relative codon queries fall through to the
       chromosome codons                                  -> proposed_fixes/C07-cds-codons-when-nothing-of-it-is-on-the-chunk.diff
  K21  multi-block CDS whose in-chunk bases are all removed by frame cleaning: EmptyLocationException instead of ()  -> same diff
  K20  chromosome_start/end window combined with a chunk: the frame offset is measured from the window start instead of the
       5' end of the CDS (codons out of frame)            -> proposed_fixes/C07-window-plus-chunk-frame-offset.diff
"""
import copy
import hashlib
import uuid

from bcv.gen import genes as GG
from bcv.models import framemodel as FM
from bcv.models import posmodel as PM
from bcv.models import seqmodel as SM

ID = "C07"
LEVEL = "exploration"
EXHAUSTIVE = False
RULE = (
    "twin pairs (whole chromosome vs chunk [cs,ce)) of FeatureInterval / TranscriptInterval / CDSInterval / GeneInterval / "
    "FeatureIntervalCollection / AnnotationCollection (built on the chunk and obtained by query_by_position) from the gene "
    "generators: engineered transcripts (1..3 exons, 0-bp gaps, UTRs, CDS start frames 0/1/2, both strands) under EVERY window "
    "of a small genome; seeded random transcripts (1..4 exons, consistent and frameshifted frames) and collections under "
    "engineered windows (cutting the 5'/3' exon, an intron, the CDS 5' end by 1/2/3 bases, the CDS 3' end, missing the interval, "
    "whole genome) plus random windows (thorough: every window over genomes <= 36); each with guids computed and supplied; "
    "chromosome_start/end windows combined with the chunk; every chunk twin answers in three call histories (chromosome-level first, "
    "chromosome-level again after all chunk-level accessors, seeded shuffled order on a fresh object). Non-trivial = distinct (class, strand, #exons, #CDS blocks, 5' frame, "
    "frameshift, exon cut class, CDS cut class incl. 5' bases cut mod 3 and 3' bases cut mod 3) where the chunk cuts or misses "
    "the interval."
)
SCOPE = {
    "quick": {"ENG_G": 17, "NTX": 900, "NWIN": 10, "NCOLL": 220, "NCW": 5, "ALLWIN_TX": 0, "ALLWIN_G": 0},
    "thorough": {"ENG_G": 22, "NTX": 3500, "NWIN": 24, "NCOLL": 900, "NCW": 10, "ALLWIN_TX": 400, "ALLWIN_G": 36},
}
FLOOR = {"quick": 600, "thorough": 2500}
REQUIRED_MONITORS = ["twin.chromosome-answers", "twin.guid-supplied", "twin.guid-computed", "chunk.location", "chunk.sequence",
                     "chunk.codons", "chunk.cds-sequence", "chunk.window-codons", "chunk.frames", "collection.query"]
_I = "inscripta.biocantor.gene.interval:"
_C = "inscripta.biocantor.gene.cds:CDSInterval."
REACH = [
    _I + "AbstractInterval.liftover_location_to_seq_chunk_parent",
    _I + "AbstractInterval.initialize_location",
    _I + "AbstractInterval._liftover_this_location_to_seq_chunk_parent",
    _I + "AbstractFeatureInterval.chromosome_location",
    _I + "AbstractFeatureInterval._chunk_relative_bounded_chromosome_location",
    _I + "AbstractFeatureIntervalCollection._initialize_location",
    _C + "chunk_relative_frames",
    _C + "_prepare_single_exon_window_for_scan_codon_locations",
    _C + "_prepare_multi_exon_window_for_scan_codon_locations",
    _C + "_calculate_frame_offset",
    _C + "scan_chunk_relative_codon_locations",
    _C + "extract_sequence",
    "inscripta.biocantor.gene.transcript:TranscriptInterval.__init__",
    "inscripta.biocantor.gene.collections:AnnotationCollection._subset_parent",
    "inscripta.biocantor.gene.collections:AnnotationCollection.query_by_position",
    "inscripta.biocantor.io.parser:seq_chunk_to_parent",
]
REACH_REQUIRED = REACH
ASSUMPTIONS = [
    "oracle: position lists (posmodel), complement table (seqmodel) and the reading-frame walker (framemodel, decided for whole "
    "chromosomes by C05) applied to the positions inside [cs, ce); no BioCantor code in the oracle",
    "blocks of generated intervals are sorted and do not overlap each other (0-bp gaps allowed); chunks are plus-strand windows",
]
WATCHDOG = {"quick": 1500, "thorough": 4 * 3600}

K18 = "K18-single-exon-start-frame-chunk-cuts-5p-loses-first-codon"
K5 = "K5-cds-without-base-in-chunk-reports-chromosome-codons"
K8 = "K8-computed-container-guid-digests-chunk-relative-location"
K20 = "K20-window-combined-with-chunk-frame-offset-from-window-start"
K21 = "K21-in-frame-cds-bases-all-outside-chunk-raises-empty-location"


# ----------------------------------------------------------------------------------------------------------------
# oracle helpers (plain ints / lists)
# ----------------------------------------------------------------------------------------------------------------
def inside(poslist, cs, ce):
    return [p for p in poslist if cs <= p < ce]


def setup(ctx):
    from bcv import core

    core.codon_storm(ctx)


def selftest():
    from bcv.core import HarnessError

    try:
        FM.selftest()
        PM.selftest()
        SM.selftest()
        # literal example (docs of seq_chunk_to_parent / from_chunk_relative_location): a location 5-20 on the chunk
        # 222213-222241 is 222218-222233 on the chromosome; restricted view of exons 2-6, 8-12 (minus) to [4, 10)
        assert [[s + 222213, e + 222213] for s, e in [[5, 20]]] == [[222218, 222233]]
        assert GG.clip_blocks([[2, 6], [8, 12]], 4, 10) == [[4, 6], [8, 10]]
        assert inside(PM.positions([(2, 6), (8, 12)], "-"), 4, 10) == [9, 8, 5, 4]
        # BioCantor test_cds "chunk relative" example: CDS 0-9 plus, frame 0, chunk [2, 9): codons 3-6, 6-9
        mc = FM.codons([(0, 9)], "+", [0])
        assert [c for c in mc if all(2 <= p < 9 for p in c)] == [[3, 4, 5], [6, 7, 8]]
        assert _lib_window_chunk([[0, 30]], "+", [0], 4, 30, 2, 35)[0] == [4, 5, 6]
    except AssertionError as e:
        raise HarnessError(f"C07 oracle self-test: {e!r}")


def _genome(glen, gseed, alpha="ACGT"):
    import random

    rng = random.Random(f"c07g{gseed}")
    return "".join(rng.choice(alpha) for _ in range(glen))


def _guid_for(*path):
    return str(uuid.UUID(hashlib.md5(("c07:" + "/".join(str(p) for p in path)).encode()).hexdigest()))


def with_guids(spec, kind):
    """Deep copy of a spec with every guid field supplied (deterministic, unique per object)."""
    s = copy.deepcopy(spec)
    if kind == "tx":
        s["guid"] = _guid_for("tx", s.get("transcript_id"))
    elif kind == "feature":
        s["guid"] = _guid_for("feat", s.get("feature_id"))
    elif kind == "gene":
        s["guid"] = _guid_for("gene", s.get("gene_id"))
        s["transcripts"] = [with_guids(t, "tx") for t in s["transcripts"]]
    elif kind == "fcoll":
        s["guid"] = _guid_for("fcoll", s.get("feature_collection_id"))
        s["features"] = [with_guids(f, "feature") for f in s["features"]]
    elif kind == "coll":
        s["genes"] = [with_guids(g, "gene") for g in s["genes"]]
        s["fcolls"] = [with_guids(f, "fcoll") for f in s["fcolls"]]
    return s


def feature_of_tx(tspec):
    """A FeatureInterval spec on the exon blocks of a transcript spec."""
    return {"blocks": tspec["exons"], "strand": tspec["strand"], "feature_types": ["exonic"], "feature_name": "f" + str(tspec.get("transcript_id")),
            "feature_id": "fid" + str(tspec.get("transcript_id")), "is_primary_feature": None, "qualifiers": tspec.get("qualifiers") or {},
            "guid": tspec.get("guid") and _guid_for("feat-of", tspec["guid"])}


# ----------------------------------------------------------------------------------------------------------------
# workload
# ----------------------------------------------------------------------------------------------------------------
def _engineered_tx():
    """Hand-made exon/CDS layouts (coordinates relative to 0; genome = ENG_G): single-exon CDS with and without UTRs,
    two exons with an intron, CDS blocks touching (0-bp gap), CDS confined to one exon, three exons."""
    return [
        ([[2, 14]], [[2, 14]]),
        ([[1, 15]], [[3, 13]]),
        ([[1, 6], [9, 15]], [[1, 6], [9, 15]]),
        ([[1, 6], [9, 15]], [[3, 6], [9, 13]]),
        ([[0, 5], [5, 9], [12, 16]], [[1, 5], [5, 9], [12, 15]]),
        ([[1, 4], [6, 13], [15, 17]], [[7, 12]]),
        ([[0, 4], [6, 10], [12, 17]], [[2, 4], [6, 10], [12, 16]]),
    ]


def _mk_tspec(exons, cds, strand, off, ident, frames=None, quals=None):
    return {"exons": [list(b) for b in exons], "strand": strand, "cds": [list(b) for b in cds] if cds else None,
            "frames": (frames if frames is not None else FM.consistent_frames(cds, strand, off)) if cds else None,
            "transcript_id": "tx" + ident, "transcript_symbol": "sym" + ident, "transcript_type": "protein_coding" if cds else "ncRNA",
            "protein_id": ("prot" + ident) if cds else None, "product": ("product " + ident) if cds else None, "is_primary_tx": None,
            "qualifiers": quals or {}, "guid": None}


def cases(spec, ctx):
    i, n = spec["i"], spec["n"]
    sc = SCOPE[ctx.tier]
    rng = ctx.rng
    idx = 0
    # (1) engineered layouts x strands x start offsets, EVERY window of the small genome
    for li, (exons, cds) in enumerate(_engineered_tx()):
        for strand in "+-":
            for off in (0, 1, 2):
                for shift in ((0, 1) if ctx.tier == "quick" else (0, 1, 2)):
                    idx += 1
                    if idx % n != i:
                        continue
                    ex = [[s + shift, e + shift] for s, e in exons]
                    cd = [[s + shift, e + shift] for s, e in cds]
                    if ex[-1][1] > sc["ENG_G"]:
                        continue
                    yield {"kind": "tx", "gen": "engineered", "tx": _mk_tspec(ex, cd, strand, off, f"e{li}{strand}{off}{shift}"),
                           "glen": sc["ENG_G"], "gseed": idx, "allwin": True, "ncw": 3}
    # (2) seeded random transcripts, engineered + random windows
    for k in range(sc["NTX"] // n + 1):
        glen = rng.choice([24, 30, 40, 60])
        t = GG.rand_transcript_spec(rng, rng.randint(0, 4), glen - rng.randint(0, 4), coding=rng.random() < 0.85, max_exons=4,
                                    start_offset=rng.choice([0, 0, 1, 2]), ident=f"r{k}")
        yield {"kind": "tx", "gen": "random", "tx": t, "glen": glen, "gseed": rng.randrange(1 << 30), "nwin": sc["NWIN"], "wseed": rng.randrange(1 << 30),
               "ncw": sc["NCW"], "alpha": rng.choice(["ACGT", "ACGT", "ACGTacgt"])}
    # (2b) scale (own stream): transcripts of 17..60 exons on genomes of 300..700 bp, a capped sample of the engineered windows
    # (window edges inside exons / introns, cutting the CDS ends) - strategies that switch by block count
    srng = __import__("random").Random(f"C07-scale:{ctx.seed}:{i}")
    for k in range(max(1, sc["NTX"] // (12 * n))):
        glen = srng.choice([300, 450, 700])
        t = None
        while t is None or len(t["exons"]) < 17:
            t = GG.rand_transcript_spec(srng, srng.randint(0, 4), glen - srng.randint(0, 4), coding=True, max_exons=srng.choice([24, 40, 60]),
                                        start_offset=srng.choice([0, 0, 1, 2]), ident=f"s{k}", frameshifts=0)
        yield {"kind": "tx", "gen": "scale-many-exons", "tx": t, "glen": glen, "gseed": srng.randrange(1 << 30), "nwin": 4, "wseed": srng.randrange(1 << 30),
               "ncw": 1, "maxwin": 10}
    # (3) thorough: random transcripts under every window of a genome <= ALLWIN_G
    for k in range(sc["ALLWIN_TX"] // n + 1 if sc["ALLWIN_TX"] else 0):
        glen = rng.randint(20, sc["ALLWIN_G"])
        t = GG.rand_transcript_spec(rng, rng.randint(0, 3), glen - rng.randint(0, 3), coding=rng.random() < 0.9, max_exons=4,
                                    start_offset=rng.choice([0, 1, 2]), ident=f"a{k}")
        yield {"kind": "tx", "gen": "random-allwin", "tx": t, "glen": glen, "gseed": rng.randrange(1 << 30), "allwin": True, "ncw": 2}
    # (4) genes / feature collections / annotation collections
    for k in range(sc["NCOLL"] // n + 1):
        glen = rng.choice([40, 60, 90])
        c = GG.rand_collection_spec(rng, glen, ngenes=rng.randint(1, 3), nfcolls=rng.randint(0, 2), disjoint=rng.random() < 0.5,
                                    bounds=rng.random() < 0.75, max_exons=3)
        yield {"kind": "coll", "gen": "random", "coll": c, "glen": glen, "gseed": rng.randrange(1 << 30), "nwin": max(4, sc["NWIN"] // 2),
               "wseed": rng.randrange(1 << 30)}


def _windows_for(blocks_list, glen, case):
    """Engineered + random windows for an interval described by several block lists (exons, cds, ...)."""
    import random

    if case.get("allwin"):
        return [(cs, ce) for cs in range(glen) for ce in range(cs + 1, glen + 1)]
    r = random.Random(case.get("wseed", 0))
    wins = []
    lo = min(b[0][0] for b in blocks_list if b)
    hi = max(b[-1][1] for b in blocks_list if b)
    wins.append((0, glen))
    wins.append((lo, hi))
    for blocks in blocks_list:
        if not blocks:
            continue
        s0, e0 = blocks[0][0], blocks[-1][1]
        for d in (1, 2, 3, 4):          # cut the plus-side start / end by 1..4 bases
            if s0 + d < e0:
                wins.append((s0 + d, min(glen, hi + 1)))
                wins.append((max(0, lo - 1), e0 - d))
        for (a, b), (c, d2) in zip(blocks, blocks[1:]):
            if c > b:                   # an intron: window inside it, and windows ending / starting inside it
                wins.append((b, c))
                wins.append((max(0, lo - 1), r.randint(b, c)))
                wins.append((r.randint(b, c - 1), min(glen, hi + 1)))
            wins.append((r.randint(a, b - 1), r.randint(c + 1, d2)))   # cut two neighbouring blocks
    if lo > 0:
        wins.append((0, lo))            # miss, touching
        wins.append((0, max(1, lo - 1)))
    if hi < glen:
        wins.append((hi, glen))
        wins.append((min(glen - 1, hi + 1), glen))
    for _ in range(case.get("nwin", 8)):
        cs = r.randint(0, glen - 1)
        wins.append((cs, r.randint(cs + 1, glen)))
    out, seen = [], set()
    for w in wins:
        if 0 <= w[0] < w[1] <= glen and w not in seen:
            seen.add(w)
            out.append(w)
    return out


# ----------------------------------------------------------------------------------------------------------------
# reading real objects
# ----------------------------------------------------------------------------------------------------------------
def _chk(ctx, monitor, cond, key=None, **detail):
    """ctx.check with the mechanism label of a failure appended to the (abstract) key, so that recorded findings and
    unexplained failures are deduplicated separately and a known mechanism can never starve an unexplained one."""
    if cond:
        return ctx.check(monitor, True, key=key, **detail)
    from bcv.core import jsonable

    try:
        hint = classify({"monitor": monitor, "key": jsonable(key), "case": jsonable(ctx.case), "detail": jsonable(detail)})
    except Exception:  # noqa: BLE001 - a classifier problem must never hide the failure
        hint = None
    k = tuple(key) if isinstance(key, (tuple, list)) else (key,)
    return ctx.check(monitor, False, key=k + (hint or "unexplained",), **detail)


def _refusal(exc):
    from inscripta.biocantor.exc import BioCantorException

    return isinstance(exc, (BioCantorException, ValueError))


def _bc_refusal(exc):
    from inscripta.biocantor.exc import BioCantorException

    return isinstance(exc, BioCantorException)


def _blocks(loc):
    if loc.is_empty:
        return []
    return [(b.start, b.end) for b in loc.blocks]


def _positions(loc):
    r = PM.read_location(loc) if not loc.is_empty else None
    if r is None:
        return []
    return PM.positions(r[0], r[1])


def _lifted(loc):
    """Positions of a (possibly chunk-relative) location on the chromosome, through the library's own lift."""
    if loc.is_empty:
        return []
    if loc.parent is not None and loc.has_ancestor_of_type("sequence_chunk"):
        loc = loc.lift_over_to_first_ancestor_of_type("chromosome")
    return _positions(loc)


def _exc(e):
    return None if e is None else f"{type(e).__name__}: {str(e)[:120]}"


def _build_cds(tspec, parent, guid=None):
    from inscripta.biocantor.gene.cds import CDSInterval

    cds = tspec["cds"]
    return CDSInterval([b[0] for b in cds], [b[1] for b in cds], GG._strand(tspec["strand"]), GG._frames(tspec["frames"]),
                       sequence_name="chr1", protein_id=tspec.get("protein_id"), product=tspec.get("product"),
                       qualifiers={k: list(v) for k, v in (tspec.get("qualifiers") or {}).items()} or None,
                       guid=GG._uuid(guid), parent_or_seq_chunk_parent=parent)


_INTFORM = [None]
_SEQNAME = ["chr1"]     # the name of the chromosome Parent of the current case: a str or (seq_chunk_to_parent documents Union[UUID, str]) a UUID


def _parent(genome, window=None):
    if window is None:
        return GG.build_parent({"mode": "chrom", "genome": genome, "seqname": _SEQNAME[0]})
    w = list(window)
    if _INTFORM[0] is not None:     # the chunk bounds as numpy integers (what a table of windows read with numpy / pandas hands over)
        w = [_INTFORM[0](w[0]), _INTFORM[0](w[1])]
    return GG.build_parent({"mode": "chunk", "genome": genome, "seqname": _SEQNAME[0], "window": w})


def _questions(kind, obj, extra_windows=()):
    """The chromosome-level questions of one object as (name, thunk) pairs (independent of each other)."""
    qs = []

    def put(name, fn):
        qs.append((name, fn))

    put("start", lambda: obj.start)
    put("end", lambda: obj.end)
    put("strand", lambda: obj.strand.to_symbol())
    put("blocks", lambda: _blocks(obj.chromosome_location))
    put("chromosome-parent-id", lambda: obj.chromosome_location.parent.id)
    put("to_dict", lambda: obj.to_dict())
    put("len", lambda: len(obj))
    if kind in ("feature", "tx", "cds"):
        put("num_blocks", lambda: obj.num_blocks)
        put("span", lambda: _blocks(obj.chromosome_span))
        put("gaps", lambda: _blocks(obj.chromosome_gaps_location))
        put("pos-maps", lambda: (obj.feature_pos_to_sequence(0), obj.feature_pos_to_sequence(len(obj) - 1), obj.sequence_pos_to_feature(obj.start)))
    if kind in ("feature", "tx", "gene", "fcoll", "coll"):
        put("bin", lambda: obj.bin)
    if kind == "tx":
        put("is_coding", lambda: obj.is_coding)
        put("cds_start", lambda: obj.cds_start)
        put("cds_end", lambda: obj.cds_end)
        put("cds_size", lambda: obj.cds_size)
        put("cds_blocks", lambda: _blocks(obj.cds_location))
        put("cds_frames", lambda: [f.value for f in obj.cds.frames] if obj.cds is not None else None)
        put("cds_num_codons", lambda: obj.cds.num_codons if obj.cds is not None else None)
        put("cds_chromosome_codon_locations", lambda: [_positions(c) for c in obj.cds.chromosome_codon_locations] if obj.cds is not None else None)
        put("cds_guid", lambda: str(obj.cds.guid) if obj.cds is not None else None)
    if kind == "cds":
        put("frames", lambda: [f.value for f in obj.frames])
        put("num_codons", lambda: obj.num_codons)
        put("chromosome_codon_locations", lambda: [_positions(c) for c in obj.chromosome_codon_locations])
        for j, (ws, we) in enumerate(extra_windows):
            put(f"scan_chromosome_codon_locations-window{j}", lambda ws=ws, we=we: [_positions(c) for c in obj.scan_chromosome_codon_locations(ws, we)])
    if kind in ("gene", "fcoll"):
        put("children_guids", lambda: sorted(str(g) for g in obj.children_guids))
        put("primary", lambda: obj.get_primary_feature().id)
        put("is_coding", lambda: obj.is_coding)
    if kind == "coll":
        put("children_guids", lambda: sorted(str(g) for g in obj.children_guids))
        put("children_ids", lambda: [c.id for c in obj.iter_children()])
    return qs


def _ask(ctx, qs):
    """Evaluate (name, thunk) pairs in the given order: name -> value | ('EXC', type name)."""
    out = {}
    for name, fn in qs:
        r, e = ctx.call(fn)
        out[name] = ("EXC", type(e).__name__) if e is not None else r
    return out


def _answers(ctx, kind, obj, extra_windows=()):
    """Chromosome-level answers of one object: name -> value | ('EXC', type name)."""
    return _ask(ctx, _questions(kind, obj, extra_windows))


def _dict_diff(a, b, path=""):
    """Paths at which two to_dict() trees differ."""
    if isinstance(a, dict) and isinstance(b, dict):
        out = []
        for k in sorted(set(a) | set(b), key=str):
            if k not in a or k not in b:
                out.append(f"{path}/{k}")
            else:
                out += _dict_diff(a[k], b[k], f"{path}/{k}")
        return out
    if isinstance(a, (list, tuple)) and isinstance(b, (list, tuple)):
        if len(a) != len(b):
            return [path + "/#len"]
        out = []
        for k, (x, y) in enumerate(zip(a, b)):
            out += _dict_diff(x, y, f"{path}/{k}")
        return out
    return [] if a == b else [path]


_GUID_FIELDS = ("gene_guid", "feature_collection_guid", "transcript_interval_guid", "feature_interval_guid", "variant_collection_guid")


def compare_answers(ctx, kind, label, whole, chunk, window, guidmode, model=None, history=None):
    """twin.chromosome-answers: every chromosome-level answer of the chunk twin equals the whole twin's.  `history` names the call
    history of the chunk twin (None = fresh object, chromosome-level questions first)."""
    h = (history,) if history else ()
    for name, w in whole.items():
        c = chunk.get(name)
        w_exc = isinstance(w, tuple) and len(w) == 2 and w[0] == "EXC"
        c_exc = isinstance(c, tuple) and len(c) == 2 and c[0] == "EXC"
        if w_exc and c_exc:
            ctx.seen("twin.chromosome-answers")
            continue
        if w_exc != c_exc:
            _chk(ctx, "twin.chromosome-answers", False, key=(kind, name, "raised-on-one-side") + h, label=label, window=list(window), whole=w, chunk=c,
                      guidmode=guidmode)
            continue
        if name == "to_dict":
            diff = _dict_diff(w, c)
            only_guid = bool(diff) and all(p.rsplit("/", 1)[-1] in _GUID_FIELDS for p in diff)
            _chk(ctx, "twin.chromosome-answers", not diff, key=(kind, "to_dict", "only-guid-fields" if only_guid else "content") + h, label=label,
                      window=list(window), differing_paths=diff[:12], guidmode=guidmode, only_guid_fields=only_guid, klass=kind)
        elif name == "children_guids" and kind == "coll" and guidmode == "computed":
            ctx.seen("twin.chromosome-answers")   # every child's computed guid is compared on its own (twin.guid-computed)
        else:
            _chk(ctx, "twin.chromosome-answers", w == c, key=(kind, name, "value") + h, label=label, window=list(window), whole=w, chunk=c, guidmode=guidmode, history=history)
    if model:
        for name, want in model.items():
            _chk(ctx, "twin.chromosome-answers", chunk.get(name) == want, key=(kind, name, "vs-spec") + h, label=label, window=list(window),
                      chunk=chunk.get(name), want=want)


def _qual_parts(q):
    out = []
    for k in sorted(q or {}):
        out += [str(k), str(sorted(str(x) for x in q[k]))]
    return out


def _digest_rest(kind, o):
    """The strings a container class feeds into its computed guid AFTER the location (read from the object's public
    attributes, in the order of the digest_object call); used only to explain a guid difference (K8)."""
    if kind not in ("gene", "fcoll", "coll"):
        return None
    kids = str(sorted(str(x) for x in o.children_guids))
    if kind == "gene":
        return [str(o.gene_id), str(o.gene_symbol), str(o.gene_type), str(o.locus_tag), str(o.sequence_name)] + _qual_parts(o.qualifiers) + [kids]
    if kind == "fcoll":
        return [str(o.feature_collection_name), str(o.feature_collection_id), str(o.feature_collection_type), str(sorted(str(x) for x in o.feature_types)),
                str(o.locus_tag), str(o.sequence_name)] + _qual_parts(o.qualifiers) + [kids]
    if kind == "coll":
        return [str(o.name), str(o.sequence_name)] + _qual_parts(o.qualifiers) + [str(o.completely_within), kids]
    return None


def _md5_guid(parts):
    h = hashlib.md5()
    for x in parts:
        h.update(x.encode("utf-8"))
    return str(uuid.UUID(h.hexdigest()))


def check_guid(ctx, kind, label, whole_obj, chunk_obj, supplied, window):
    wg, cg = str(whole_obj.guid), str(chunk_obj.guid)
    if supplied is not None:
        _chk(ctx, "twin.guid-supplied", wg == supplied and cg == supplied, key=(kind, "preserved"), label=label, window=list(window), supplied=supplied,
             whole=wg, chunk=cg)
    elif wg == cg:
        ctx.check("twin.guid-computed", True)
    else:
        _chk(ctx, "twin.guid-computed", False, key=(kind, "computed-equal"), label=label, window=list(window), whole=wg, chunk=cg, klass=kind,
             chunk_location=str(chunk_obj.chunk_relative_location), whole_location=str(whole_obj.chunk_relative_location),
             rest_whole=_digest_rest(kind, whole_obj), rest_chunk=_digest_rest(kind, chunk_obj))


def check_location(ctx, kind, label, obj, blocks, strand, cs, ce, stranded=True):
    """chunk.location for one chunk-built object whose chromosome blocks are `blocks`."""
    want_blocks = [tuple(b) for b in GG.clip_blocks(blocks, cs, ce)]
    want_pos = inside(PM.positions(blocks, strand), cs, ce)
    w = [cs, ce]
    loc, e = ctx.call(lambda: obj.chunk_relative_location)
    if e is not None:
        _chk(ctx, "chunk.location", False, key=(kind, "raised"), label=label, window=w, exc=_exc(e))
        return False
    if not want_pos:
        r, e = ctx.call(lambda: (loc.is_empty, _lifted(obj.lift_over_to_first_ancestor_of_type("chromosome")), obj.chunk_relative_size))
        _chk(ctx, "chunk.location", e is None and r[0] is True and r[1] == [] and r[2] == 0, key=(kind, "no-base-in-chunk-must-be-empty"), label=label,
                  window=w, got=repr(loc)[:120], exc=_exc(e))
        return True
    r, e = ctx.call(lambda: sorted((s + cs, t + cs) for s, t in _blocks(loc)))
    _chk(ctx, "chunk.location", e is None and r == want_blocks, key=(kind, "blocks"), label=label, window=w, got=r, want=want_blocks, exc=_exc(e))
    r, e = ctx.call(lambda: _lifted(obj.lift_over_to_first_ancestor_of_type("chromosome")))
    ok = e is None and (r == want_pos if stranded else sorted(r) == sorted(want_pos))
    _chk(ctx, "chunk.location", ok, key=(kind, "lifted-positions"), label=label, window=w, got=r, want=want_pos, exc=_exc(e))
    r, e = ctx.call(lambda: (loc.strand.to_symbol(), obj.chunk_relative_start + cs, obj.chunk_relative_end + cs, obj.chunk_relative_size))
    want = (strand, want_blocks[0][0], want_blocks[-1][1], len(want_pos))
    _chk(ctx, "chunk.location", e is None and r == want, key=(kind, "strand-start-end-size"), label=label, window=w, got=r, want=want, exc=_exc(e))
    return True


def check_sequences(ctx, kind, label, obj, blocks, strand, genome, cs, ce, span=None):
    """chunk.sequence for leaf intervals (spliced / genomic / reference) or containers (reference over the span)."""
    w = [cs, ce]
    pos = inside(PM.positions(blocks, strand), cs, ce)

    def judge(name, fn, wants):
        r, e = ctx.call(lambda: str(fn()))
        if e is not None:
            if not pos and _bc_refusal(e):
                ctx.seen("chunk.sequence")
                ctx.bump("sequence-refused-no-base-in-chunk")
                return
            _chk(ctx, "chunk.sequence", False, key=(kind, name, "raised", type(e).__name__), label=label, window=w, exc=_exc(e), want=wants[0])
            return
        _chk(ctx, "chunk.sequence", r in wants, key=(kind, name, "value"), label=label, window=w, got=r, want=wants)

    if kind in ("feature", "tx"):
        judge("get_spliced_sequence", obj.get_spliced_sequence, [SM.extract(pos, strand, genome)])
        if kind == "tx":
            judge("get_transcript_sequence", obj.get_transcript_sequence, [SM.extract(pos, strand, genome)])
        lo, hi = (min(pos), max(pos) + 1) if pos else (0, 0)
        s0, e0 = max(blocks[0][0], cs), min(blocks[-1][1], ce)
        refs = [genome[lo:hi]] + ([genome[s0:e0]] if s0 < e0 else [])
        judge("get_reference_sequence", obj.get_reference_sequence, refs)
        judge("get_genomic_sequence", obj.get_genomic_sequence, [SM.revcomp(x) for x in refs] if strand == "-" else refs)
    else:
        s0, e0 = max(span[0], cs), min(span[1], ce)
        pos = list(range(s0, e0))
        judge("get_reference_sequence", obj.get_reference_sequence, [genome[s0:e0] if s0 < e0 else ""])


def _cut_class(blocks, strand, cs, ce):
    """(class, 5' bases cut mod 3, 3' bases cut mod 3) of a window against sorted blocks."""
    pos = PM.positions(blocks, strand)
    ins = inside(pos, cs, ce)
    if not ins:
        lo, hi = blocks[0][0], blocks[-1][1]
        return ("intron-only" if lo < ce and cs < hi else "miss", 0, 0)
    d5 = pos.index(ins[0])
    d3 = len(pos) - 1 - pos.index(ins[-1])
    if d5 == 0 and d3 == 0:
        return ("whole", 0, 0)
    return ("cut5+3" if d5 and d3 else ("cut5" if d5 else "cut3"), d5 % 3, d3 % 3)


class CdsModel:
    """Model side of one CDS: whole-chromosome codons, and the expectations for a chunk."""

    def __init__(self, tspec, genome):
        self.blocks = [tuple(b) for b in tspec["cds"]]
        self.strand = tspec["strand"]
        self.frames = [int(f) for f in tspec["frames"]]
        self.genome = genome
        self.mc = FM.codons(self.blocks, self.strand, self.frames)
        self.pos = PM.positions(self.blocks, self.strand)
        self.consistent = any(self.frames == FM.consistent_frames(self.blocks, self.strand, o) for o in (0, 1, 2))
        self.f5 = FM.frames_5to3(self.frames, self.strand)[0]

    def codons_in(self, cs, ce, ws=None, we=None):
        lo = cs if ws is None else max(cs, ws)
        hi = ce if we is None else min(ce, we)
        return [c for c in self.mc if all(lo <= p < hi for p in c)]

    def seq(self, codons):
        return "".join(SM.extract(c, self.strand, self.genome) for c in codons)


def _check_cds_chunk_core(ctx, label, mk, M, cs, ce, ncw, widx, via_tx=False):
    """chunk.codons / chunk.cds-sequence / chunk.window-codons / chunk.frames for a chunk-built CDS.  mk() -> fresh CDSInterval
    (or fresh TranscriptInterval when via_tx)."""
    w = [cs, ce]
    want = M.codons_in(cs, ce)
    wseq = M.seq(want)
    wcod = [wseq[k:k + 3] for k in range(0, len(wseq), 3)]
    in_chunk = inside(M.pos, cs, ce)
    kk = "tx.cds" if via_tx else "cds"
    mech = {"single_block": len(M.blocks) == 1, "f5": M.f5, "cds_bases_in_chunk": len(in_chunk),
            "d5": (M.pos.index(in_chunk[0]) if in_chunk else None)}

    def cds_of(o):
        return o.cds if via_tx else o

    # ---- codon locations -----------------------------------------------------------------------------------------
    a = mk()
    res, e = ctx.call(lambda: tuple(cds_of(a).chunk_relative_codon_locations))
    got = None
    if e is None:
        got, e = ctx.call(lambda: [_lifted(c) for c in res])
    _chk(ctx, "chunk.codons", e is None and got == want, key=(kk, "chunk_relative_codon_locations", "raised" if e else "value"), label=label, window=w,
              got=got, want=want, exc=_exc(e), mech=mech, n_whole=len(M.mc))
    n, e2 = ctx.call(lambda: cds_of(a).num_chunk_relative_codons)
    _chk(ctx, "chunk.codons", e2 is None and n == len(want), key=(kk, "num_chunk_relative_codons", "raised" if e2 else "value"), label=label, window=w,
              got=n, want=len(want), exc=_exc(e2), mech=mech, n_whole=len(M.mc))
    if e is None and got == want and want:
        # the codon locations must be usable on the chunk: their own sequence is the codon
        cseq, e3 = ctx.call(lambda: [str(c.extract_sequence()) for c in res])
        _chk(ctx, "chunk.codons", e3 is None and cseq == wcod, key=(kk, "codon-location-sequences"), label=label, window=w, got=cseq, want=wcod, exc=_exc(e3))
    # ---- slow path: extract_sequence after the codon tuple was cached ------------------------------------------
    if e is None:
        r, e4 = ctx.call(lambda: str(cds_of(a).extract_sequence()))
        _judge_seq(ctx, kk, "extract_sequence-after-codon-cache", r, e4, wseq, wcod, in_chunk, label, w, mech)
    # ---- fast path on a fresh object, translate ----------------------------------------------------------------
    b = mk()
    r, e5 = ctx.call(lambda: str(cds_of(b).extract_sequence()))
    _judge_seq(ctx, kk, "extract_sequence", r, e5, wseq, wcod, in_chunk, label, w, mech)
    wprot = FM.translate(wseq, "DEFAULT", strict=True)
    if wprot is not None:
        r, e6 = ctx.call(lambda: str(cds_of(b).translate()))
        _judge_seq(ctx, kk, "translate", r, e6, "".join(wprot), wcod, in_chunk, label, w, mech)
    if via_tx:
        c = b
        r, e7 = ctx.call(lambda: str(c.get_cds_sequence()))
        _judge_seq(ctx, kk, "get_cds_sequence", r, e7, wseq, wcod, in_chunk, label, w, mech)
        if wprot is not None:
            r, e8 = ctx.call(lambda: str(c.get_protein_sequence()))
            _judge_seq(ctx, kk, "get_protein_sequence", r, e8, "".join(wprot), wcod, in_chunk, label, w, mech)
        return a, b
    # ---- chromosome_start / chromosome_end windows combined with the chunk ---------------------------------------
    import random

    r2 = random.Random(cs * 1009 + ce * 31 + widx)
    lo, hi = M.blocks[0][0], M.blocks[-1][1]
    cw = []
    cands = [(max(lo, cs) + d, None) for d in (1, 2, 3)] + [(None, min(hi, ce) - d) for d in (1, 2)] + [(lo + 1, hi - 1), (lo + 2, None), (cs, ce)]
    r2.shuffle(cands)
    cw = cands[:max(1, ncw - 1)] + [(r2.randint(max(0, lo - 1), hi - 1), r2.randint(lo + 1, hi + 1))]
    wc = a      # the per-window preparation is keyed by the window; the codon tuple cached on `a` is not consulted
    for (ws, we) in cw:
        if ws is not None and we is not None and ws >= we:
            continue
        s_eff = lo if ws is None else ws
        e_eff = hi if we is None else we
        if s_eff >= e_eff:
            continue
        wwant = M.codons_in(cs, ce, s_eff, e_eff)
        res, e = ctx.call(lambda: [_lifted(c) for c in wc.scan_chunk_relative_codon_locations(ws, we)])
        cut5 = (s_eff > lo) if M.strand == "+" else (e_eff < hi)
        if e is not None:
            if not wwant and _refusal(e):
                ctx.seen("chunk.window-codons")
                ctx.bump("window-refused-zero-codons")
            else:
                _chk(ctx, "chunk.window-codons", False, key=("raised", type(e).__name__, "1block" if len(M.blocks) == 1 else "multi"), label=label, window=w,
                          cwindow=[ws, we], exc=_exc(e), want=wwant, mech=mech)
        else:
            _chk(ctx, "chunk.window-codons", res == wwant, key=("value", "1block" if len(M.blocks) == 1 else "multi", "window-cuts-5p" if cut5 else "window-keeps-5p"),
                      label=label, window=w, cwindow=[ws, we], got=res, want=wwant, mech=mech)
    # ---- chunk-relative frames (export in chunk coordinates) -----------------------------------------------------
    if not in_chunk:
        ctx.seen("chunk.frames")
        return a, b
    fo = b
    fr, e = ctx.call(lambda: [f.value for f in fo.chunk_relative_frames])
    d, e9 = ctx.call(lambda: fo.to_dict(chromosome_relative_coordinates=False))
    if e is not None or e9 is not None:
        _chk(ctx, "chunk.frames", False, key=("raised", type(e or e9).__name__), label=label, window=w, exc=_exc(e or e9))
        return a, b
    cblocks = [tuple(b) for b in GG.clip_blocks(M.blocks, cs, ce)]
    got_blocks = [(s + cs, t + cs) for s, t in zip(d["cds_starts"], d["cds_ends"])]
    _chk(ctx, "chunk.frames", got_blocks == cblocks and d["cds_frames"] == [FM_NAME[f] for f in fr] and d["strand"] == ("PLUS" if M.strand == "+" else "MINUS"),
              key=("to_dict-chunk-relative", "blocks-frames-strand"), label=label, window=w, got=[got_blocks, d["cds_frames"], d["strand"]], want=cblocks,
              frames=fr)
    if not M.consistent:
        ctx.bump("frames-skipped-frameshifted")
        return a, b
    need = (M.f5 - M.pos.index(in_chunk[0])) % 3
    first_len = len(FM.exons_5to3(cblocks, M.strand)[0])
    whole_first = len(FM.exons_5to3(M.blocks, M.strand)[0])
    if first_len < need or whole_first < M.f5 or len(fr) != len(cblocks):
        if len(fr) != len(cblocks):
            _chk(ctx, "chunk.frames", False, key=("frames-length",), label=label, window=w, frames=fr, blocks=cblocks)
        else:
            ctx.bump("frames-skipped-k13")
        return a, b
    got_c = FM.codons(cblocks, M.strand, fr)
    _chk(ctx, "chunk.frames", got_c == want, key=("chunk_relative_frames", "describe-the-in-chunk-codons"), label=label, window=w, frames=fr, blocks=cblocks,
              got=got_c, want=want, need_offset=need)
    return a, b


def _cds_chunk_questions(get_cds):
    """The chunk-level questions of a CDS as (name, thunk) pairs."""
    return [("chunk_relative_codon_locations", lambda: [_lifted(c) for c in get_cds().chunk_relative_codon_locations]),
            ("num_chunk_relative_codons", lambda: get_cds().num_chunk_relative_codons),
            ("extract_sequence", lambda: str(get_cds().extract_sequence())),
            ("translate", lambda: str(get_cds().translate())),
            ("chunk-location-blocks", lambda: _blocks(get_cds().chunk_relative_location))]


def judge_cds_chunk(ctx, kk, label, raw, M, cs, ce, history):
    """Judge the chunk-level answers `raw` (name -> (value, exception)) of a CDS that were obtained under call history `history`."""
    w = [cs, ce]
    want = M.codons_in(cs, ce)
    wseq = M.seq(want)
    wcod = [wseq[k:k + 3] for k in range(0, len(wseq), 3)]
    in_chunk = inside(M.pos, cs, ce)
    mech = {"single_block": len(M.blocks) == 1, "f5": M.f5, "cds_bases_in_chunk": len(in_chunk), "d5": (M.pos.index(in_chunk[0]) if in_chunk else None)}
    if "chunk_relative_codon_locations" in raw:
        got, e = raw["chunk_relative_codon_locations"]
        _chk(ctx, "chunk.codons", e is None and got == want, key=(kk, "chunk_relative_codon_locations", "raised" if e else "value", history), label=label, window=w,
             got=got, want=want, exc=_exc(e), mech=mech, n_whole=len(M.mc), history=history)
    if "num_chunk_relative_codons" in raw:
        n, e = raw["num_chunk_relative_codons"]
        _chk(ctx, "chunk.codons", e is None and n == len(want), key=(kk, "num_chunk_relative_codons", "raised" if e else "value", history), label=label, window=w,
             got=n, want=len(want), exc=_exc(e), mech=mech, n_whole=len(M.mc), history=history)
    if "extract_sequence" in raw:
        r, e = raw["extract_sequence"]
        _judge_seq(ctx, kk, "extract_sequence", r, e, wseq, wcod, in_chunk, label, w, mech, history=history)
    wprot = FM.translate(wseq, "DEFAULT", strict=True)
    if "translate" in raw and wprot is not None:
        r, e = raw["translate"]
        _judge_seq(ctx, kk, "translate", r, e, "".join(wprot), wcod, in_chunk, label, w, mech, history=history)
    if "chunk-location-blocks" in raw:
        r, e = raw["chunk-location-blocks"]
        wb = [tuple(b) for b in GG.clip_blocks(M.blocks, cs, ce)]
        gb = None if e is not None else sorted((x + cs, y + cs) for x, y in r)
        _chk(ctx, "chunk.location", e is None and gb == wb, key=(kk, "blocks", history), label=label, window=w, got=gb, want=wb, exc=_exc(e), history=history)


def check_cds_chunk(ctx, label, mk, M, cs, ce, ncw, widx, via_tx=False, whole_ans=None, guidmode="computed", scan_wins=(), hseed=0):
    """All chunk-level CDS monitors, then the HISTORY passes: the chromosome-level answers are asked again on the objects whose
    chunk-level accessors (codon tuple cache, fast path, windows, frames) were already touched, and a fresh object answers all
    chromosome-level and chunk-level questions in a seeded shuffled order; every answer must be the same as on a fresh object."""
    import random

    a, b = _check_cds_chunk_core(ctx, label, mk, M, cs, ce, ncw, widx, via_tx)
    if whole_ans is None:
        return
    kind = "tx" if via_tx else "cds"
    kk = "tx.cds" if via_tx else "cds"
    sw = scan_wins if kind == "cds" else ()
    for tag, o in (("after-codon-cache", a), ("after-fast-path", b)):
        compare_answers(ctx, kind, label, whole_ans, _answers(ctx, kind, o, sw), (cs, ce), guidmode, history=tag)
    c = mk()
    qs = [("chrom", n, f) for n, f in _questions(kind, c, sw)] + [("chunk", n, f) for n, f in _cds_chunk_questions(lambda: c.cds if via_tx else c)]
    random.Random(f"{hseed}:{cs}:{ce}:{widx}").shuffle(qs)
    raw = {}
    for g, n, f in qs:
        raw[(g, n)] = ctx.call(f)
    chrom = {n: (("EXC", type(e).__name__) if e is not None else v) for (g, n), (v, e) in raw.items() if g == "chrom"}
    compare_answers(ctx, kind, label, whole_ans, chrom, (cs, ce), guidmode, history="shuffled")
    judge_cds_chunk(ctx, kk, label, {n: ve for (g, n), ve in raw.items() if g == "chunk"}, M, cs, ce, "shuffled")
    ctx.bump("history-passes")


FM_NAME = {0: "ZERO", 1: "ONE", 2: "TWO"}


def _judge_seq(ctx, kk, name, r, e, want, wcod, in_chunk, label, w, mech, history=None):
    h = (history,) if history else ()
    if e is not None:
        if not want and _bc_refusal(e):
            # latitude (a): nothing to read (no base / no complete codon of the CDS in the chunk)
            ctx.seen("chunk.cds-sequence")
            ctx.bump("cds-sequence-refused-zero-codons")
            return
        _chk(ctx, "chunk.cds-sequence", False, key=(kk, name, "raised", type(e).__name__) + h, label=label, window=w, exc=_exc(e), want=want, mech=mech)
        return
    _chk(ctx, "chunk.cds-sequence", r == want, key=(kk, name, "value") + h, label=label, window=w, got=r, want=want, want_codons=wcod, mech=mech, what=name, history=history)


# ----------------------------------------------------------------------------------------------------------------
# transcript / feature / CDS cases
# ----------------------------------------------------------------------------------------------------------------
def run_tx_case(case, ctx):
    t0 = case["tx"]
    glen = case["glen"]
    genome = _genome(glen, case["gseed"], case.get("alpha", "ACGT"))
    exons = [tuple(b) for b in t0["exons"]]
    strand = t0["strand"]
    coding = bool(t0.get("cds"))
    specs = {"computed": t0, "supplied": with_guids(t0, "tx")}
    whole_p = _parent(genome)
    M = CdsModel(t0, genome) if coding else None
    wins = _windows_for([t0["exons"], t0.get("cds") or []], glen, case)
    if case.get("maxwin") and len(wins) > case["maxwin"]:
        import random as _random

        wins = wins[:2] + _random.Random(case.get("wseed", 0)).sample(wins[2:], case["maxwin"] - 2)
    lo, hi = exons[0][0], exons[-1][1]
    scan_wins = [(lo + 1, hi), (None, hi - 2)] if hi - lo > 3 else []

    # whole-chromosome twins, built once per guid mode
    W = {}
    for mode, ts in specs.items():
        fs = feature_of_tx(ts)
        W[mode] = {"tx": GG.build_transcript(ts, whole_p, "chr1"), "feature": GG.build_feature(fs, whole_p, "chr1"),
                   "cds": _build_cds(ts, whole_p, guid=_guid_for("cds", ts["transcript_id"]) if mode == "supplied" else None) if coding else None}
    WA = {mode: {k: _answers(ctx, k, o, scan_wins if k == "cds" else ()) for k, o in objs.items() if o is not None} for mode, objs in W.items()}
    model_ok = True
    if coding:
        wc = WA["computed"]["cds"].get("chromosome_codon_locations")
        model_ok = wc == M.mc
        if not model_ok:
            ctx.bump("skipped-whole-twin-disagrees-with-model")
    f5 = M.f5 if coding else -1
    fshift = bool(coding and not M.consistent)

    for widx, (cs, ce) in enumerate(wins):
        ecut = _cut_class(exons, strand, cs, ce)
        ccut = _cut_class(M.blocks, strand, cs, ce) if coding else ("noncoding", 0, 0)
        sig = ("tx", strand, min(len(exons), 3), min(len(M.blocks), 3) if coding else 0, f5, fshift, ecut, ccut)
        nontrivial = ecut[0] != "whole" or ccut[0] not in ("whole", "noncoding")
        ctx.note(sig, nontrivial=nontrivial, klass=("tx-" + case["gen"]) if widx == 0 else None)
        ctx.bump("windows")
        ctx.bump("window-exons-" + ecut[0])
        if coding:
            ctx.bump("window-cds-" + ccut[0])
        chunk_p = _parent(genome, (cs, ce))
        mode = "computed" if widx % 2 == 0 else "supplied"
        other = "supplied" if mode == "computed" else "computed"
        ts = specs[mode]
        fs = feature_of_tx(ts)
        label = f"{case['gen']}:{t0.get('transcript_id')}"
        # ---- constructors: an interval that misses the chunk must still build ----------------------------------
        built = {}
        for k, fn in (("tx", lambda: GG.build_transcript(ts, chunk_p, "chr1")), ("feature", lambda: GG.build_feature(fs, chunk_p, "chr1")),
                      ("cds", (lambda: _build_cds(ts, chunk_p, guid=_guid_for("cds", ts["transcript_id"]) if mode == "supplied" else None)) if coding else None)):
            if fn is None:
                continue
            o, e = ctx.call(fn)
            if e is not None:
                _chk(ctx, "chunk.location", False, key=(k, "constructor-raised", type(e).__name__), label=label, window=[cs, ce], exc=_exc(e),
                          exon_cut=ecut[0], cds_cut=ccut[0])
                continue
            built[k] = o
        # ---- chromosome-level answers, guids ---------------------------------------------------------------------
        for k, o in built.items():
            model = {"start": (M.blocks if k == "cds" else exons)[0][0], "end": (M.blocks if k == "cds" else exons)[-1][1], "strand": strand,
                     "blocks": list(M.blocks if k == "cds" else exons)}
            compare_answers(ctx, k, label, WA[mode][k], _answers(ctx, k, o, scan_wins if k == "cds" else ()), (cs, ce), mode, model)
            supplied = None
            if mode == "supplied":
                supplied = {"tx": ts["guid"], "feature": fs["guid"], "cds": _guid_for("cds", ts["transcript_id"])}[k]
            check_guid(ctx, k, label, W[mode][k], o, supplied, (cs, ce))
        # the other guid mode: only guid + dictionary form (cheap)
        ts2 = specs[other]
        o2, e = ctx.call(GG.build_transcript, ts2, chunk_p, "chr1")
        if e is None:
            check_guid(ctx, "tx", label, W[other]["tx"], o2, ts2["guid"] if other == "supplied" else None, (cs, ce))
            d, e = ctx.call(o2.to_dict)
            _chk(ctx, "twin.chromosome-answers", e is None and d == WA[other]["tx"]["to_dict"], key=("tx", "to_dict", "other-guid-mode"), label=label,
                      window=[cs, ce], guidmode=other, exc=_exc(e))
        # ---- chunk-level answers ---------------------------------------------------------------------------------
        if "feature" in built:
            check_location(ctx, "feature", label, built["feature"], exons, strand, cs, ce)
            check_sequences(ctx, "feature", label, built["feature"], exons, strand, genome, cs, ce)
        if "tx" in built:
            tx = built["tx"]
            check_location(ctx, "tx", label, tx, exons, strand, cs, ce)
            check_sequences(ctx, "tx", label, tx, exons, strand, genome, cs, ce)
            if coding:
                r, e = ctx.call(lambda: tx.cds is not None and tx.is_coding)
                _chk(ctx, "twin.chromosome-answers", e is None and r is True, key=("tx", "cds-kept-when-sliced-out"), label=label, window=[cs, ce], exc=_exc(e))
                if tx.cds is not None:
                    check_location(ctx, "tx.cds", label, tx.cds, M.blocks, strand, cs, ce)
                    # two routes to the same chunk-relative export: the transcript's CDS fields and its CDS's own dictionary
                    da, db = ctx.call(tx.to_dict, chromosome_relative_coordinates=False), ctx.call(tx.cds.to_dict, chromosome_relative_coordinates=False)
                    if da[1] is None and db[1] is None:
                        a3 = [da[0].get("cds_starts"), da[0].get("cds_ends"), da[0].get("cds_frames")]
                        b3 = [db[0].get("cds_starts"), db[0].get("cds_ends"), db[0].get("cds_frames")]
                        _chk(ctx, "twin.chromosome-answers", a3 == b3, key=("tx", "chunk-relative-dict", "cds-fields-vs-cds-dict"), label=label, window=[cs, ce],
                             transcript=a3, cds=b3)
        if coding and "cds" in built:
            check_location(ctx, "cds", label, built["cds"], M.blocks, strand, cs, ce)
            if model_ok:
                cguid = _guid_for("cds", ts["transcript_id"]) if mode == "supplied" else None
                check_cds_chunk(ctx, label, lambda: _build_cds(ts, chunk_p, guid=cguid), M, cs, ce, case.get("ncw", 3), widx,
                                whole_ans=WA[mode]["cds"], guidmode=mode, scan_wins=scan_wins, hseed=case["gseed"])
                if "tx" in built and built["tx"].cds is not None and widx % 3 == 0:
                    check_cds_chunk(ctx, label, lambda: GG.build_transcript(ts, chunk_p, "chr1"), M, cs, ce, 0, widx, via_tx=True,
                                    whole_ans=WA[mode]["tx"], guidmode=mode, hseed=case["gseed"])
                # history: the objects that answered the chromosome-level questions FIRST now answer the chunk-level codon questions
                judge_cds_chunk(ctx, "cds", label, {n: ctx.call(f) for n, f in _cds_chunk_questions(lambda: built["cds"])}, M, cs, ce, "after-chromosome-level")
                if "tx" in built and built["tx"].cds is not None:
                    judge_cds_chunk(ctx, "tx.cds", label, {n: ctx.call(f) for n, f in _cds_chunk_questions(lambda: built["tx"].cds)}, M, cs, ce,
                                    "after-chromosome-level")
        # ---- provenance: the same objects arriving on this chunk by another route -------------------------------------------------------
        if widx % 2 == 0:
            check_provenance(ctx, label, case, built, ts, fs, genome, wins, widx, chunk_p, exons, strand, M if (coding and model_ok) else None, ecut)
        # ---- history: the chromosome-level answers once more, AFTER every chunk-level accessor above was touched on the same objects ----
        for k, o in built.items():
            compare_answers(ctx, k, label, WA[mode][k], _answers(ctx, k, o, scan_wins if k == "cds" else ()), (cs, ce), mode, history="after-chunk-level")
        # ---- the same window as a chunk declared on the MINUS strand of the chromosome --------------------------------------------
        if widx % 3 == 1:
            check_minus_chunk(ctx, label, ts, fs, genome, cs, ce, exons, strand, M if (coding and model_ok) else None, WA[mode], mode, scan_wins)


def check_provenance(ctx, label, case, built, ts, fs, genome, wins, widx, chunk_p, exons, strand, M, ecut):
    """(a) an object built on ANOTHER chunk of the same chromosome (the next window of this case; it may miss the object altogether) and then
    lifted onto this chunk with liftover_to_parent_or_seq_chunk_parent answers like the object built on this chunk directly;
    (b) when this chunk holds the whole feature: the chunk-relative location obtained by reverse_strand() from an opposite-strand twin (the same
    location as the literal one) fed to from_chunk_relative_location gives the feature / CDS of the model."""
    cs, ce = wins[widx]
    w = [cs, ce]
    ocs, oce = wins[(widx + 1) % len(wins)]
    if (ocs, oce) != (cs, ce):
        other_p = _parent(genome, (ocs, oce))
        for k, mk in (("tx", lambda: GG.build_transcript(ts, other_p, "chr1")), ("feature", lambda: GG.build_feature(fs, other_p, "chr1"))):
            if k not in built:
                continue
            src, e0 = ctx.call(mk)
            if e0 is not None:
                continue      # judged where that window is the current one
            o, e = ctx.call(src.liftover_to_parent_or_seq_chunk_parent, chunk_p)
            if e is not None:
                _chk(ctx, "chunk.location", False, key=(k, "relift-from-other-chunk", "raised", type(e).__name__), label=label, window=w, from_window=[ocs, oce],
                     exc=_exc(e))
                continue
            _chk(ctx, "chunk.location", o is not src or (ocs, oce) == (cs, ce), key=(k, "relift-from-other-chunk", "returned-the-source-object"), label=label,
                 window=w, from_window=[ocs, oce])
            check_location(ctx, k, label + ":relifted", o, exons, strand, cs, ce)
            check_sequences(ctx, k, label + ":relifted", o, exons, strand, genome, cs, ce)
            a, b = ctx.call(o.to_dict), ctx.call(built[k].to_dict)
            _chk(ctx, "twin.chromosome-answers", a[1] is None and b[1] is None and a[0] == b[0], key=(k, "to_dict", "relifted-vs-built-here"), label=label,
                 window=w, from_window=[ocs, oce], diff=_dict_diff(a[0], b[0])[:4] if (a[1] is None and b[1] is None) else None, exc=_exc(a[1] or b[1]))
    def spaced(bl):      # lifting a chunk-relative location merges abutting blocks: only layouts with a gap between all blocks have one answer
        bl = sorted(tuple(b) for b in bl)
        return all(b[1] > b[0] for b in bl) and all(bl[j + 1][0] > bl[j][1] for j in range(len(bl) - 1))

    if ecut[0] != "whole" or "feature" not in built or strand not in "+-" or not spaced(exons):
        return
    from inscripta.biocantor.gene.feature import FeatureInterval
    from inscripta.biocantor.gene.cds import CDSInterval

    opp = {"+": "-", "-": "+"}[strand]
    twin, e = ctx.call(GG.build_feature, dict(fs, strand=opp, guid=None), chunk_p, "chr1")
    if e is not None:
        return
    for how, derive in (("reverse_strand", lambda: twin.chunk_relative_location.reverse_strand()),
                        ("reset_strand", lambda: twin.chunk_relative_location.reset_strand(GG._strand(strand)))):
        loc, e = ctx.call(derive)
        if e is not None:
            _chk(ctx, "chunk.location", False, key=("feature", "derived-location", how, "raised"), label=label, window=w, exc=_exc(e))
            continue
        o, e = ctx.call(FeatureInterval.from_chunk_relative_location, loc)
        if e is not None:
            _chk(ctx, "chunk.location", False, key=("feature", "from-derived-location", how, "raised"), label=label, window=w, exc=_exc(e))
            continue
        check_location(ctx, "feature", label + ":from-" + how, o, exons, strand, cs, ce)
        check_sequences(ctx, "feature", label + ":from-" + how, o, exons, strand, genome, cs, ce)
        r, e = ctx.call(lambda: (sorted(_blocks(o.chromosome_location)), o.chromosome_location.strand.to_symbol()))
        _chk(ctx, "twin.chromosome-answers", e is None and r == (sorted(tuple(b) for b in exons), strand), key=("feature", "chromosome_location", "from-" + how),
             label=label, window=w, got=r, want=[sorted(exons), strand], exc=_exc(e))
    if M is not None and _cut_class(M.blocks, strand, cs, ce)[0] == "whole" and "cds" in built and spaced(M.blocks):
        ctwin, e = ctx.call(GG.build_feature, dict(fs, blocks=[list(b) for b in M.blocks], strand=opp, guid=None), chunk_p, "chr1")
        if e is None:
            loc, e = ctx.call(lambda: ctwin.chunk_relative_location.reverse_strand())
            o, e = ctx.call(CDSInterval.from_chunk_relative_location, loc, GG._frames(ts["frames"])) if e is None else (None, e)
            if e is not None:
                _chk(ctx, "chunk.location", False, key=("cds", "from-derived-location", "raised"), label=label, window=w, exc=_exc(e))
            else:
                check_location(ctx, "cds", label + ":from-reverse_strand", o, M.blocks, strand, cs, ce)
                a, b = ctx.call(lambda: (str(o.extract_sequence()), str(o.translate()))), ctx.call(lambda: (str(built["cds"].extract_sequence()), str(built["cds"].translate())))
                _chk(ctx, "twin.chromosome-answers", (a[1] is None) == (b[1] is None) and a[0] == b[0], key=("cds", "sequence-translation", "from-reverse_strand"),
                     label=label, window=w, got=a[0], want=b[0], exc=_exc(a[1] or b[1]))


def _minus_chunk_parent(genome, cs, ce):
    from inscripta.biocantor.io.parser import seq_chunk_to_parent

    return seq_chunk_to_parent(SM.revcomp(genome[cs:ce]), _SEQNAME[0], cs, ce, strand=GG._strand("-"))


def check_minus_chunk(ctx, label, ts, fs, genome, cs, ce, exons, strand, M, whole_answers, guidmode, scan_wins):
    """A sequence chunk may be declared on the minus strand of its chromosome (seq_chunk_to_parent(strand=MINUS), sequence = reverse
    complement of the window).  Chunk-relative coordinates are then mirrored, so everything is judged through strand-independent
    observations: chromosome-level answers equal the whole-chromosome twin's; the chunk-relative location lifted back is the part of
    the chromosome location inside the window (5'->3'); sequences equal the model's; chunk-relative codons lifted back are the
    whole-chromosome codons fully inside the window; the chunk-relative blocks + frames, read by the frame model as a stand-alone CDS
    in chunk coordinates and mirrored back, give exactly those codons."""
    w = [cs, ce]
    mp, e = ctx.call(_minus_chunk_parent, genome, cs, ce)
    if e is not None:
        _chk(ctx, "chunk.location", False, key=("minus-chunk", "parent-refused", type(e).__name__), label=label, window=w, exc=_exc(e))
        return
    ctx.bump("minus-strand-chunk-windows")
    want_pos = inside(PM.positions(exons, strand), cs, ce)
    for kind, mk in (("tx", lambda: GG.build_transcript(ts, mp, "chr1")), ("feature", lambda: GG.build_feature(fs, mp, "chr1"))):
        o, e = ctx.call(mk)
        if e is not None:
            _chk(ctx, "chunk.location", False, key=("minus-chunk", kind, "constructor-raised", type(e).__name__), label=label, window=w, exc=_exc(e))
            continue
        compare_answers(ctx, kind, label, whole_answers[kind], _answers(ctx, kind, o, ()), (cs, ce), guidmode, history="minus-strand-chunk")
        r, e = ctx.call(lambda: _lifted(o.chunk_relative_location))
        _chk(ctx, "chunk.location", e is None and r == want_pos, key=("minus-chunk", kind, "lifted-positions"), label=label, window=w, got=r, want=want_pos, exc=_exc(e))
        if want_pos:
            r, e = ctx.call(lambda: str(o.get_spliced_sequence()))
            want = SM.extract(want_pos, strand, genome)
            _chk(ctx, "chunk.sequence", e is None and r == want, key=("minus-chunk", kind, "spliced"), label=label, window=w, got=r, want=want, exc=_exc(e))
    if M is None:
        return
    # K18 (single block, start frame 1/2) and K13 (5' block shorter than its offset) regions are judged by the plus-strand-chunk legs
    # and their classifiers only
    if len(M.blocks) == 1 and M.f5 != 0:
        ctx.bump("minus-chunk-skipped-k18-region")
        return
    want = M.codons_in(cs, ce)
    wseq = M.seq(want)
    in_chunk = inside(M.pos, cs, ce)
    cds, e = ctx.call(_build_cds, ts, mp)
    if e is not None:
        _chk(ctx, "chunk.codons", False, key=("minus-chunk", "cds", "constructor-raised", type(e).__name__), label=label, window=w, exc=_exc(e))
        return
    compare_answers(ctx, "cds", label, whole_answers["cds"], _answers(ctx, "cds", cds, scan_wins), (cs, ce), guidmode, history="minus-strand-chunk")
    res, e = ctx.call(lambda: [_lifted(c) for c in cds.chunk_relative_codon_locations])
    if e is not None:
        _chk(ctx, "chunk.codons", (not want) and _bc_refusal(e), key=("minus-chunk", "raised", type(e).__name__), label=label, window=w, exc=_exc(e), want=want)
    else:
        _chk(ctx, "chunk.codons", res == want, key=("minus-chunk", "lifted-codons"), label=label, window=w, got=res, want=want)
    if want:
        fresh, e = ctx.call(_build_cds, ts, mp)
        r, e = ctx.call(lambda: str(fresh.extract_sequence())) if e is None else (None, e)
        _chk(ctx, "chunk.cds-sequence", e is None and r == wseq, key=("minus-chunk", "extract_sequence"), label=label, window=w, got=r, want=wseq, exc=_exc(e))
    if not in_chunk or not M.consistent:
        return
    fr, e = ctx.call(lambda: [f.value for f in cds.chunk_relative_frames])
    cb, e2 = ctx.call(lambda: _blocks(cds.chunk_relative_location))
    cst, e3 = ctx.call(lambda: cds.chunk_relative_location.strand.to_symbol())
    if e or e2 or e3:
        _chk(ctx, "chunk.frames", False, key=("minus-chunk", "raised", type(e or e2 or e3).__name__), label=label, window=w, exc=_exc(e or e2 or e3))
        return
    need = (M.f5 - M.pos.index(in_chunk[0])) % 3
    if len(fr) != len(cb):
        _chk(ctx, "chunk.frames", False, key=("minus-chunk", "frames-length"), label=label, window=w, frames=fr, blocks=cb)
        return
    first_len = len(FM.exons_5to3(cb, cst)[0]) if cb else 0
    whole_first = len(FM.exons_5to3(M.blocks, M.strand)[0])
    if first_len < need or whole_first < M.f5:
        ctx.bump("frames-skipped-k13")
        return
    got_c = [[ce - 1 - q for q in c] for c in FM.codons(cb, cst, fr)]
    _chk(ctx, "chunk.frames", got_c == want, key=("minus-chunk", "chunk_relative_frames", "describe-the-in-chunk-codons"), label=label, window=w,
         frames=fr, chunk_blocks=cb, chunk_strand=cst, got=got_c, want=want, need_offset=need)


# ----------------------------------------------------------------------------------------------------------------
# genes / feature collections / annotation collections
# ----------------------------------------------------------------------------------------------------------------
def _check_gene_like(ctx, kind, label, whole_obj, whole_ans, chunk_obj, gspec, genome, cs, ce, mode, monitor_children=True, from_query=False, source_obj=None):
    """All monitors for one GeneInterval / FeatureIntervalCollection twin pair (and its children)."""
    child_key = "transcripts" if kind == "gene" else "features"
    span = GG.gene_span(gspec) if kind == "gene" else GG.fcoll_span(gspec)
    ans = _answers(ctx, kind, chunk_obj)
    compare_answers(ctx, kind, label, whole_ans, ans, (cs, ce), mode, {"start": span[0], "end": span[1], "strand": "+", "blocks": [span]})
    supplied = gspec.get("guid")
    if from_query:
        # a query result is built from to_dict(): the guid of the whole-chromosome child is passed on and must be kept
        src = source_obj if source_obj is not None else whole_obj
        _chk(ctx, "collection.query", str(chunk_obj.guid) == str(src.guid), key=(kind, "guid-kept"), label=label, window=[cs, ce], source=str(src.guid),
                  result=str(chunk_obj.guid))
    else:
        check_guid(ctx, kind, label, whole_obj, chunk_obj, supplied, (cs, ce))
    check_location(ctx, kind, label, chunk_obj, [span], "+", cs, ce)
    check_sequences(ctx, kind, label, chunk_obj, [span], "+", genome, cs, ce, span=span)
    if not monitor_children:
        compare_answers(ctx, kind, label, whole_ans, _answers(ctx, kind, chunk_obj), (cs, ce), mode, history="after-chunk-level")
        return
    wchildren = {c.id: c for c in whole_obj.iter_children()}
    schildren = {c.id: c for c in source_obj.iter_children()} if source_obj is not None else wchildren
    cchildren, e = ctx.call(lambda: {c.id: c for c in chunk_obj.iter_children()})
    if e is not None:
        _chk(ctx, "twin.chromosome-answers", False, key=(kind, "iter_children-raised"), label=label, window=[cs, ce], exc=_exc(e))
        return
    for cspec in gspec[child_key]:
        ck = "tx" if kind == "gene" else "feature"
        cid = cspec["transcript_id"] if ck == "tx" else cspec["feature_id"]
        wch, cch = wchildren.get(cid), cchildren.get(cid)
        if wch is None or cch is None:
            _chk(ctx, "twin.chromosome-answers", wch is None and cch is None, key=(kind, "child-missing"), label=label, window=[cs, ce], child=cid)
            continue
        blocks = [tuple(b) for b in (cspec["exons"] if ck == "tx" else cspec["blocks"])]
        st = cspec["strand"]
        wa_child = _answers(ctx, ck, wch)
        compare_answers(ctx, ck, label + "/" + cid, wa_child, _answers(ctx, ck, cch), (cs, ce), mode,
                        {"start": blocks[0][0], "end": blocks[-1][1], "strand": st, "blocks": blocks})
        if from_query:
            sch = schildren.get(cid, wch)
            _chk(ctx, "collection.query", str(cch.guid) == str(sch.guid), key=(ck, "guid-kept"), label=label, window=[cs, ce], source=str(sch.guid), result=str(cch.guid))
        else:
            check_guid(ctx, ck, label + "/" + cid, wch, cch, cspec.get("guid"), (cs, ce))
        check_location(ctx, ck, label + "/" + cid, cch, blocks, st, cs, ce)
        check_sequences(ctx, ck, label + "/" + cid, cch, blocks, st, genome, cs, ce)
        if ck == "tx" and cspec.get("cds"):
            M = CdsModel(cspec, genome)
            r, e = ctx.call(lambda: [_positions(c) for c in wch.cds.chromosome_codon_locations])
            if e is None and r == M.mc and cch.cds is not None:
                check_location(ctx, "tx.cds", label + "/" + cid, cch.cds, M.blocks, st, cs, ce)
                want = M.codons_in(cs, ce)
                got, e = ctx.call(lambda: [_lifted(c) for c in cch.cds.chunk_relative_codon_locations])
                in_chunk = inside(M.pos, cs, ce)
                mech = {"single_block": len(M.blocks) == 1, "f5": M.f5, "cds_bases_in_chunk": len(in_chunk), "d5": (M.pos.index(in_chunk[0]) if in_chunk else None)}
                _chk(ctx, "chunk.codons", e is None and got == want, key=("child.cds", "chunk_relative_codon_locations", "raised" if e else "value"),
                          label=label + "/" + cid, window=[cs, ce], got=got, want=want, exc=_exc(e), mech=mech, n_whole=len(M.mc), child_cds=cspec["cds"],
                          child_strand=st, child_frames=cspec["frames"])
            elif cch.cds is None:
                _chk(ctx, "twin.chromosome-answers", False, key=("tx", "cds-kept-when-sliced-out"), label=label + "/" + cid, window=[cs, ce])
        # history: chromosome-level answers of the child again, after its chunk-level accessors were touched
        compare_answers(ctx, ck, label + "/" + cid, wa_child, _answers(ctx, ck, cch), (cs, ce), mode, history="after-chunk-level")
    compare_answers(ctx, kind, label, whole_ans, _answers(ctx, kind, chunk_obj), (cs, ce), mode, history="after-chunk-level")


def run_coll_case(case, ctx):
    c0 = case["coll"]
    glen = case["glen"]
    genome = _genome(glen, case["gseed"])
    specs = {"computed": c0, "supplied": with_guids(c0, "coll")}
    whole_p = _parent(genome)
    bounded = c0.get("start") is not None
    all_blocks = [[list(GG.gene_span(g))] for g in c0["genes"]] + [[list(GG.fcoll_span(f))] for f in c0["fcolls"]]
    for g in c0["genes"]:
        all_blocks += [t["exons"] for t in g["transcripts"]]
    wins = _windows_for(all_blocks[:6], glen, case)[: 10 + case.get("nwin", 6)]
    W = {m: GG.build_collection(s, whole_p) for m, s in specs.items()}
    WA = {m: _answers(ctx, "coll", o) for m, o in W.items()}
    WG = {m: {g.gene_id: (g, _answers(ctx, "gene", g)) for g in o.genes} for m, o in W.items()}
    WF = {m: {f.feature_collection_id: (f, _answers(ctx, "fcoll", f)) for f in o.feature_collections} for m, o in W.items()}
    label = f"coll:{len(c0['genes'])}g{len(c0['fcolls'])}f"
    for widx, (cs, ce) in enumerate(wins):
        mode = "computed" if widx % 2 == 0 else "supplied"
        spec = specs[mode]
        chunk_p = _parent(genome, (cs, ce))
        cuts = tuple(sorted({_cut_class([GG.gene_span(g)], "+", cs, ce)[0] for g in c0["genes"]} | {_cut_class([GG.fcoll_span(f)], "+", cs, ce)[0] for f in c0["fcolls"]}))
        txcuts = tuple(sorted({_cut_class([tuple(b) for b in t["exons"]], t["strand"], cs, ce)[0] for g in c0["genes"] for t in g["transcripts"]}))
        ctx.note(("coll", len(c0["genes"]), len(c0["fcolls"]), bounded, cuts, txcuts, mode), nontrivial=cuts != ("whole",), klass="collection" if widx == 0 else None)
        ctx.bump("windows")
        # ---- built directly on the chunk -----------------------------------------------------------------------------
        coll, e = ctx.call(GG.build_collection, spec, chunk_p)
        if e is not None:
            _chk(ctx, "chunk.location", False, key=("coll", "constructor-raised", type(e).__name__), label=label, window=[cs, ce], exc=_exc(e), cuts=cuts)
        else:
            ans = _answers(ctx, "coll", coll)
            wa = dict(WA[mode])
            if not bounded:
                # latitude (f): default bounds come from the parent; compare everything else
                for k in ("start", "end", "blocks", "len", "bin"):
                    wa.pop(k, None)
                    ans.pop(k, None)
                wa["to_dict"] = {k: v for k, v in wa["to_dict"].items() if k not in ("start", "end")}
                ans["to_dict"] = {k: v for k, v in ans["to_dict"].items() if k not in ("start", "end")} if isinstance(ans.get("to_dict"), dict) else ans.get("to_dict")
                compare_answers(ctx, "coll", label, wa, ans, (cs, ce), mode)
            else:
                compare_answers(ctx, "coll", label, wa, ans, (cs, ce), mode, {"start": 0, "end": glen, "strand": "+", "blocks": [(0, glen)]})
                # the collection's own identifier is always computed; with explicit bounds it must not depend on the chunk
                check_guid(ctx, "coll", label, W[mode], coll, None, (cs, ce))
                check_location(ctx, "coll", label, coll, [(0, glen)], "+", cs, ce)
                check_sequences(ctx, "coll", label, coll, [(0, glen)], "+", genome, cs, ce, span=(0, glen))
            for gs in spec["genes"]:
                g = next((x for x in coll.genes if x.gene_id == gs["gene_id"]), None)
                if g is not None:
                    wg, wga = WG[mode][gs["gene_id"]]
                    _check_gene_like(ctx, "gene", label + "/" + gs["gene_id"], wg, wga, g, gs, genome, cs, ce, mode)
            for fs in spec["fcolls"]:
                f = next((x for x in coll.feature_collections if x.feature_collection_id == fs["feature_collection_id"]), None)
                if f is not None:
                    wf, wfa = WF[mode][fs["feature_collection_id"]]
                    _check_gene_like(ctx, "fcoll", label + "/" + fs["feature_collection_id"], wf, wfa, f, fs, genome, cs, ce, mode)
        # ---- stand-alone gene / feature collection twins (not wrapped in a collection) ------------------------------
        if widx % 3 == 0:
            for gs in spec["genes"][:1]:
                g, e = ctx.call(GG.build_gene, gs, chunk_p, "chr1")
                if e is not None:
                    _chk(ctx, "chunk.location", False, key=("gene", "constructor-raised", type(e).__name__), label=label, window=[cs, ce], exc=_exc(e))
                else:
                    _check_gene_like(ctx, "gene", label + "/solo-" + gs["gene_id"], WG[mode][gs["gene_id"]][0], WG[mode][gs["gene_id"]][1], g, gs, genome, cs, ce, mode,
                                     monitor_children=False)
            for fs in spec["fcolls"][:1]:
                f, e = ctx.call(GG.build_fcoll, fs, chunk_p, "chr1")
                if e is not None:
                    _chk(ctx, "chunk.location", False, key=("fcoll", "constructor-raised", type(e).__name__), label=label, window=[cs, ce], exc=_exc(e))
                else:
                    fid = fs["feature_collection_id"]
                    _check_gene_like(ctx, "fcoll", label + "/solo-" + fid, WF[mode][fid][0], WF[mode][fid][1], f, fs, genome, cs, ce, mode, monitor_children=False)
        # ---- obtained by query_by_position on the whole-chromosome collection ----------------------------------------
        _check_query(ctx, label, W[mode], WG[mode], WF[mode], spec, genome, cs, ce, mode, "whole", completely_within=(widx % 4 == 3))
        # ---- nested: query a chunk-built, bounded collection inside its chunk ----------------------------------------
        if e is None and coll is not None and bounded and ce - cs >= 4 and widx % 2 == 0:
            import random

            r2 = random.Random(cs * 977 + ce)
            qs = r2.randint(cs, ce - 2)
            qe = r2.randint(qs + 1, ce)
            sub, e2 = ctx.call(GG.build_collection, dict(spec, start=cs, end=ce), chunk_p)
            if e2 is None:
                _check_query(ctx, label, sub, WG[mode], WF[mode], spec, genome, qs, qe, mode, "nested", completely_within=False)
            else:
                _chk(ctx, "collection.query", False, key=("nested", "constructor-raised", type(e2).__name__), label=label, window=[cs, ce], exc=_exc(e2))


def _check_query(ctx, label, source, WG, WF, spec, genome, qs, qe, mode, how, completely_within):
    """collection.query: the result of query_by_position(qs, qe) is the chunk view [qs, qe) of the returned children."""
    res, e = ctx.call(source.query_by_position, qs, qe, completely_within=completely_within)
    if e is not None:
        _chk(ctx, "collection.query", False, key=(how, "raised", type(e).__name__), label=label, window=[qs, qe], exc=_exc(e), completely_within=completely_within)
        return
    r, e = ctx.call(lambda: (res.start, res.end, _blocks(res.chromosome_location), sorted((s + qs, t + qs) for s, t in _blocks(res.chunk_relative_location)),
                             _lifted(res.lift_over_to_first_ancestor_of_type("chromosome")), str(res.get_reference_sequence())))
    want = (qs, qe, [(qs, qe)], [(qs, qe)], list(range(qs, qe)), genome[qs:qe])
    _chk(ctx, "collection.query", e is None and r == want, key=(how, "result-bounds-location-sequence"), label=label, window=[qs, qe], got=r, want=want, exc=_exc(e))
    ctx.bump(f"query-{how}")
    ctx.bump(f"query-{how}-children", len(res.genes) + len(res.feature_collections))
    gspecs = {g["gene_id"]: g for g in spec["genes"]}
    fspecs = {f["feature_collection_id"]: f for f in spec["fcolls"]}
    for g in res.genes:
        gs = gspecs.get(g.gene_id)
        if gs is None:
            _chk(ctx, "collection.query", False, key=(how, "unknown-child"), label=label, window=[qs, qe], child=g.gene_id)
            continue
        # a query result keeps all transcripts of the gene (membership is C09's business): compare those present
        wg, wga = WG[g.gene_id]
        _check_gene_like(ctx, "gene", f"{label}/{how}-query/{g.gene_id}", wg, wga, g, gs, genome, qs, qe, mode, from_query=True,
                         source_obj=next((x for x in source.genes if x.gene_id == g.gene_id), None))
    for f in res.feature_collections:
        fs = fspecs.get(f.feature_collection_id)
        if fs is None:
            _chk(ctx, "collection.query", False, key=(how, "unknown-child"), label=label, window=[qs, qe], child=f.feature_collection_id)
            continue
        wf, wfa = WF[f.feature_collection_id]
        _check_gene_like(ctx, "fcoll", f"{label}/{how}-query/{f.feature_collection_id}", wf, wfa, f, fs, genome, qs, qe, mode, from_query=True,
                         source_obj=next((x for x in source.feature_collections if x.feature_collection_id == f.feature_collection_id), None))


def run_case(case, ctx):
    _SEQNAME[0] = uuid.UUID(int=(case.get("gseed", 0) * 2654435761) % (1 << 128)) if case.get("gseed", 0) % 5 == 0 else "chr1"
    _INTFORM[0] = None
    if case.get("gseed", 0) % 7 in (2, 3):
        import numpy as np

        # signed 64-bit only: unsigned numpy integers wrap around on `x - 1` by numpy's own rules (the unchanged library then loses
        # minus-strand lifts for a window starting at 0) - they are not claimed as a legal spelling of an int
        _INTFORM[0] = np.int64
    if case["kind"] == "tx":
        return run_tx_case(case, ctx)
    if case["kind"] == "coll":
        return run_coll_case(case, ctx)
    from bcv.core import HarnessError

    raise HarnessError(f"unknown kind {case['kind']}")


# ----------------------------------------------------------------------------------------------------------------
# mechanistic classifiers of recorded findings
# ----------------------------------------------------------------------------------------------------------------
def _lib_window_chunk(blocks, strand, frames, ws, we, cs, ce):
    """What the library's window+chunk path computes (K20): the frame offset is measured from the first base of
    (window n cleaned CDS) instead of from the 5' end of the cleaned CDS; single-block CDS additionally add the start frame."""
    blocks = [tuple(b) for b in blocks]
    single = len(blocks) == 1
    base = PM.positions(blocks, strand) if single else FM.kept_positions(blocks, strand, frames)
    R = [p for p in base if ws <= p < we]
    X = [p for p in R if cs <= p < ce]
    if not X:
        return []
    off = (-R.index(X[0])) % 3
    if single:
        off += FM.frames_5to3(frames, strand)[0]
    X = X[off:]
    n = len(X) - len(X) % 3
    return [X[k:k + 3] for k in range(0, n, 3)]


def _cds_of_violation(v):
    case, d = v.get("case") or {}, v.get("detail") or {}
    if d.get("child_cds"):
        return d["child_cds"], d["child_strand"], d["child_frames"]
    t = case.get("tx") or {}
    if t.get("cds"):
        return t["cds"], t["strand"], t["frames"]
    return None, None, None


def classify(v):
    d = v.get("detail") or {}
    mon = v["monitor"]
    win = d.get("window")
    # ---- K8: the computed identifier of a container digests its chunk-relative location -------------------------------
    if mon == "twin.guid-computed" and d.get("klass") in ("gene", "fcoll", "coll") and isinstance(d.get("rest_whole"), list) and isinstance(d.get("rest_chunk"), list):
        # recompute both identifiers as md5(str(chunk-relative location) + the other digest inputs): K8 iff both are reproduced and the
        # inputs differ only in the location string (for a collection also in its children's guids, which are judged on their own)
        rw, rc = d["rest_whole"], d["rest_chunk"]
        same_rest = rw == rc or (d["klass"] == "coll" and rw[:-1] == rc[:-1])
        if (same_rest and (d.get("chunk_location") != d.get("whole_location") or rw != rc)
                and _md5_guid([d["whole_location"]] + rw) == d.get("whole") and _md5_guid([d["chunk_location"]] + rc) == d.get("chunk")):
            return K8
    if mon == "twin.chromosome-answers" and d.get("guidmode") == "computed":
        if d.get("only_guid_fields") and all(p.rsplit("/", 1)[-1] in ("gene_guid", "feature_collection_guid") for p in d.get("differing_paths") or ["x"]):
            return K8
    cds, strand, frames = _cds_of_violation(v)
    if cds is None or not win:
        return None
    cs, ce = win
    blocks = [tuple(b) for b in cds]
    frames = [int(f) for f in frames]
    pos = PM.positions(blocks, strand)
    ins = inside(pos, cs, ce)
    mc = FM.codons(blocks, strand, frames)
    # ---- K5: no base of the CDS in the chunk -> the chunk-relative codon queries fall through to chromosome codons ----
    if mon == "chunk.codons" and not ins:
        if d.get("want") in ([], 0) and (d.get("got") == mc or d.get("got") == len(mc)) and mc:
            return K5
        return None
    if mon == "chunk.window-codons" and not ins and d.get("cwindow") and d.get("want") == []:
        ws, we = d["cwindow"]
        ws = blocks[0][0] if ws is None else ws
        we = blocks[-1][1] if we is None else we
        inwin = [c for c in mc if all(ws <= p < we for p in c)]
        if d.get("got") and d["got"] == inwin:
            return K5
        # ... and the whole-chromosome window path it falls through to has its own recorded finding (C05 K18)
        f5w = FM.frames_5to3(frames, strand)[0]
        R = [p for p in pos if ws <= p < we]
        if d.get("got") and len(blocks) == 1 and f5w in (1, 2) and R and f5w + ((-pos.index(R[0])) % 3) >= 3 and d["got"] == inwin[1:]:
            return K5
        return None
    if not ins:
        return None
    # ---- K18: single block, start frame 1/2, chunk removes d 5' bases, f + (-d mod 3) >= 3: first codon in the chunk lost
    f5 = FM.frames_5to3(frames, strand)[0]
    d5 = pos.index(ins[0])
    k18 = len(blocks) == 1 and f5 in (1, 2) and f5 + ((-d5) % 3) >= 3
    if k18 and mon == "chunk.codons":
        want, got = d.get("want"), d.get("got")
        if isinstance(want, list) and want and got == want[1:]:
            return K18
        if isinstance(want, int) and want >= 1 and got == want - 1:
            return K18
    if k18 and mon == "chunk.cds-sequence" and isinstance(d.get("want_codons"), list) and d["want_codons"]:
        rest = "".join(d["want_codons"][1:])
        if d.get("what") in ("translate", "get_protein_sequence"):
            p = FM.translate(rest, "DEFAULT", strict=True)
            if p is not None and d.get("got") == "".join(p):
                return K18
        elif d.get("got") == rest:
            return K18
    # ---- K21: every base of the CDS that lies in the chunk is removed by frame cleaning -> lifting the empty rest raises -
    if mon == "chunk.codons" and len(blocks) > 1 and d.get("want") in ([], 0) and str(d.get("exc") or "").startswith("EmptyLocationException"):
        kept = set(FM.kept_positions(blocks, strand, frames))
        if ins and not any(p in kept for p in ins):
            return K21
    # ---- chromosome_start/end window combined with a chunk: K18 (offset sum) and K20 (offset measured from the window start)
    if mon == "chunk.window-codons" and isinstance(d.get("got"), list) and d.get("cwindow"):
        ws, we = d["cwindow"]
        ws = blocks[0][0] if ws is None else ws
        we = blocks[-1][1] if we is None else we
        want = d.get("want") or []
        both = [p for p in ins if ws <= p < we]
        if both and len(blocks) == 1 and f5 in (1, 2) and f5 + ((-pos.index(both[0])) % 3) >= 3 and want and d["got"] == want[1:]:
            return K18
        pred = _lib_window_chunk(blocks, strand, frames, ws, we, cs, ce)
        if d["got"] == pred and d["got"] != want:
            base = pos if len(blocks) == 1 else FM.kept_positions(blocks, strand, frames)
            R = [p for p in base if ws <= p < we]
            if R and base.index(R[0]) % 3 != 0:
                return K20
    return None
