"""C09  Collection queries return exactly the specified members, self-consistently.

Oracle: a plain-integer model of the collection (bounds, per member: type, identifiers, children as block lists) built
from the JSON spec with bcv.gen.genes span helpers; membership is a brute-force filter over (start, end, is_coding);
sequences come from posmodel/seqmodel over the case's genome string.  The only things read from the real objects to
build the model are the GUIDs of the freshly constructed source members (they are digests computed by the library).

Monitors
  pos.members       query_by_position(start, end, coding_only, completely_within, expand_location_to_children): the returned
                    genes / feature collections / variant collections are exactly the members whose span lies within
                    (strict) / overlaps (relaxed) the resolved range after the coding-only filter - with the bin shortcut
                    active (start > 0, strict) and inactive (start == 0 / relaxed)
  pos.bounds        the result's start/end are the documented ones: the query range; with expand_location_to_children the
                    range widened to the kept genes / feature collections; the source's own bounds follow the documented
                    'Object Bounds' rule
  pos.refusal       start < 0, start > end, start == end, start/end outside the collection, and an expansion that leaves
                    the sequence chunk raise InvalidQueryError; every other query answers
  id.members        query_by_guids / query_by_interval_guids / query_by_transcript_interval_guids /
                    query_by_feature_interval_guids / query_by_feature_identifiers return exactly the matching members;
                    interval-GUID queries keep exactly the requested transcripts / features / variants inside each parent
  member.dict       every returned member: guid, identifiers, children guids and to_dict() (chromosome coordinates) equal the
                    source member's (children filtered to the requested ones for interval-GUID queries)
  member.sequence   every returned transcript / feature: get_spliced_sequence() == the source's bases restricted to the new
                    bounds (model: 5'->3' positions inside the new window); member and collection get_reference_sequence()
                    == the plus-strand genome over (span & window); a transcript wholly inside the window keeps its CDS sequence

Workload: first generation on freshly built collections (chromosome parent with/without location, sequence chunk, no
parent; members may overhang or lie outside explicit bounds / the chunk), second generation on collections that are the
result of a position query (already on a chunk) or of an id query.

Latitude (what the property / docstrings leave open; every admissible answer is accepted)
  (a) coding_only with variant collections: "coding genes only" does not say whether a variant collection survives the
      filter - a variant collection that matches the range may be kept or dropped (it must not crash the query).
  (b) expand_location_to_children is documented for genes / transcripts / features only: the expanded bounds may or may not
      also enclose kept variant collections.
  (c) an expansion that leaves the collection's own bounds but stays inside its sequence may be refused or answered (the
      docstring promises a refusal only when the sequence chunk is exceeded).
  (d) bounds of id-query results are not documented: they are read from the result; sequences are compared on
      (result bounds & source sequence window).
  (e) a transcript / feature / member without any base inside the new window may answer with an empty sequence or refuse.
  (f) order of members in the result and of transcripts inside a member is not compared (GeneInterval.query_by_guids orders by
      the request).
  (g) identifier queries are driven with member-level identifiers (gene_id / gene_symbol / locus_tag, feature_collection_* ,
      variant_collection_*) and unknown strings only; transcript-level identifiers are not used (undocumented level).
  (h) collections with a sequence-less chromosome Parent are outside the documented input ("there must be associated
      sequence") and are not generated; sequence-less collections have no parent at all.
  (i) second-generation position queries are only run when the first result's bounds lie inside its sequence window.
  (j) the result may carry more sequence than its bounds (a range equal to the source's bounds re-uses the source's parent; an id
      query on a collection whose explicit bounds are narrower than its chunk may keep only the part under those bounds): the
      result's actual sequence window W must satisfy (result bounds & source bounds & source window) <= W <= source window, and every
      sequence is compared with the model restricted to W.  Bases inside the old and the new bounds may never be lost.
  (k) variant collections hold SNVs and insertions only: a deletion that removes everything that is left of a sliced member makes the
      haplotype association in the collection constructor refuse the object by design (C13 / C19 territory).
  cgranges is not installed: only the pure-Python _query_by_position path is decided (DESIGN section 9).
"""
import itertools
import random
import uuid

from bcv.gen import genes as GG
from bcv.models import posmodel as PM
from bcv.models import seqmodel as SM

ID = "C09"
LEVEL = "exploration"
EXHAUSTIVE = False
RULE = (
    "seeded random AnnotationCollections (2..8 genes with 1..3 transcripts, 0..4 feature collections, 0..2 variant collections; "
    "overlapping / nested / abutting members, coding and non-coding genes, shared locus tags) over genomes <= 500 bp on a chromosome "
    "parent (with / without location), on a sequence chunk, or without parent, with inferred or explicit bounds; sequence-less "
    "collections in bands around k*2^17, k in {1,2,8,9,64} (1-bp genes on the boundary, genes crossing 1..2 finest bins). Per "
    "collection: ranges made of bounds, 0, member / transcript end points +-1, 1-bp ranges and random points x all 8 flag "
    "combinations, invalid ranges, all subsets of a pool of <= 4 guids / interval guids / identifiers + unknown (and wrong-level) "
    "ones for the five id queries, then second-generation position and id queries on results. A query signature = (generation, "
    "parent mode, flags, range class tags, bin levels crossed, kept/dropped buckets) resp. (function, matched types, subset shape); "
    "non-trivial = the expected answer is a proper non-empty subset, or the range touches/cuts a member end, or a refusal is due, "
    "or (id queries) at least one known and the answer is not the whole collection."
)
SCOPE = {
    "quick": {"NSEQ": 160, "NBAND": 80, "NR": 5, "NR2": 3, "POOL": 3, "NSECOND": 2},
    "thorough": {"NSEQ": 2400, "NBAND": 1200, "NR": 8, "NR2": 4, "POOL": 4, "NSECOND": 3},
}
FLOOR = {"quick": 1500, "thorough": 4000}
REQUIRED_MONITORS = ["pos.members", "pos.bounds", "pos.refusal", "id.members", "member.dict", "member.sequence"]
_AC = "inscripta.biocantor.gene.collections:AnnotationCollection."
REACH = ["inscripta.biocantor.util.bins:bins"] + [_AC + x for x in (
    "_query_by_position", "query_by_position", "_subset_parent", "_build_new_collection_from_query", "_return_collection_for_id_queries",
    "query_by_guids", "query_by_interval_guids", "query_by_transcript_interval_guids", "query_by_feature_interval_guids",
    "query_by_feature_identifiers")] + [
    "inscripta.biocantor.gene.gene:GeneInterval.query_by_guids",
    "inscripta.biocantor.gene.feature:FeatureIntervalCollection.query_by_guids",
    "inscripta.biocantor.gene.variants:VariantIntervalCollection.query_by_guids",
]
REACH_REQUIRED = list(REACH)
ASSUMPTIONS = [
    "oracle: brute-force membership over plain integers from the JSON spec (bcv/gen/genes.py span helpers), posmodel/seqmodel for "
    "sequences; self-tested against the literal expectations of tests/minimal/gene/test_collections.py::test_position_queries",
    "GUIDs of the freshly built source members are read from the real objects (digests); everything else in the model is spec data",
    "cgranges absent: only AnnotationCollection._query_by_position (bin shortcut) is exercised, not _optimized_query_by_position",
]
WATCHDOG = {"quick": 1500, "thorough": 3 * 3600}

FLAGS = [tuple(f) for f in itertools.product([False, True], repeat=3)]   # (coding_only, completely_within, expand)
KS = (1, 2, 8, 9, 64)
ID_FUNCS = ("query_by_guids", "query_by_interval_guids", "query_by_transcript_interval_guids", "query_by_feature_interval_guids",
            "query_by_feature_identifiers")
_CHILD_KEY = {"gene": ("transcripts", "transcript_interval_guid"), "fcoll": ("feature_intervals", "feature_interval_guid"),
              "vcoll": ("variant_intervals", "variant_interval_guid")}


def _child_guid(d, key):
    """guid of a child inside a member's to_dict(); VariantInterval.to_dict called it `guid` before fix 28fa9b9."""
    return d[key] if key in d else d.get("guid")


# ======================================================================================================================
# model (plain ints)
# ======================================================================================================================
def members_from_spec(cspec):
    out = []
    for k, g in enumerate(cspec.get("genes", [])):
        out.append({"t": "gene", "k": k, "ids": [g[x] for x in ("gene_id", "gene_symbol", "locus_tag") if g.get(x) is not None],
                    "children": [{"blocks": [list(b) for b in t["exons"]], "strand": t["strand"], "coding": bool(t.get("cds")), "j": j,
                                  "cds": [list(b) for b in (t.get("cds") or [])]}
                                 for j, t in enumerate(g["transcripts"])]})
    for k, fc in enumerate(cspec.get("fcolls", [])):
        out.append({"t": "fcoll", "k": k,
                    "ids": [fc[x] for x in ("feature_collection_id", "feature_collection_name", "locus_tag") if fc.get(x) is not None],
                    "children": [{"blocks": [list(b) for b in f["blocks"]], "strand": f["strand"], "coding": False, "j": j}
                                 for j, f in enumerate(fc["features"])]})
    for k, vc in enumerate(cspec.get("vcolls", [])):
        out.append({"t": "vcoll", "k": k,
                    "ids": [vc[x] for x in ("variant_collection_name", "variant_collection_id") if vc.get(x) is not None],
                    "children": [{"blocks": [[v["start"], v["end"]]], "strand": "+", "coding": False, "j": j}
                                 for j, v in enumerate(vc["variants"])]})
    return out


def child_span(c):
    return min(b[0] for b in c["blocks"]), max(b[1] for b in c["blocks"])


def span(m):
    sp = [child_span(c) for c in m["children"]]
    return min(s for s, _ in sp), max(e for _, e in sp)


def is_coding(m):
    return m["t"] == "gene" and any(c["coding"] for c in m["children"])


def source_bounds(cspec, pspec, members):
    """The documented 'Object Bounds' rule of AnnotationCollection."""
    if cspec.get("start") is not None:
        return cspec["start"], cspec["end"]
    mode = pspec["mode"]
    if mode == "chrom":
        return 0, pspec["glen"]
    if mode == "chunk":
        return tuple(pspec["window"])
    sp = [span(m) for m in members]
    return min(s for s, _ in sp), max(e for _, e in sp)


def source_window(pspec):
    mode = pspec["mode"]
    if mode in ("chrom", "chrom-bare"):
        return 0, pspec["glen"]
    if mode == "chunk":
        return tuple(pspec["window"])
    return None


def expect_position(M, s, e, coding_only, cw, expand):
    """-> {"error": must raise InvalidQueryError} or {"keep": [...], "optional": [...], "bounds": (lo, hi), "bounds_alt": (lo, hi),
    "may_error": bool}."""
    s0 = M["start"] if s is None else s
    e0 = M["end"] if e is None else e
    if s0 < 0 or s0 > e0 or s0 == e0 or s0 < M["start"] or e0 > M["end"]:
        return {"error": True, "range": (s0, e0)}
    keep, optional = [], []
    for m in M["members"]:
        ms, me = span(m)
        hit = (s0 <= ms and me <= e0) if cw else (ms < e0 and s0 < me)
        if not hit:
            continue
        if coding_only and not is_coding(m):
            if m["t"] == "vcoll":
                optional.append(m)      # latitude (a)
            continue
        keep.append(m)
    lo, hi = s0, e0
    lo2, hi2 = s0, e0
    if expand:
        for m in keep + optional:
            ms, me = span(m)
            lo2, hi2 = min(lo2, ms), max(hi2, me)
            if m["t"] != "vcoll":
                lo, hi = min(lo, ms), max(hi, me)
    out = {"error": False, "range": (s0, e0), "keep": keep, "optional": optional, "bounds": (lo, hi), "bounds_alt": (lo2, hi2),
           "may_error": False}
    win = M["win"]
    if win is not None:
        if lo < win[0] or hi > win[1]:
            return {"error": True, "range": (s0, e0), "over_expanded": True}
        if lo < M["start"] or hi > M["end"] or lo2 < M["start"] or hi2 > M["end"]:
            out["may_error"] = True     # latitude (c) / (b)
    return out


def expect_ids(M, fn, wanted):
    """-> list of expected members (dicts; reduced copies for interval-GUID queries)."""
    wanted = set(wanted)
    out = []
    for m in M["members"]:
        if fn == "query_by_guids":
            if m["guid"] in wanted:
                out.append(m)
        elif fn == "query_by_feature_identifiers":
            if wanted & set(m["ids"]):
                out.append(m)
        else:
            if fn == "query_by_transcript_interval_guids" and m["t"] != "gene":
                continue
            if fn == "query_by_feature_interval_guids" and m["t"] != "fcoll":
                continue
            kept = [c for c in m["children"] if c["guid"] in wanted]
            if kept:
                out.append(dict(m, children=kept))
    return out


def bin_levels_crossed(s, e):
    return sum(1 for sh in (17, 20, 23, 26, 29) if (s >> sh) != ((e - 1) >> sh)) if e > s >= 0 else -1


def range_tags(M, s, e):
    tags = []
    if s is None or e is None:
        tags.append("open")
    s0 = M["start"] if s is None else s
    e0 = M["end"] if e is None else e
    if (s0, e0) == (M["start"], M["end"]):
        tags.append("bounds")
    if s0 == 0:
        tags.append("zero-start")
    if e0 - s0 == 1:
        tags.append("1bp")
    tin = tout = cut = False
    for m in M["members"]:
        ms, me = span(m)
        tin = tin or ms == s0 or me == e0
        tout = tout or me == s0 or ms == e0
        cut = cut or ms < s0 < me or ms < e0 < me
    if tin:
        tags.append("touch-in")
    if tout:
        tags.append("touch-out")
    if cut:
        tags.append("cuts")
    return tuple(tags)


# ======================================================================================================================
# oracle self-test: literal expectations of the upstream fixture (gene1 12-28 coding, featgrp1 12-25, featgrp2 35-40, bounds 0-54)
# ======================================================================================================================
def selftest():
    from bcv.core import HarnessError

    try:
        PM.selftest()
        SM.selftest()
    except AssertionError as e:
        raise HarnessError(f"model self-test: {e!r}")
    mem = [
        {"t": "gene", "guid": "gene1", "ids": ["gene1"], "children": [{"blocks": [[12, 28]], "strand": "+", "coding": True},
                                                                      {"blocks": [[12, 16], [17, 20], [22, 25]], "strand": "+", "coding": True}]},
        {"t": "fcoll", "guid": "featgrp1", "ids": ["featgrp1"], "children": [{"blocks": [[12, 15]], "strand": "+", "coding": False},
                                                                              {"blocks": [[12, 16], [17, 20], [22, 25]], "strand": "+", "coding": False}]},
        {"t": "fcoll", "guid": "featgrp2", "ids": ["featgrp2"], "children": [{"blocks": [[35, 40]], "strand": "-", "coding": False}]},
    ]
    M = {"start": 0, "end": 54, "win": (0, 54), "members": mem}
    table = [
        (None, None, False, True, {"featgrp1", "featgrp2", "gene1"}), (0, None, False, True, {"featgrp1", "featgrp2", "gene1"}),
        (None, 40, False, True, {"featgrp1", "featgrp2", "gene1"}), (0, 30, False, True, {"featgrp1", "gene1"}),
        (35, None, False, True, {"featgrp2"}), (36, None, False, True, set()), (36, None, False, False, {"featgrp2"}),
        (10, 13, False, False, {"featgrp1", "gene1"}), (0, None, True, False, {"gene1"}), (15, 30, False, False, {"featgrp1", "gene1"}),
        (10, 35, False, False, {"featgrp1", "gene1"}),
        # docstring of query_by_position, rows that do not depend on the transcript-level wording of its table
        (21, 22, False, True, set()), (21, 22, False, False, {"featgrp1", "gene1"}),
    ]
    for s, e, co, cw, want in table:
        x = expect_position(M, s, e, co, cw, False)
        got = {m["guid"] for m in x.get("keep", [])}
        if x["error"] or got != want or x["bounds"] != x["range"]:
            raise HarnessError(f"membership oracle disagrees with the documented example {(s, e, co, cw)}: {got} vs {want}")
    # documented refusals (test_query_position_exceptions): (-1,10) (15,10) (0,55) (10,10)
    for s, e in [(-1, 10), (15, 10), (0, 55), (10, 10)]:
        if not expect_position(M, s, e, False, True, False)["error"]:
            raise HarnessError(f"refusal oracle accepts the documented invalid range {(s, e)}")
    # expansion: documented test: query (12,20) relaxed then (15,20) expand on the chunk must be refused, without expand it answers
    M2 = {"start": 12, "end": 20, "win": (12, 20), "members": mem[:2]}
    if not expect_position(M2, 15, 20, False, False, True)["error"] or expect_position(M2, 15, 20, False, False, False)["error"]:
        raise HarnessError("expansion oracle disagrees with test_nested_position_queries_expand")
    x = expect_position(dict(M, win=None), 15, 20, False, False, True)
    if x["error"] or x["bounds"] != (12, 28):
        raise HarnessError("expansion bounds oracle wrong")
    if bin_levels_crossed((1 << 17) - 1, (1 << 17) + 1) != 1 or bin_levels_crossed((1 << 20) - 1, (1 << 20) + 1) != 2 or bin_levels_crossed(5, 9) != 0:
        raise HarnessError("bin level helper wrong")
    r = expect_ids({"members": [dict(m, children=[dict(c, guid=f"{m['guid']}.{i}") for i, c in enumerate(m["children"])]) for m in mem]},
                   "query_by_interval_guids", ["gene1.1", "featgrp2.0", "nope"])
    if [(m["guid"], [c["guid"] for c in m["children"]]) for m in r] != [("gene1", ["gene1.1"]), ("featgrp2", ["featgrp2.0"])]:
        raise HarnessError("interval-guid oracle wrong")


# ======================================================================================================================
# workload generation (JSON-able cases)
# ======================================================================================================================
def shards(tier, seed):
    n = 16
    return [{"i": i, "n": n} for i in range(n)]


def _rand_vcolls(rng, lo, hi, n):
    out = []
    for k in range(n):
        nv = rng.randint(1, 3)
        w = max(8, (hi - lo) // 2)
        a = rng.randint(lo, max(lo, hi - w))
        blocks = GG.rand_blocks(rng, a, min(hi, a + w), nv, min_len=1, max_len=3, adjacent_prob=0.0)
        variants = []
        for j, (s, e) in enumerate(blocks):
            kind = rng.choice(["SNV", "SNV", "insertion"])       # no deletions: latitude (k)
            if kind == "SNV":
                e, alt = s + 1, rng.choice("ACGT")
            else:
                e, alt = s + 1, "".join(rng.choice("ACGT") for _ in range(rng.randint(2, 4)))
            variants.append({"start": s, "end": e, "alt": alt, "type": kind, "name": f"var{k}_{j}", "id": f"vid{k}_{j}"})
        out.append({"variants": variants, "variant_collection_name": f"vc{k}", "variant_collection_id": f"vcid{k}", "qualifiers": {}})
    return out


def _rand_cspec(rng, lo, hi, ngenes, nfcolls, nvcolls, max_exons=4, engineered=()):
    """Members placed in random slots inside [lo, hi); `engineered` = extra (start, end) spans that become 1-transcript genes."""
    L = hi - lo
    genes, fcolls = [], []

    def slot():
        w = rng.randint(min(6, L), max(6, rng.choice([L // 8, L // 4, L // 2])))
        s = rng.randint(lo, max(lo, hi - w))
        return s, min(hi, s + w)

    prev_end = None
    for k in range(ngenes):
        s, e = slot()
        if prev_end is not None and rng.random() < 0.2 and prev_end + 6 <= hi:     # abutting / touching members
            s, e = prev_end, min(hi, prev_end + max(6, e - s))
        g = GG.rand_gene_spec(rng, s, e, ident=f"g{k}", coding=rng.choice([None, None, None, False, True]), max_exons=max_exons,
                              qualifiers=rng.random() < 0.5)
        genes.append(g)
        prev_end = GG.gene_span(g)[1]
    for k, (s, e) in enumerate(engineered):
        g = GG.rand_gene_spec(rng, s, e, ntx=1, ident=f"e{k}", coding=False, max_exons=1, qualifiers=False)
        g["transcripts"][0]["exons"] = [[s, e]]
        genes.append(g)
    for k in range(nfcolls):
        s, e = slot()
        fcolls.append(GG.rand_fcoll_spec(rng, s, e, ident=f"f{k}", qualifiers=rng.random() < 0.5))
    # identifiers: some missing, some shared between members
    for g in genes:
        if rng.random() < 0.15:
            g["gene_symbol"] = None
        if rng.random() < 0.1:
            g["locus_tag"] = None
    if genes and fcolls and rng.random() < 0.35:
        rng.choice(fcolls)["locus_tag"] = rng.choice(genes)["locus_tag"] or "LT_shared"
    if len(genes) > 1 and rng.random() < 0.2:
        genes[1]["gene_symbol"] = genes[0]["gene_symbol"]
    spec = {"genes": genes, "fcolls": fcolls, "vcolls": _rand_vcolls(rng, lo, hi, nvcolls), "name": "coll", "sequence_name": "chr1",
            "start": None, "end": None, "qualifiers": GG.rand_qualifiers(rng)}
    return spec


def _points(members, bounds, children=True):
    pts = {bounds[0], bounds[1]}
    for m in members:
        pts.update(span(m))
        if children:
            for c in m["children"]:
                pts.update(child_span(c))
    return pts


def rand_ranges(rng, members, bounds, n):
    """n valid-looking ranges (some invalid by construction of +-1) made of interesting points; always includes the bounds range."""
    b0, b1 = bounds
    base = _points(members, bounds)
    pts = sorted({p + d for p in base for d in (-1, 0, 1)} | {0})
    inside = [p for p in pts if b0 <= p <= b1] or [b0, b1]
    out = [[b0, b1], [None, None]]
    menu = ["pair", "pair", "pair", "1bp", "from-start", "to-end", "zero", "open-start", "open-end", "rand"]
    while len(out) < n + 2:
        kind = rng.choice(menu)
        if kind == "pair":
            a, b = rng.choice(inside), rng.choice(inside)
            if a > b:
                a, b = b, a
            if a == b:
                continue
            out.append([a, b])
        elif kind == "1bp":
            a = rng.choice(inside)
            if a + 1 <= b1:
                out.append([a, a + 1])
        elif kind == "from-start":
            out.append([b0, rng.choice(inside)])
        elif kind == "to-end":
            out.append([rng.choice(inside), b1])
        elif kind == "zero":
            out.append([0, rng.choice(inside)])
        elif kind == "open-start":
            out.append([None, rng.choice(inside)])
        elif kind == "open-end":
            out.append([rng.choice(inside), None])
        else:
            a = rng.randint(b0, b1)
            b = rng.randint(b0, b1)
            out.append([min(a, b), max(a, b)])
    return out


def bad_ranges(rng, bounds):
    b0, b1 = bounds
    mid = rng.randint(b0, b1)
    out = [[-1, b1], [mid, mid], [b0, b0], [b1, b1], [b0, b1 + 1], [b0 + 1, b1 + rng.randint(1, 50)], [b1, b0]]
    if b0 > 0:
        out += [[b0 - 1, b1], [0, b1], [b0 - 1, b0]]
    if b1 - b0 > 2:
        out.append([mid + 1, mid] if mid < b1 else [mid, mid - 1])
    return [r for r in out if r[0] is not None]


def _seq_case(rng, sc, big=False):
    L = rng.choice([60, 120, 250, 500])
    mode = rng.choice(["chrom", "chrom", "chrom-bare", "chunk", "chunk", "none"])
    ng = rng.randint(2, 8) if L > 60 else rng.randint(2, 4)
    nf = rng.randint(0, 4) if L > 60 else rng.randint(0, 2)
    nv = rng.choice([0, 0, 0, 1, 2])
    if big:     # scale: 40..150 genes and a dozen feature collections on a few kb
        L, ng, nf, nv = rng.choice([3000, 6000]), rng.choice([40, 80, 150]), rng.randint(8, 16), 0
    if big == "huge":     # > 1024 members (strategies that switch by the number of children), sequence-less
        L, ng, nf, nv, mode = 40000, 1100, 4, 0, "none"
    cspec = _rand_cspec(rng, 0, L, ng, nf, nv)
    members = members_from_spec(cspec)
    pspec = {"mode": mode, "glen": L, "gseed": rng.randrange(1 << 30), "seqname": "chr1", "window": None,
             "alphabet": rng.choice(["ACGT", "ACGT", "ACGTN", "ACGTacgt"])}
    lo = min(span(m)[0] for m in members)
    hi = max(span(m)[1] for m in members)
    if mode == "chunk":
        kind = rng.choice(["cover", "cover", "cut", "cut-left", "cut-right"])
        cs = rng.randint(0, lo) if kind in ("cover", "cut-right") else rng.randint(lo, lo + max(1, (hi - lo) // 3))
        ce = rng.randint(hi, L) if kind in ("cover", "cut-left") else rng.randint(hi - max(1, (hi - lo) // 3), hi)
        if ce - cs < 4:
            cs, ce = 0, L
        pspec["window"] = [cs, ce]
        # variants must lie inside the chunk (a variant outside its sequence is not a C09 subject)
        cspec["vcolls"] = [v for v in cspec["vcolls"] if all(cs <= x["start"] and x["end"] <= ce for x in v["variants"])]
        members = members_from_spec(cspec)
    win = source_window(pspec)
    r = rng.random()
    if r < 0.3:
        # explicit bounds: inside the sequence window when there is one
        wlo, whi = win if win else (0, L + 20)
        if rng.random() < 0.6:      # enclosing every member where the window allows
            a = rng.randint(wlo, max(wlo, min(lo, whi - 1)))
            b = rng.randint(min(whi, max(hi, a + 1)), whi)
        else:                        # narrower than the members: members overhang / lie outside the collection's bounds
            a = rng.randint(wlo, max(wlo, min(whi - 2, lo + (hi - lo) // 3)))
            b = rng.randint(min(whi, a + 1), whi)
        if b > a:
            cspec["start"], cspec["end"] = a, b
    bounds = source_bounds(cspec, pspec, members)
    return {"kind": "seq", "cspec": cspec, "pspec": pspec, "ranges": rand_ranges(rng, members, bounds, sc["NR"]),
            "bad": bad_ranges(rng, bounds), "rseed": rng.randrange(1 << 30), "pool": sc["POOL"], "nr2": sc["NR2"], "nsecond": sc["NSECOND"]}


def _band_case(rng, sc, k):
    c = k << 17
    W = rng.choice([4, 40, 400])
    eng = []
    for s, e in [(c - 1, c), (c, c + 1), (c - 1, c + 1), (c - 2, c - 1), (c + 1, c + 2), (c - W, c), (c, c + W)]:
        if rng.random() < 0.45:
            eng.append((s, e))
    far = rng.random() < 0.5
    lo, hi = (c - (1 << 17) - W, c + (1 << 17) + W) if far else (c - W, c + W)
    lo = max(1, lo)
    cspec = _rand_cspec(rng, c - W, c + W, rng.randint(1, 4), rng.randint(0, 2), rng.choice([0, 0, 1]), max_exons=3, engineered=eng)
    if far:   # members crossing one or two finest bins / sitting in the neighbouring bins
        extra = _rand_cspec(rng, lo, hi, rng.randint(1, 3), rng.randint(0, 1), 0, max_exons=3)
        for j, g in enumerate(extra["genes"]):
            g["gene_id"], g["gene_symbol"], g["locus_tag"] = f"far{j}", f"fsym{j}", f"FLT{j}"
            for t in g["transcripts"]:
                t["transcript_id"] = "far" + t["transcript_id"]
        for j, f in enumerate(extra["fcolls"]):
            f["feature_collection_id"], f["feature_collection_name"], f["locus_tag"] = f"farfc{j}", f"farfcn{j}", f"FFLT{j}"
            for x in f["features"]:
                x["feature_id"] = "far" + x["feature_id"]
        cspec["genes"] += extra["genes"]
        cspec["fcolls"] += extra["fcolls"]
    # a member whose children sit in finest bins that are >= 2 bins apart with nothing of it in between (isoforms / features far
    # apart): its span overlaps ranges that none of its children's bins touch - relaxed membership is decided on the span
    gap_ranges = []
    srng = __import__("random").Random(f"C09-split:{rng.random()}")
    if srng.random() < 0.6:
        B = 1 << 17
        left = c - 2 * B + srng.randint(5, B - 400) if c >= 2 * B else srng.randint(5, B // 2)
        right = c + B + srng.randint(5, B - 400)
        a = [left, left + srng.randint(20, 300)]
        b = [right, right + srng.randint(20, 300)]
        if srng.random() < 0.6:
            g = GG.rand_gene_spec(srng, a[0], a[1], ntx=2, ident="split", coding=False, max_exons=1, qualifiers=False)
            g["transcripts"][0]["exons"], g["transcripts"][1]["exons"] = [a], [b]
            for t in g["transcripts"]:
                t["cds"], t["frames"] = None, None
            cspec["genes"].append(g)
        else:
            fc = GG.rand_fcoll_spec(srng, a[0], a[1], nfeat=2, ident="split", qualifiers=False)
            fc["features"][0]["blocks"], fc["features"][1]["blocks"] = [a], [b]
            cspec["fcolls"].append(fc)
        for _ in range(3):
            q0 = srng.randint(a[1] + 1, b[0] - 2)
            gap_ranges.append([q0, srng.randint(q0 + 1, b[0] - 1)])
        gap_ranges.append([a[1] - 1, a[1] + 5])
        gap_ranges.append([b[0] - 5, b[0] + 1])
    # small genes straddling 128 kb boundaries far inside a query several megabases wide (the query's bin set has to enumerate the
    # interior bins of every level)
    if srng.random() < 0.35:
        B = 1 << 17
        for j2, jj in enumerate(sorted(srng.sample(range(3, 40), 3))):
            bnd = c + jj * B
            gsp = GG.rand_gene_spec(srng, bnd - 3, bnd + 3, ntx=1, ident=f"deep{j2}", coding=False, max_exons=1, qualifiers=False)
            gsp["transcripts"][0]["exons"] = [[bnd - 3, bnd + 3]]
            gsp["transcripts"][0]["cds"], gsp["transcripts"][0]["frames"] = None, None
            cspec["genes"].append(gsp)
        gap_ranges.append([max(1, c - B // 2), c + 41 * B + 7])
        gap_ranges.append([max(1, c - 3), c + 12 * B + 1])
    members = members_from_spec(cspec)
    pspec = {"mode": "none", "glen": 0, "gseed": 0, "seqname": "chr1", "window": None, "alphabet": "ACGT"}
    r = rng.random()
    if r < 0.55:
        cspec["start"], cspec["end"] = 0, max(span(m)[1] for m in members) + rng.choice([0, 1, 1 << 17, 3 << 17])
    elif r < 0.7:
        cspec["start"], cspec["end"] = max(0, min(span(m)[0] for m in members) - rng.choice([0, 1, 1 << 17])), (k + 2) << 17
    bounds = source_bounds(cspec, pspec, members)
    ranges = rand_ranges(rng, members, bounds, sc["NR"])
    # ranges pinned on the bin boundary itself
    b0, b1 = bounds
    for s, e in [(c - 1, c + 1), (c, c + 1), (c - 1, c), (c - W, c), (c, c + W), (c - W - 1, c + W + 1), (1, c), (1, c + 1)]:
        if b0 <= s < e <= b1 and rng.random() < 0.5:
            ranges.append([s, e])
    ranges += [r2 for r2 in gap_ranges if b0 <= r2[0] < r2[1] <= b1]
    return {"kind": "band", "k": k, "cspec": cspec, "pspec": pspec, "ranges": ranges, "bad": bad_ranges(rng, bounds),
            "rseed": rng.randrange(1 << 30), "pool": sc["POOL"], "nr2": sc["NR2"], "nsecond": 1}


def cases(spec, ctx):
    i, n = spec["i"], spec["n"]
    sc = SCOPE[ctx.tier]
    rng = ctx.rng
    for _ in range(sc["NSEQ"] // n + 1):
        yield _seq_case(rng, sc)
    if i % 4 == 0:
        yield _seq_case(__import__("random").Random(f"C09-big:{ctx.seed}:{i}"), sc, big=True)
    if i == 5:
        hc = _seq_case(__import__("random").Random(f"C09-huge:{ctx.seed}"), dict(sc, NR=2), big="huge")
        hc["pool"], hc["nsecond"], hc["huge"] = 1, 1, True
        yield hc
    for j in range(sc["NBAND"] // n + 1):
        yield _band_case(rng, sc, KS[(j + i) % len(KS)])


# ======================================================================================================================
# real objects
# ======================================================================================================================
def _genome(pspec):
    if pspec["mode"] == "none" or not pspec.get("glen"):
        return None
    return GG.rand_genome(random.Random(f"g{pspec['gseed']}"), pspec["glen"], pspec.get("alphabet", "ACGT"))


def _parent(pspec, genome):
    from inscripta.biocantor.io.parser import seq_to_parent, seq_chunk_to_parent
    from inscripta.biocantor.parent import Parent, SequenceType
    from inscripta.biocantor.sequence import Sequence, Alphabet

    mode = pspec["mode"]
    name = pspec.get("seqname", "chr1")
    if mode == "none":
        return None
    if mode == "chrom":
        return seq_to_parent(genome, seq_id=name)
    if mode == "chrom-bare":     # the form used by upstream's tests: chromosome sequence, no location
        return Parent(id=name, sequence=Sequence(genome, Alphabet.NT_EXTENDED_GAPPED), sequence_type=SequenceType.CHROMOSOME)
    if mode == "chunk":
        cs, ce = pspec["window"]
        return seq_chunk_to_parent(genome[cs:ce], name, cs, ce)
    raise ValueError(mode)


def _build_vcoll(v, parent, seqname):
    from inscripta.biocantor.gene.variants import VariantInterval, VariantIntervalCollection

    vs = [VariantInterval(x["start"], x["end"], x["alt"], x["type"], variant_name=x.get("name"), variant_id=x.get("id"),
                          parent_or_seq_chunk_parent=parent) for x in v["variants"]]
    return VariantIntervalCollection(vs, variant_collection_name=v.get("variant_collection_name"),
                                     variant_collection_id=v.get("variant_collection_id"), sequence_name=seqname,
                                     qualifiers={k: list(x) for k, x in (v.get("qualifiers") or {}).items()} or None,
                                     parent_or_seq_chunk_parent=parent)


def build(cspec, pspec, genome):
    from inscripta.biocantor.gene.collections import AnnotationCollection

    parent = _parent(pspec, genome)
    seqname = cspec.get("sequence_name")
    return AnnotationCollection(
        feature_collections=[GG.build_fcoll(fc, parent, seqname) for fc in cspec.get("fcolls", [])] or None,
        genes=[GG.build_gene(g, parent, seqname) for g in cspec.get("genes", [])] or None,
        variant_collections=[_build_vcoll(v, parent, seqname) for v in cspec.get("vcolls", [])] or None,
        name=cspec.get("name"), sequence_name=seqname,
        qualifiers={k: list(v) for k, v in (cspec.get("qualifiers") or {}).items()} or None,
        start=cspec.get("start"), end=cspec.get("end"), parent_or_seq_chunk_parent=parent)


def _attach_guids(members, obj):
    for m in members:
        real = {"gene": obj.genes, "fcoll": obj.feature_collections, "vcoll": obj.variant_collections}[m["t"]][m["k"]]
        m["guid"] = real.guid
        kids = list(real.iter_children())
        for c in m["children"]:
            c["guid"] = kids[c["j"]].guid


def _real_members(r):
    return [("gene", x) for x in r.genes] + [("fcoll", x) for x in r.feature_collections] + [("vcoll", x) for x in r.variant_collections]


def _sorted_children(d, t):
    key = _CHILD_KEY[t][0]
    d = dict(d)
    d[key] = sorted(d[key], key=repr)
    return d


# ======================================================================================================================
# monitors
# ======================================================================================================================
def _actual_window(r):
    """Chromosome extent [a, b) of the sequence the result actually carries (None: no sequence).  Read from the Parent
    structure documented for seq_to_parent / seq_chunk_to_parent; it is only *validated* against the admissible range and
    then used to restrict the model - the bases themselves always come from the model."""
    from inscripta.biocantor.parent import SequenceType

    loc = r.chunk_relative_location
    p = loc.parent
    if p is None or p.sequence is None:
        return None
    if p.has_ancestor_of_type(SequenceType.SEQUENCE_CHUNK):
        cp = p.first_ancestor_of_type(SequenceType.SEQUENCE_CHUNK)
        on = cp.sequence.location_on_parent
        return on.start, on.end
    return 0, len(p.sequence)


def _check_members(ctx, monitor, key, M, src, r, expected, optional, rb, detail):
    """Membership + member.dict + member.sequence for one result.  rb = bounds of the result (None: unbounded / empty).
    Returns (membership as expected, actual sequence window of the result or None)."""
    got = sorted((t, str(x.guid)) for t, x in _real_members(r))
    opt = {(m["t"], str(m["guid"])) for m in optional}
    want = sorted((m["t"], str(m["guid"])) for m in expected)
    got_cmp = [g for g in got if g not in opt]
    ok = ctx.check(monitor, got_cmp == want, key=key,
                   missing=[g for g in want if g not in got_cmp][:6], extra=[g for g in got_cmp if g not in want][:6],
                   spans_missing=[list(span(m)) for m in expected if (m["t"], str(m["guid"])) not in got_cmp][:6], **detail)
    if not ok:
        return False, None
    genome = M.get("genome")
    srcwin = M["win"]
    # ---- which sequence does the result carry?  latitude (j): core <= actual window <= source window --------------------
    aw = None
    if genome is not None and srcwin is not None and rb is not None:
        core = (max(rb[0], M["start"], srcwin[0]), min(rb[1], M["end"], srcwin[1]))
        aw, exc = ctx.call(_actual_window, r)
        if exc is not None:
            aw = None
        if core[0] < core[1]:
            if aw is None:
                ctx.check("member.sequence", False, key=("window", key[0], "result-has-no-sequence"), core=list(core), exc=repr(exc)[:200] if exc else None, **detail)
            else:
                lost = ("start" if aw[0] > core[0] else "") + ("end" if aw[1] < core[1] else "")
                beyond = aw[0] < srcwin[0] or aw[1] > srcwin[1]
                ctx.check("member.sequence", not lost and not beyond, key=("window", key[0], "lost-" + lost if lost else "beyond-source"),
                          must_cover=list(core), result_window=list(aw), result_bounds=list(rb), **detail)
        if aw is not None and not (0 <= aw[0] <= aw[1] <= len(genome)):
            aw = None
    byguid = {str(x.guid): (t, x) for t, x in _real_members(r)}
    for m in list(expected) + [o for o in optional if (o["t"], str(o["guid"])) in got]:
        t, real = byguid[str(m["guid"])]
        srcm = src.guid_map.get(m["guid"])
        if srcm is None:
            ctx.check("member.dict", False, key=("source-member-not-in-guid-map", m["t"]), **detail)
            continue
        # ---- identity -------------------------------------------------------------------------------------------------
        ckey, cguid = _CHILD_KEY[t]
        want_guids = {c["guid"] for c in m["children"]}
        sd, exc1 = ctx.call(srcm.to_dict)
        rd, exc2 = ctx.call(real.to_dict)
        if exc1 is not None or exc2 is not None:
            ctx.check("member.dict", False, key=("to_dict-raised", t, key[0]), exc=repr(exc1 or exc2)[:200], **detail)
        else:
            sd = dict(sd)
            sd[ckey] = [c for c in sd[ckey] if _child_guid(c, cguid) in want_guids]
            same = _sorted_children(sd, t) == _sorted_children(rd, t)
            ids_same = real.identifiers == srcm.identifiers and real.guid == srcm.guid and real.children_guids == want_guids
            pos_same = (real.start, real.end) == span(m)
            diff = []
            if not same:
                diff = [k2 for k2 in sd if sd.get(k2) != rd.get(k2)][:6]
            ctx.check("member.dict", same and ids_same and pos_same, key=(t, key[0], "dict" if not same else ("ids" if not ids_same else "span")),
                      differing_fields=diff, member_span=list(span(m)), got_span=[real.start, real.end], **detail)
        # ---- sequences ------------------------------------------------------------------------------------------------
        if aw is None:
            continue
        kids = {c.guid: c for c in real.iter_children()}
        if t != "vcoll":
            for c in m["children"]:
                rc = kids.get(c["guid"])
                if rc is None:
                    continue
                pos = PM.positions([tuple(b) for b in c["blocks"]], c["strand"])
                pin = [p for p in pos if aw[0] <= p < aw[1]]
                want_seq = SM.extract(pin, c["strand"], genome)
                res, exc = ctx.call(rc.get_spliced_sequence)
                if not pin:
                    ctx.check("member.sequence", exc is not None or str(res) == "", key=(t, key[0], "no-base-in-window"), got=None if exc else str(res)[:60],
                              result_window=list(aw), blocks=c["blocks"], **detail)
                else:
                    cut = len(pin) < len(pos)
                    ctx.check("member.sequence", exc is None and str(res) == want_seq, key=(t, key[0], "spliced", "cut" if cut else "whole"),
                              blocks=c["blocks"], strand=c["strand"], result_window=list(aw), got=None if exc else str(res)[:120], want=want_seq[:120],
                              exc=repr(exc)[:200] if exc else None, **detail)
                    if c["coding"] and not cut:
                        sc_ = srcm.guid_map.get(c["guid"])
                        s1, e1 = ctx.call(lambda: str(sc_.get_cds_sequence())) if sc_ is not None else (None, True)
                        if e1 is None:
                            s2, e2 = ctx.call(lambda: str(rc.get_cds_sequence()))
                            ctx.check("member.sequence", e2 is None and s1 == s2, key=(t, key[0], "cds-twin"), blocks=c["blocks"], strand=c["strand"],
                                      result_window=list(aw), got=s2, want=s1, exc=repr(e2)[:200] if e2 else None, **detail)
        ms, me = span(m)
        a, b = max(ms, aw[0]), min(me, aw[1])
        res, exc = ctx.call(real.get_reference_sequence)
        if a >= b:
            ctx.check("member.sequence", exc is not None or str(res) == "", key=(t, key[0], "member-no-base-in-window"), got=None if exc else str(res)[:60],
                      result_window=list(aw), member_span=[ms, me], **detail)
        else:
            ctx.check("member.sequence", exc is None and str(res) == genome[a:b], key=(t, key[0], "member-reference", "cut" if (a, b) != (ms, me) else "whole"),
                      member_span=[ms, me], result_window=list(aw), got=None if exc else str(res)[:120], want=genome[a:b][:120],
                      exc=repr(exc)[:200] if exc else None, **detail)
    if aw is not None and rb is not None:
        a, b = max(rb[0], aw[0]), min(rb[1], aw[1])
        if a < b:
            res, exc = ctx.call(r.get_reference_sequence)
            ctx.check("member.sequence", exc is None and str(res) == genome[a:b], key=("collection-reference", key[0]), result_window=list(aw),
                      result_bounds=list(rb), got=None if exc else str(res)[:120], want=genome[a:b][:120], exc=repr(exc)[:200] if exc else None, **detail)
    return True, aw


def _pos_query(ctx, M, obj, s, e, flags, gen, mode):
    """One position query against the model.  Returns (result, model of the result) or None."""
    from inscripta.biocantor.exc import InvalidQueryError

    co, cw, ex = flags
    x = expect_position(M, s, e, co, cw, ex)
    s0, e0 = x["range"]
    detail = {"query": [s, e], "flags": {"coding_only": co, "completely_within": cw, "expand_location_to_children": ex},
              "collection_bounds": [M["start"], M["end"]], "source_window": list(M["win"]) if M["win"] else None, "generation": gen}
    tags = range_tags(M, s, e)
    lv = bin_levels_crossed(s0, e0)
    if ((s or 0) + (e or 0) + gen) % 2:
        res, exc = ctx.call(obj.query_by_position, s, e, co, cw, ex)
    else:
        # rely on the documented defaults (start=None, end=None, coding_only=False, completely_within=True, expand...=False)
        kw = {k: v for k, v, dflt in (("start", s, None), ("end", e, None), ("coding_only", co, False), ("completely_within", cw, True),
                                      ("expand_location_to_children", ex, False)) if v != dflt}
        res, exc = ctx.call(obj.query_by_position, **kw)
    if x["error"]:
        ctx.note((gen, mode, "refusal", flags, tags, "over-expanded" if x.get("over_expanded") else "range"), nontrivial=True,
                 klass=f"gen{gen}-{_kind(mode)}-refusal")
        ctx.check("pos.refusal", isinstance(exc, InvalidQueryError),
                  key=("must-refuse", "over-expanded" if x.get("over_expanded") else _why_bad(M, s0, e0), type(exc).__name__ if exc else "answered"),
                  exc=repr(exc)[:200] if exc else None, **detail)
        return None
    kept = len(x["keep"])
    total = len(M["members"])
    shortcut = bool(cw and s0 and e0)
    ctx.note((gen, mode, flags, tags, lv, min(kept, 3), min(total - kept, 3)),
             nontrivial=(0 < kept < total) or bool(set(tags) & {"touch-in", "touch-out", "cuts"}),
             klass=f"gen{gen}-{_kind(mode)}-{'strict' if cw else 'relaxed'}{'-shortcut' if shortcut else ''}")
    if shortcut:
        ctx.bump("queries-with-bin-shortcut-active")
        if lv > 0:
            ctx.bump("queries-with-bin-shortcut-active-crossing-a-bin-boundary")
    elif cw:
        ctx.bump("strict-queries-with-bin-shortcut-off(start==0)")
    if exc is not None:
        if x["may_error"] and isinstance(exc, InvalidQueryError):
            ctx.seen("pos.refusal")
            ctx.bump("latitude-c-refusals")
            return None
        extra = {}
        if type(exc).__name__ == "EmptyLocationException" and M["win"] is not None:
            extra = _kept_model(x["keep"] + x["optional"], (max(x["bounds"][0], M["win"][0]), min(x["bounds"][1], M["win"][1])))
        mech = (k19_label(repr(exc), extra["kept_model"], extra["expected_window"]) if extra else None) or "plain"
        ctx.check("pos.refusal", False, key=("valid-query-raised", type(exc).__name__, "vcoll+coding_only" if (co and any(m["t"] == "vcoll" for m in M["members"])) else mech),
                  exc=repr(exc)[:300], has_variant_collections=any(m["t"] == "vcoll" for m in M["members"]), **extra, **detail)
        return None
    ctx.seen("pos.refusal")
    b = (res.start, res.end)
    ok_b = ctx.check("pos.bounds", b == x["bounds"] or b == x["bounds_alt"], key=("bounds", "expand" if ex else "plain", "strict" if cw else "relaxed"),
                     got=list(b), want=list(x["bounds"]), **detail)
    loc, exc = ctx.call(lambda: (res.chromosome_location.start, res.chromosome_location.end))
    ctx.check("pos.bounds", exc is None and loc == b, key=("chromosome_location", "expand" if ex else "plain"), got=loc, want=list(b), **detail)
    ok_m, nw = _check_members(ctx, "pos.members", ("position", "strict" if cw else "relaxed", "shortcut" if shortcut else "no-shortcut",
                                                   "coding" if co else "all"), M, obj, res, x["keep"], x["optional"], b, detail)
    if not (ok_b and ok_m):
        return None
    gotset = {str(y.guid) for _, y in _real_members(res)}
    M2 = {"start": b[0], "end": b[1], "win": nw, "genome": M.get("genome"),
          "members": [m for m in x["keep"] + x["optional"] if str(m["guid"]) in gotset]}
    return res, M2


def _kept_model(kept, win):
    """Witness data for the classifier of K42 (JSON-able): what the result would have to hold, and on which window."""
    return {"expected_window": list(win) if win else None,
            "kept_model": [{"t": m["t"], "span": list(span(m)),
                            "children": [{"blocks": c["blocks"], "cds": c.get("cds") or []} for c in m["children"]]} for m in kept]}


def variant_slice_mechanism(kept_model, win):
    """K42: the result must hold a variant collection V and a gene / feature collection G that overlap on the result's chunk
    (so the constructor associates them: G.incorporate_variants(V)), and either G has a transcript, CDS or feature without a
    single base inside the chunk ('sliced-child') or V has a variant without a base inside the chunk ('sliced-variant').
    Returns "sliced-child", "sliced-variant", "sliced-child+sliced-variant" or None."""
    if not win or not kept_model:
        return None
    w0, w1 = win

    def clip(sp):
        return max(sp[0], w0), min(sp[1], w1)

    def empty(blocks):
        return not any(max(b[0], w0) < min(b[1], w1) for b in blocks)

    vs = [(clip(m["span"]), any(empty(c["blocks"]) for c in m["children"])) for m in kept_model if m["t"] == "vcoll"]
    vs = [(v, sliced) for v, sliced in vs if v[0] < v[1]]
    labels = set()
    for m in kept_model:
        if m["t"] == "vcoll":
            continue
        a, b = clip(m["span"])
        if a >= b:
            continue
        hits = [sliced for v, sliced in vs if max(a, v[0]) < min(b, v[1])]
        if not hits:
            continue
        if any(empty(c["blocks"]) or (c.get("cds") and empty(c["cds"])) for c in m["children"]):
            labels.add("sliced-child")
        if any(hits):
            labels.add("sliced-variant")
    return "+".join(sorted(labels)) or None


def k19_label(exc_repr, kept_model, win):
    """The K42 sub-mechanism that explains this EmptyLocationException, or None (then the violation stays unexplained)."""
    if not (exc_repr or "").startswith("EmptyLocationException"):
        return None
    label = variant_slice_mechanism(kept_model, win) or ""
    if "Variant incorporation led to an EmptyLocation" in exc_repr:      # raised by tx / CDS / feature .incorporate_variants
        return "sliced-child" if "sliced-child" in label else None
    return "sliced-variant" if "sliced-variant" in label else None       # bare exception from the variant's own (empty) location


def _kind(mode):
    return "band" if mode.startswith("band") else "seq"


def _why_bad(M, s0, e0):
    if s0 < 0:
        return "negative-start"
    if s0 > e0:
        return "start>end"
    if s0 == e0:
        return "empty-range"
    if s0 < M["start"]:
        return "start-below-bounds"
    return "end-above-bounds"


def _id_suite(ctx, M, obj, rs, pool_n, gen, mode):
    """All subsets of a pool of <= pool_n known + unknown / wrong-level ids, for the five id queries.  Returns a list of
    (result, model) of some answers for second-generation use."""
    mem = M["members"]
    if not mem:
        return []
    outs = []
    allkids = [(m, c) for m in mem for c in m["children"]]
    unknown_guid = uuid.UUID(int=rs.getrandbits(128))
    pools = {}
    p = [m["guid"] for m in rs.sample(mem, min(pool_n, len(mem)))]
    pools["query_by_guids"] = p + [rs.choice([unknown_guid, rs.choice(allkids)[1]["guid"]])]          # unknown or transcript-level guid
    pk = [c["guid"] for _, c in rs.sample(allkids, min(pool_n, len(allkids)))]
    pk = pk + [rs.choice([unknown_guid, rs.choice(mem)["guid"]])]                                       # unknown or member-level guid
    for fn in ID_FUNCS[1:4]:
        pools[fn] = pk
    allids = sorted({i for m in mem for i in m["ids"]})
    pi = rs.sample(allids, min(pool_n, len(allids))) if allids else []
    pools["query_by_feature_identifiers"] = pi + ["no-such-identifier"]
    for fn in ID_FUNCS:
        pool = pools[fn]
        for mask in range(1 << len(pool)):
            sel = [x for b, x in enumerate(pool) if mask >> b & 1]
            rs.shuffle(sel)
            expected = expect_ids(M, fn, sel)
            arg = sel[0] if (len(sel) == 1 and rs.random() < 0.5) else list(sel)      # the API also accepts a single id
            detail = {"function": fn, "ids": [str(z) for z in sel], "collection_bounds": [M["start"], M["end"]],
                      "source_window": list(M["win"]) if M["win"] else None, "generation": gen}
            types = tuple(sorted({m["t"] for m in expected}))
            reduced = any(len(m["children"]) < len(next(o for o in mem if o["guid"] == m["guid"])["children"]) for m in expected)
            ctx.note((gen, mode, fn, len(sel), types, min(len(expected), 3), reduced, mask >> (len(pool) - 1) & 1),
                     nontrivial=0 < len(expected) < len(mem) or reduced, klass=f"gen{gen}-{fn}")
            res, exc = ctx.call(getattr(obj, fn), arg)
            if exc is not None:
                overhang = any(span(m)[0] < M["start"] or span(m)[1] > M["end"] for m in expected)
                extra = {}
                if type(exc).__name__ == "EmptyLocationException" and M["win"] is not None:
                    # an id query can at most keep the sequence under the operand's own bounds
                    extra = _kept_model(expected, (max(M["start"], M["win"][0]), min(M["end"], M["win"][1])))
                mech = (k19_label(repr(exc), extra["kept_model"], extra["expected_window"]) if extra else None) or "plain"
                ctx.check("id.members", False, key=("raised", fn, type(exc).__name__, "kept-member-overhangs-bounds" if overhang else "inside", mech),
                          exc=repr(exc)[:300], kept_spans=[list(span(m)) for m in expected][:6], **extra, **detail)
                continue
            b, exc = ctx.call(lambda: (res.start, res.end))
            if exc is not None:      # empty, unbounded result: nothing to compare besides emptiness
                b = None
            ok, nw = _check_members(ctx, "id.members", (fn, "reduced" if reduced else "whole"), M, obj, res, expected, [], b, detail)
            if expected and b is not None:
                # an identifier query keeps the bounds of its source, stretched to every kept member that hangs over them
                kept_spans = [span(m) for m in expected]
                want_b = (min([M["start"]] + [x[0] for x in kept_spans]), max([M["end"]] + [x[1] for x in kept_spans]))
                over = any(x[0] < M["start"] or x[1] > M["end"] for x in kept_spans)
                ctx.check("id.members", tuple(b) == want_b, key=("bounds", fn, "kept-member-overhangs-bounds" if over else "inside"), got=list(b), want=list(want_b),
                          kept_spans=[list(x) for x in kept_spans][:8], **detail)
                if not over and not reduced and len(expected) == len(mem) and fn == "query_by_guids":
                    # selecting every member of a collection by identifier is the identity (same dictionary form, same identifier)
                    a1, a2 = ctx.call(res.to_dict), ctx.call(obj.to_dict)

                    def norm(d):      # the order in which members are listed is not part of the claim
                        import json as _json

                        return {k: (sorted(v, key=lambda x: _json.dumps(x, sort_keys=True, default=str)) if isinstance(v, list) else v) for k, v in d.items()}

                    same = a1[1] is None and a2[1] is None and norm(a1[0]) == norm(a2[0])
                    diff = [k for k in a2[0] if norm(a1[0]).get(k) != norm(a2[0])[k]][:5] if (a1[1] is None and a2[1] is None) else None
                    ctx.check("id.members", same, key=("select-all-is-identity", fn, "generation>1" if gen > 1 else "generation1"),
                              differing_keys=diff, **detail)
            if ok and expected and b is not None and len(outs) < 6 and rs.random() < 0.3:
                outs.append((res, {"start": b[0], "end": b[1], "win": nw, "genome": M.get("genome"), "members": expected}))
    _member_level_guid_queries(ctx, obj, rs, unknown_guid, gen)
    return outs


def _member_level_guid_queries(ctx, obj, rs, unknown_guid, gen):
    """GeneInterval / FeatureIntervalCollection / VariantIntervalCollection.query_by_guids asked directly (single id and list): the
    answer is the same member (guid, identifiers) holding exactly the requested children with unchanged dictionaries, or None."""
    real = list(getattr(obj, "genes", [])) + list(getattr(obj, "feature_collections", [])) + list(getattr(obj, "variant_collections", []) or [])
    for mem in rs.sample(real, min(3, len(real))):
        kids = list(mem.iter_children())
        key = {"GeneInterval": "transcripts", "FeatureIntervalCollection": "feature_intervals", "VariantIntervalCollection": "variant_intervals"}[type(mem).__name__]
        src = {k.guid: k.to_dict() for k in kids}
        picks = [kids[0].guid, [kids[-1].guid], [k.guid for k in kids][::-1], [kids[0].guid, unknown_guid], unknown_guid, [unknown_guid], []]
        for arg in picks:
            want = [g for g in (arg if isinstance(arg, list) else [arg]) if g in src]
            res, exc = ctx.call(mem.query_by_guids, arg)
            det = {"member": type(mem).__name__, "asked": [str(x) for x in (arg if isinstance(arg, list) else [arg])], "single": not isinstance(arg, list),
                   "generation": gen}
            if exc is not None:
                ctx.check("id.members", False, key=("member-level", type(mem).__name__, "raised", type(exc).__name__), exc=repr(exc)[:200], **det)
                continue
            if not want:
                ctx.check("id.members", res is None, key=("member-level", type(mem).__name__, "no-match-is-None"), got=repr(res)[:120], **det)
                continue
            ok = res is not None and type(res) is type(mem) and res.guid == mem.guid and res.identifiers == mem.identifiers
            got = [k.guid for k in res.iter_children()] if ok else None
            ctx.check("id.members", ok and sorted(map(str, got)) == sorted(map(str, want)), key=("member-level", type(mem).__name__, "children"),
                      got=[str(x) for x in got] if got is not None else repr(res)[:120], want=[str(x) for x in want], **det)
            if ok and type(mem).__name__ != "VariantIntervalCollection" and got is not None and sorted(map(str, got)) == sorted(map(str, want)):
                # the children come back in the order in which they were requested (the order decides the primary child among ties, C20)
                ctx.check("id.members", [str(x) for x in got] == [str(x) for x in want], key=("member-level", type(mem).__name__, "children-in-request-order"),
                          got=[str(x) for x in got], want=[str(x) for x in want], **det)
            if ok:
                d = res.to_dict()
                same = all(next((c for c in d[key] if c == src[g]), None) is not None for g in want) and len(d[key]) == len(want)
                ctx.check("member.dict", same, key=("member-level", type(mem).__name__, "child-dicts-unchanged"), **det)


def _pos_suite(ctx, M, obj, ranges, bad, gen, mode, rs, flagsets=None):
    outs = []
    for s, e in ranges:
        for flags in (flagsets or FLAGS):
            out = _pos_query(ctx, M, obj, s, e, flags, gen, mode)
            if out is not None:
                outs.append((out, flags))
    for s, e in bad:
        _pos_query(ctx, M, obj, s, e, rs.choice(FLAGS), gen, mode)
    return outs


def run_case(case, ctx):
    cspec, pspec = case["cspec"], case["pspec"]
    mode = pspec["mode"] if case["kind"] == "seq" else f"band{case['k']}"
    genome = _genome(pspec)
    obj, exc = ctx.call(build, cspec, pspec, genome)
    if exc is not None:
        # the source collection itself is refused (e.g. haplotype association of a variant collection): not a query subject
        ctx.note(("source-refused", mode), nontrivial=False, klass="source-construction-refused")
        ctx.bump("source-construction-refused:" + type(exc).__name__)
        return
    members = members_from_spec(cspec)
    _attach_guids(members, obj)
    b = source_bounds(cspec, pspec, members)
    M = {"start": b[0], "end": b[1], "win": source_window(pspec), "genome": genome, "members": members}
    if not ctx.check("pos.bounds", (obj.start, obj.end) == b, key=("source-object-bounds", pspec["mode"], "explicit" if cspec.get("start") is not None else "inferred"),
                     got=[obj.start, obj.end], want=list(b)):
        return
    rs = random.Random(case["rseed"])
    ranges = [[None if v is None else int(v) for v in r] for r in case["ranges"]]
    bad = [[int(v) for v in r] for r in case["bad"]]
    d_before, e_before = ctx.call(obj.to_dict)
    firsts = _pos_suite(ctx, M, obj, ranges, bad, 1, mode, rs)
    id_firsts = _id_suite(ctx, M, obj, rs, case["pool"], 1, mode)
    # ---- queries are read-only and repeatable: the source collection is what it was, and the first range asked again after all the
    # other queries answers as it did the first time (every query was already judged against the model when it was first asked) ----
    if e_before is None:
        d_after, e_after = ctx.call(obj.to_dict)
        ctx.check("pos.members", e_after is None and d_after == d_before, key=("source-collection-changed-by-queries",), mode=mode,
                  exc=repr(e_after)[:200] if e_after else None)
    for s0, e0 in ranges[:3]:
        for flags in (FLAGS[2], FLAGS[0]):      # strict and relaxed, no filter, no expansion
            _pos_query(ctx, M, obj, s0, e0, flags, 1, mode + "-asked-again")

    # ---- a second collection with the same names on a genome that differs in ONE base in the middle of a queried window, asked the
    # same window in the same process: its members carry ITS sequence (re-chunked parents must not be shared between genomes that
    # agree in name, length and both ends) ----------------------------------------------------------------------------------
    if genome and M["win"] is not None and not case.get("huge"):
        import copy

        wide = [(s0, e0) for s0, e0 in ranges if s0 is not None and e0 is not None and e0 - s0 >= 70 and M["start"] <= s0 and e0 <= M["end"]
                and M["win"][0] <= s0 and e0 <= M["win"][1]][:1]
        for s0, e0 in wide:
            mid = (s0 + e0) // 2
            g2 = genome[:mid] + {"A": "C", "C": "G", "G": "T", "T": "A"}.get(genome[mid].upper(), "A") + genome[mid + 1:]
            obj2, exc2 = ctx.call(build, cspec, pspec, g2)
            if exc2 is not None:
                continue
            members2 = copy.deepcopy(members_from_spec(cspec))
            _attach_guids(members2, obj2)
            M2 = {"start": b[0], "end": b[1], "win": source_window(pspec), "genome": g2, "members": members2}
            for flags in (FLAGS[0], FLAGS[2]):
                _pos_query(ctx, M, obj, s0, e0, flags, 1, mode + "-twin-genome-first")
                _pos_query(ctx, M2, obj2, s0, e0, flags, 1, mode + "-twin-genome-second")
            ctx.bump("twin-genome-queries")
    # ---- second generation: the operand is itself the result of a query (on a chunk when there is sequence) ----------
    cand = [(o, f) for o, f in firsts if o[1]["members"]]
    # prefer relaxed, non-expanded results (members overhang the new bounds) and strict ones with >= 2 members
    rs.shuffle(cand)
    cand.sort(key=lambda of: (not (not of[1][1] and not of[1][2]), -min(len(of[0][1]["members"]), 3)))
    chosen = cand[:1] + rs.sample(cand[1:], min(len(cand) - 1, case["nsecond"] - 1)) if cand else []
    empties = [(o, f) for o, f in firsts if not o[1]["members"]]
    if empties and rs.random() < 0.3:      # an empty but bounded result is a collection too
        chosen.append(rs.choice(empties))
    for (r1, M1), _ in chosen:
        r2 = rand_ranges(rs, M1["members"], (M1["start"], M1["end"]), case["nr2"])
        fl = [FLAGS[i] for i in rs.sample(range(8), 4)]
        _pos_suite(ctx, M1, r1, r2, rs.sample(bad_ranges(rs, (M1["start"], M1["end"])), 3), 2, mode, rs, flagsets=fl)
        _id_suite(ctx, M1, r1, rs, min(2, case["pool"]), 2, mode)
    for r1, M1 in id_firsts[:case["nsecond"]]:
        if M1["win"] is not None and not (M1["win"][0] <= M1["start"] and M1["end"] <= M1["win"][1]):
            ctx.bump("second-generation-skipped(latitude-i)")
            continue
        r2 = rand_ranges(rs, M1["members"], (M1["start"], M1["end"]), case["nr2"])
        fl = [FLAGS[i] for i in rs.sample(range(8), 4)]
        _pos_suite(ctx, M1, r1, r2, [], 2, mode + "-after-id", rs, flagsets=fl)


def classify(v):
    """Mechanistic classifiers of proposed known findings.
    K42: building the result collection fails inside AnnotationCollection._associate_intervals_with_variant_intervals because the
    result's chunk slices away a whole transcript / CDS / feature of a kept member, or a whole variant of a kept variant collection,
    that the haplotype association then tries to lift (EmptyLocationException).  Re-derived from the witness: kept members' blocks,
    the result window, chunk-relative overlap of a variant collection with a gene / feature collection."""
    d = v.get("detail") or {}
    if v["monitor"] in ("pos.refusal", "id.members") and k19_label(d.get("exc") or "", d.get("kept_model"), d.get("expected_window")):
        return "K42-query-result-with-variants-and-a-sliced-away-child-cannot-be-built"
    return None
