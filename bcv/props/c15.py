"""C15  Built-in biological tables and enumerated algebras (finite domains, swept completely).

Oracle: Biopython's NCBI tables (Bio.Data.CodonTable ids 1 and 11), Bio.Data.IUPACData, and the modular /
group laws written out here.  Every element of every finite domain is driven through the real API.
"""
import itertools

ID = "C15"
LEVEL = "exploration"
EXHAUSTIVE = True
RULE = (
    "complete sweep of the finite domains: 64 strict codons; all 16^3 IUPAC triplets in upper case, lower case "
    "and one mixed-case spelling; every letter x case of the five nucleotide alphabets (+ all ordered letter "
    "pairs of each alphabet for reversal); CDSFrame x shifts in [-30,30] and all shift pairs in [-7,7]; all "
    "Strand pairs/triples; all Biotype names.  A case is non-trivial when it is a distinct (domain, element)."
)
FLOOR = {"quick": 12000, "thorough": 12000}
REQUIRED_MONITORS = [
    "codon.strict-translation",
    "codon.ambiguous-translation",
    "codon.synonymous-partition",
    "codon.stop-set",
    "codon.start-sets",
    "codon.identity-stable",
    "alphabet.complement-iupac",
    "alphabet.complement-involution",
    "alphabet.non-nucleotide-refused",
    "frame.shift-modular",
    "frame.shift-additive",
    "frame.phase-roundtrip",
    "strand.reverse-involution",
    "strand.relative-to-laws",
    "strand.symbol-int-roundtrip",
    "strand.total-order",
    "biotype.synonyms",
]
REACH = [
    "inscripta.biocantor.gene.codon:Codon.translate",
    "inscripta.biocantor.gene.codon:Codon.synonymous_codons",
    "inscripta.biocantor.gene.codon:Codon.is_start_codon_in_specific_translation_table",
    "inscripta.biocantor.sequence.sequence:Sequence.reverse_complement",
    "inscripta.biocantor.gene.cds_frame:CDSFrame.shift",
    "inscripta.biocantor.gene.cds_frame:CDSFrame.to_phase",
    "inscripta.biocantor.gene.cds_frame:CDSPhase.to_frame",
    "inscripta.biocantor.location.strand:Strand.relative_to",
    "inscripta.biocantor.location.strand:Strand.reverse",
]
REACH_REQUIRED = REACH
ASSUMPTIONS = [
    "oracle: Bio.Data.CodonTable.unambiguous_dna_by_id[1] and [11], Bio.Data.IUPACData.ambiguous_dna_values / "
    "ambiguous_dna_complement (U read as T; complement involution checked modulo T==U, see DESIGN C15-L)",
]

IUPAC = "ATUCGNWSMKRYBDHV"
SYN_GROUPS = [
    {"protein_coding", "protein-coding", "mRNA"},
    {"misc_RNA", "miscRNA"},
    {"pseudogene", "pseudo"},
    {"lncRNA", "lnc_RNA"},
]


_HELD = {}      # codon objects obtained at the start of the process, compared with what the constructor hands out at the end


def shards(tier, seed):
    return [{"i": 0, "n": 1}]


def _tables():
    from Bio.Data import CodonTable, IUPACData

    t1 = CodonTable.unambiguous_dna_by_id[1]
    t11 = CodonTable.unambiguous_dna_by_id[11]
    vals = dict(IUPACData.ambiguous_dna_values)
    vals["U"] = "T"
    comp = dict(IUPACData.ambiguous_dna_complement)
    comp["U"] = "A"
    comp["-"] = "-"
    return t1, t11, vals, comp


def selftest():
    from bcv.core import HarnessError

    t1, t11, vals, comp = _tables()
    if t1.forward_table["ATG"] != "M" or set(t1.stop_codons) != {"TAA", "TAG", "TGA"}:
        raise HarnessError("biopython table 1 unexpected")
    if set(t11.start_codons) != {"TTG", "CTG", "ATT", "ATC", "ATA", "ATG", "GTG"}:
        raise HarnessError("biopython table 11 starts unexpected")
    if comp["K"] != "M" or comp["B"] != "V" or set(vals["N"]) != set("ACGT"):
        raise HarnessError("IUPAC data unexpected")


def _spellings(t):
    yield t
    yield t.lower()
    yield t[0].lower() + t[1:]


def cases(spec, ctx):
    for c in itertools.product("ACGT", repeat=3):
        yield {"kind": "strict", "codon": "".join(c)}
    for c in itertools.product(IUPAC, repeat=3):
        t = "".join(c)
        for s in _spellings(t):
            yield {"kind": "iupac", "codon": s}
    yield {"kind": "codon-sets"}
    for alpha in ("NT_STRICT", "NT_EXTENDED", "NT_STRICT_GAPPED", "NT_EXTENDED_GAPPED", "NT_STRICT_UNKNOWN"):
        yield {"kind": "alphabet", "alphabet": alpha}
    for alpha in ("AA", "AA_EXTENDED", "AA_STRICT_GAPPED", "AA_EXTENDED_GAPPED", "AA_STRICT_UNKNOWN", "GENERIC"):
        yield {"kind": "alphabet-refuse", "alphabet": alpha}
    for f in ("NONE", "ZERO", "ONE", "TWO"):
        for n in range(-30, 31):
            yield {"kind": "frame-shift", "frame": f, "n": n}
        for a in range(-7, 8):
            for b in range(-7, 8):
                yield {"kind": "frame-add", "frame": f, "a": a, "b": b}
        yield {"kind": "frame-phase", "frame": f}
    for a in ("PLUS", "MINUS", "UNSTRANDED"):
        yield {"kind": "strand1", "a": a}
        for b in ("PLUS", "MINUS", "UNSTRANDED"):
            yield {"kind": "strand2", "a": a, "b": b}
            for c in ("PLUS", "MINUS", "UNSTRANDED"):
                yield {"kind": "strand3", "a": a, "b": b, "c": c}
    yield {"kind": "biotype"}
    for alpha in ("NT_STRICT", "NT_EXTENDED", "NT_STRICT_GAPPED", "NT_EXTENDED_GAPPED", "NT_STRICT_UNKNOWN"):
        for n in (4095, 4096, 16383, 16384, 16385, 20000, 65537, (1 << 17) + 3):
            yield {"kind": "alphabet-long", "alphabet": alpha, "n": n}
    # the tables once more, after the complete domain and a series of refused strings went through the constructor
    yield {"kind": "codon-history"}
    for tt in ("DEFAULT", "STANDARD", "PROKARYOTE"):
        for c in itertools.product("ACGT", repeat=3):
            yield {"kind": "via-cds", "first": "".join(c), "table": tt}
    yield {"kind": "codon-sets"}


def run_case(case, ctx):
    from inscripta.biocantor.gene.codon import Codon, TranslationTable
    from inscripta.biocantor.gene.cds_frame import CDSFrame, CDSPhase
    from inscripta.biocantor.location.strand import Strand
    from inscripta.biocantor.sequence import Sequence, Alphabet
    from inscripta.biocantor.exc import AlphabetError

    t1, t11, vals, comp = _tables()
    fwd = dict(t1.forward_table)
    for s in t1.stop_codons:
        fwd[s] = "*"
    k = case["kind"]

    if k == "strict":
        c = case["codon"]
        ctx.note(("strict", c), klass="strict-codon")
        cod = Codon(c)
        _HELD.setdefault(c, cod)
        ctx.check("codon.strict-translation", cod.translate() == fwd[c] and cod.translate(strict=False) == fwd[c],
                  key="strict", codon=c, got=cod.translate(), want=fwd[c])
        want = {x for x, aa in fwd.items() if aa == fwd[c]}
        got_incl = cod.synonymous_codons(include_self=True)
        got_excl = cod.synonymous_codons()
        ctx.check("codon.synonymous-partition",
                  {str(x) for x in got_incl} == want and {str(x) for x in got_excl} == want - {c}
                  and len(got_incl) == len(want) and len(got_excl) == len(want) - 1
                  and all(isinstance(x, Codon) for x in got_incl),
                  key="syn", codon=c, got=[str(x) for x in got_incl], want=sorted(want))
        return

    if k == "iupac":
        raw = case["codon"]
        c = raw.upper()
        ctx.note(("iupac", raw), klass="iupac-triplet")
        cod = Codon(raw)
        strict = set(c) <= set("ACGT")
        ctx.check("codon.is-strict", cod.is_strict_codon == strict and str(cod) == c and cod is Codon(c),
                  key="is_strict", codon=raw)
        exp = {fwd[a + b + d] for a in vals[c[0]] for b in vals[c[1]] for d in vals[c[2]]}
        got_ns = cod.translate(strict=False)
        got_s = cod.translate(strict=True)
        if strict:
            ctx.check("codon.strict-translation", got_s == fwd[c] == got_ns, key="strict2", codon=raw, got=got_s)
        else:
            ctx.check("codon.ambiguous-translation",
                      got_s == "X" and (got_ns == "X" or exp == {got_ns}),
                      key="ambig", codon=raw, got_strict=got_s, got_nonstrict=got_ns, expansions=sorted(exp))
            syn = cod.synonymous_codons(include_self=True)
            if got_ns == "X":
                ok = syn == [cod] and cod.synonymous_codons() == []
            else:
                ok = {str(x) for x in syn} == {x for x, aa in fwd.items() if aa == got_ns}
            ctx.check("codon.synonymous-partition", ok, key="syn-ambig", codon=raw, got=[str(x) for x in syn])
        return

    if k == "codon-sets":
        ctx.note(("codon-sets",), klass="codon-sets")
        allc = ["".join(x) for x in itertools.product(IUPAC, repeat=3)]
        stops = {c for c in allc if Codon(c).is_stop_codon}
        ctx.check("codon.stop-set", stops == set(t1.stop_codons) == set(t11.stop_codons), key="stops", got=sorted(stops))
        want = {
            TranslationTable.DEFAULT: {"ATG"},
            TranslationTable.STANDARD: set(t1.start_codons),
            TranslationTable.PROKARYOTE: set(t11.start_codons),
        }
        for tt, w in want.items():
            got = {c for c in allc if Codon(c).is_start_codon_in_specific_translation_table(tt)}
            ctx.check("codon.start-sets", got == w, key=("starts", tt.name), got=sorted(got), want=sorted(w))
        got = {c for c in allc if Codon(c).is_start_codon_in_specific_translation_table()}
        ctx.check("codon.start-sets", got == {"ATG"}, key=("starts", "default-arg"), got=sorted(got))
        got = {c for c in allc if Codon(c).is_canonical_start_codon}
        ctx.check("codon.start-sets", got == {"ATG"}, key=("starts", "canonical"), got=sorted(got))
        # classes partition the 64 codons
        classes = {}
        for c in fwd:
            classes.setdefault(frozenset(str(x) for x in Codon(c).synonymous_codons(include_self=True)), []).append(c)
        union = set().union(*classes) if classes else set()
        disjoint = sum(len(s) for s in classes) == 64
        ctx.check("codon.synonymous-partition", union == set(fwd) and disjoint and len(classes) == 21,
                  key="partition", nclasses=len(classes))
        for bad in ("AT", "ATGA", "AXG", "A-G", ""):
            r, e = ctx.call(Codon, bad)
            # a failed construction must not leave a poisoned singleton behind that later answers
            ctx.check("codon.invalid-refused", isinstance(e, ValueError), key="bad-codon", codon=bad, got=repr(r))
        return

    if k == "alphabet":
        alpha = Alphabet[case["alphabet"]]
        letters = alpha.value
        for L in letters:
            for ch in {L, L.lower()}:
                ctx.note(("alpha", alpha.name, ch), klass="alphabet-letter")
                want = comp[L.upper()]
                want = want.lower() if ch.islower() else want
                s = Sequence(ch, alpha)
                got = str(s.reverse_complement())
                ctx.check("alphabet.complement-iupac", got == want, key=("comp", alpha.name), letter=ch, got=got, want=want)
                back = str(Sequence(got, alpha).reverse_complement())
                same = back == ch or (back.upper(), ch.upper()) == ("T", "U") and back.islower() == ch.islower()
                ctx.check("alphabet.complement-involution", same, key=("invol", alpha.name), letter=ch, back=back)
        for a in letters:
            for b in letters:
                ctx.note(("alpha2", alpha.name, a, b), klass="alphabet-pair")
                got = str(Sequence(a + b.lower(), alpha).reverse_complement())
                want = comp[b].lower() + comp[a]
                ctx.check("alphabet.complement-iupac", got == want, key=("comp2", alpha.name), pair=a + b.lower(), got=got, want=want)
        return

    if k == "alphabet-long":
        # the same table, letter by letter, inside sequences of contig size (both cases of every letter at every length)
        alpha = Alphabet[case["alphabet"]]
        n = case["n"]
        motif = alpha.value + alpha.value.lower()
        rot = n % len(motif)
        data = ((motif[rot:] + motif[:rot]) * (n // len(motif) + 1))[:n]
        ctx.note(("alpha-long", alpha.name, n), klass="alphabet-long-sequence")
        want = "".join((comp[ch.upper()].lower() if ch.islower() else comp[ch]) for ch in reversed(data))
        rc, e = ctx.call(lambda: Sequence(data, alpha).reverse_complement())
        got = None if e is not None else str(rc)
        bad = None if got == want or got is None else next((j for j in range(min(len(got), n)) if got[j] != want[j]), min(len(got), n))
        ctx.check("alphabet.complement-iupac", got == want, key=("comp-long", alpha.name), n=n, exc=repr(e)[:150] if e else None, first_bad_offset=bad,
                  got=None if bad is None else got[bad:bad + 1], want=None if bad is None else want[bad:bad + 1])
        if got is not None:
            back = str(rc.reverse_complement())
            same = len(back) == n and all(x == y or (x.upper(), y.upper()) == ("T", "U") and x.islower() == y.islower() for x, y in zip(back, data))
            ctx.check("alphabet.complement-involution", same, key=("invol-long", alpha.name), n=n)
            # a foreign character somewhere inside is refused whatever the length
            foreign = data[: n // 2] + "!" + data[n // 2 + 1:]
            _, e2 = ctx.call(lambda: Sequence(foreign, alpha, validate_alphabet=False).reverse_complement())
            ctx.check("alphabet.non-nucleotide-refused", isinstance(e2, AlphabetError), key=("foreign-long", alpha.name), n=n, exc=repr(e2)[:120])
        return

    if k == "via-cds":
        # the same table read through a coding interval: a first codon followed by each of the 64 codons once (so the first codon occurs again
        # in the body); an alternative initiator of the named table reads M in the first position only
        from inscripta.biocantor.gene.cds import CDSInterval
        from inscripta.biocantor.location.location_impl import SingleInterval
        from inscripta.biocantor.parent.parent import SequenceType

        first, tt = case["first"], TranslationTable[case["table"]]
        ctx.note(("via-cds", first, tt.name), klass="codon-via-cds")
        starts = {"DEFAULT": {"ATG"}, "STANDARD": set(t1.start_codons), "PROKARYOTE": set(t11.start_codons)}[tt.name]
        allc = sorted(fwd)
        dna = first + "".join(allc)
        seq = Sequence(dna, Alphabet.NT_STRICT, type=SequenceType.CHROMOSOME)
        cds = CDSInterval.from_location(SingleInterval(0, len(dna), Strand.PLUS, parent=seq), cds_frames=[CDSFrame.ZERO])
        want = ("M" if first in starts else fwd[first]) + "".join(fwd[c] for c in allc)
        got, e = ctx.call(lambda: str(cds.translate(translation_table=tt)))
        bad = None if got == want or got is None else next((j for j in range(min(len(got), len(want))) if got[j] != want[j]), -1)
        ctx.check("codon.strict-translation", got == want, key=("via-cds", tt.name, "first-codon" if bad == 0 else "body"), first=first, table=tt.name,
                  exc=repr(e)[:150] if e else None, codon_index=bad, codon=None if bad in (None, -1) else ([first] + allc)[bad],
                  got=None if bad in (None, -1) else got[bad], want=None if bad in (None, -1) else want[bad])
        return

    if k == "codon-history":
        ctx.note(("codon-history",), klass="codon-history")
        junk = ["AT-", "-TG", "A-G", "---", "ATGA", "AT", "AXG", "A G", "ATG\n", "", "A.G", "ATGATG", "NN", "at-", "xyz", "123"]
        junk += [a + b + "-" for a in "ACGT" for b in "ACGT"] + ["!" + a + b for a in "ACGT" for b in "ACGT"]
        for j in junk:
            r, e = ctx.call(Codon, j)
            ctx.check("codon.invalid-refused", isinstance(e, ValueError), key="bad-codon-late", codon=j, got=repr(r))
        for c, held in sorted(_HELD.items()):
            now = Codon(c)
            ok = now is held and now == held and hash(now) == hash(held) and now in {held} and str(now) == c
            ctx.check("codon.identity-stable", ok, key="same-object-after-history", codon=c, same_object=now is held, equal=now == held)
            syn_now = now.synonymous_codons(include_self=True)
            want = {x for x, aa in fwd.items() if aa == fwd[c]}
            ctx.check("codon.synonymous-partition", {str(x) for x in syn_now} == want and all(x is _HELD.get(str(x), x) for x in syn_now)
                      and held.translate() == fwd[c] == now.translate(), key="syn-after-history", codon=c, got=[str(x) for x in syn_now])
            for tt, w in ((TranslationTable.DEFAULT, {"ATG"}), (TranslationTable.STANDARD, set(t1.start_codons)), (TranslationTable.PROKARYOTE, set(t11.start_codons))):
                g1, g2 = now.is_start_codon_in_specific_translation_table(tt), held.is_start_codon_in_specific_translation_table(tt)
                ctx.check("codon.start-sets", g1 == g2 == (c in w), key=("starts-after-history", tt.name), codon=c, now=g1, held=g2, want=c in w)
            ctx.check("codon.stop-set", now.is_stop_codon == held.is_stop_codon == (fwd[c] == "*"), key="stop-after-history", codon=c)
        return

    if k == "alphabet-refuse":
        alpha = Alphabet[case["alphabet"]]
        ctx.note(("alpha-refuse", alpha.name), klass="alphabet-refuse")
        ctx.check("alphabet.non-nucleotide-refused", alpha.is_nucleotide_alphabet() is False, key="isnt", alphabet=alpha.name)
        for text in ("A", "G", ""):
            r, e = ctx.call(lambda: Sequence(text, alpha).reverse_complement())
            ctx.check("alphabet.non-nucleotide-refused", isinstance(e, AlphabetError), key="refuse", alphabet=alpha.name,
                      text=text, got=repr(r), exc=repr(e))
        return

    if k == "frame-shift":
        f = CDSFrame[case["frame"]]
        n = case["n"]
        ctx.note(("fs", f.name, n), klass="frame-shift")
        got = f.shift(n)
        want = f if f is CDSFrame.NONE else CDSFrame((f.value + n) % 3)
        ctx.check("frame.shift-modular", got is want, key="shift", frame=f.name, n=n, got=got.name, want=want.name)
        return

    if k == "frame-add":
        f = CDSFrame[case["frame"]]
        a, b = case["a"], case["b"]
        ctx.note(("fa", f.name, a, b), klass="frame-add")
        ctx.check("frame.shift-additive", f.shift(a).shift(b) is f.shift(a + b) and f.shift(a).shift(-a) is f,
                  key="add", frame=f.name, a=a, b=b)
        return

    if k == "frame-phase":
        f = CDSFrame[case["frame"]]
        ctx.note(("fp", f.name), klass="frame-phase")
        want = {"NONE": "NONE", "ZERO": "ZERO", "ONE": "TWO", "TWO": "ONE"}[f.name]
        p = f.to_phase()
        ok = p is CDSPhase[want] and p.to_frame() is f and CDSPhase[f.name].to_frame().to_phase() is CDSPhase[f.name]
        ok = ok and CDSFrame.from_int(f.value) is f and CDSPhase.from_int(p.value) is p
        import numpy as np

        # integer codes taken out of a numpy array (signed 64 bit)
        ok_np = CDSFrame.from_int(np.int64(f.value)) is f and CDSPhase.from_int(np.int64(p.value)) is p
        ctx.check("frame.phase-roundtrip", ok_np, key="int64-code", frame=f.name)
        if f is not CDSFrame.NONE:
            ctx.check("frame.shift-modular", all(f.shift(np.int64(n)) is f.shift(n) for n in range(-30, 31)), key="int64-shift", frame=f.name)
        ok = ok and p.to_gff() == ("." if p is CDSPhase.NONE else str(p.value))
        if f is not CDSFrame.NONE:
            # phase = number of bases to skip to reach the next codon start = (3 - frame) % 3
            ok = ok and p.value == (3 - f.value) % 3
        ctx.check("frame.phase-roundtrip", ok, key="phase", frame=f.name, phase=p.name)
        for bad in (3, -2, 7):
            _, e = ctx.call(CDSFrame.from_int, bad)
            _, e2 = ctx.call(CDSPhase.from_int, bad)
            ctx.check("frame.phase-roundtrip", isinstance(e, ValueError) and isinstance(e2, ValueError), key="bad-int", value=bad)
        return

    if k == "strand1":
        a = Strand[case["a"]]
        ctx.note(("s1", a.name), klass="strand")
        want = {"PLUS": "MINUS", "MINUS": "PLUS", "UNSTRANDED": "UNSTRANDED"}[a.name]
        ctx.check("strand.reverse-involution", a.reverse() is Strand[want] and a.reverse().reverse() is a, key="rev", a=a.name)
        sym = {"PLUS": "+", "MINUS": "-", "UNSTRANDED": "."}[a.name]
        val = {"PLUS": 1, "MINUS": -1, "UNSTRANDED": 0}[a.name]
        ok = a.to_symbol() == sym and str(a) == sym and Strand.from_symbol(sym) is a and Strand.from_int(val) is a and a.value == val
        ctx.check("strand.symbol-int-roundtrip", ok, key="sym", a=a.name)
        import numpy as np

        ctx.check("strand.symbol-int-roundtrip", ctx.call(Strand.from_int, np.int64(val))[0] is a, key="int64-code", a=a.name)
        for bad in ("", "x", "++", "1"):
            _, e = ctx.call(Strand.from_symbol, bad)
            ctx.check("strand.symbol-int-roundtrip", isinstance(e, ValueError), key="bad-sym", value=bad)
        for bad in (2, -2, 3):
            _, e = ctx.call(Strand.from_int, bad)
            ctx.check("strand.symbol-int-roundtrip", isinstance(e, ValueError), key="bad-int", value=bad)
        directional = a in (Strand.PLUS, Strand.MINUS)
        _, e = ctx.call(a.assert_directional)
        from inscripta.biocantor.exc import InvalidStrandException

        ctx.check("strand.reverse-involution", (e is None) == directional and (directional or isinstance(e, InvalidStrandException)),
                  key="directional", a=a.name)
        return

    if k == "strand2":
        a, b = Strand[case["a"]], Strand[case["b"]]
        ctx.note(("s2", a.name, b.name), klass="strand-pair")
        r = a.relative_to(b)
        if Strand.UNSTRANDED in (a, b):
            want = Strand.UNSTRANDED
        else:
            want = Strand.PLUS if a is b else Strand.MINUS
        ok = r is want and b.relative_to(a) is r
        if b is Strand.PLUS:
            ok = ok and r is a
        # relative_to(x).relative_to(x) == identity on directional strands (group law of Z2)
        if Strand.UNSTRANDED not in (a, b):
            ok = ok and a.relative_to(b).relative_to(b) is a and a.reverse().relative_to(b) is r.reverse()
        ctx.check("strand.relative-to-laws", ok, key="rel", a=a.name, b=b.name, got=r.name)
        lt, gt, eq = a < b, a > b, a == b
        ctx.check("strand.total-order", (lt + gt + eq) == 1 and (a <= b) == (lt or eq) and (a >= b) == (gt or eq),
                  key="order2", a=a.name, b=b.name)
        return

    if k == "strand3":
        a, b, c = Strand[case["a"]], Strand[case["b"]], Strand[case["c"]]
        ctx.note(("s3", a.name, b.name, c.name), klass="strand-triple")
        ok = (not (a < b and b < c)) or a < c
        ctx.check("strand.total-order", ok, key="transitive", a=a.name, b=b.name, c=c.name)
        ctx.check("strand.relative-to-laws", a.relative_to(b).relative_to(c) is a.relative_to(b.relative_to(c)),
                  key="assoc", a=a.name, b=b.name, c=c.name)
        return

    if k == "biotype":
        from inscripta.biocantor.gene.biotype import Biotype

        names = list(Biotype.__members__)
        grp = {}
        for g in SYN_GROUPS:
            for n in g:
                grp[n] = frozenset(g)
        for n in names:
            ctx.note(("biotype", n), klass="biotype")
        ok = True
        bad = []
        for n1 in names:
            for n2 in names:
                same = Biotype[n1] is Biotype[n2]
                want = n1 == n2 or (n1 in grp and n2 in grp[n1])
                if same != want:
                    ok = False
                    bad.append((n1, n2))
            m = Biotype[n1]
            if not (Biotype.has_name(n1) and Biotype(m.value) is m and Biotype.has_value(m.value)):
                ok = False
                bad.append((n1,))
        for g in SYN_GROUPS:
            for n in g:
                if n not in Biotype.__members__:
                    ok = False
                    bad.append(("missing", n))
        ctx.check("biotype.synonyms", ok and len(set(Biotype)) == len(names) - sum(len(g) - 1 for g in SYN_GROUPS),
                  key="biotype", bad=bad[:10], members=len(set(Biotype)), names=len(names))
        return

    from bcv.core import HarnessError

    raise HarnessError(f"unknown case kind {k}")
