"""C18  Identifier / qualifier extraction is order-independent and priority-respecting.

Oracles (all written here, without BioCantor code):
  * ``ref_name_id``: "the first value of the highest-priority recognised key present decides", priority lists copied
    from the documented enum order (FeatureIntervalNameQualifiers: feature_name < standard_name < name < gene <
    gene_name < label < operon; FeatureIntervalIDQualifiers: feature_id < id), recognised = exact match of the
    lower-cased key; ``note`` (first word, punctuation stripped, for name and id) only when no recognised key exists.
    It is run next to every call of extract_feature_name_id, for every insertion order of the dictionary.
  * ``ref_types``: initial set + all values of keys containing ``_class`` / ``gbkey`` / ``_type`` (case-insensitive).
  * ``ref_merge``: key-wise set union, each value list sorted.
  * twin comparison: the same input in another order (dictionary order, value order, feature-record order of a
    GenBank record) must give the same answer.

Monitors
  extract.priority            (name, id) is an admissible answer of ref_name_id, for every ordering of the subset
  extract.order-independent   all orderings of one subset give one answer (twin comparison, no reference involved)
  extract.note-fallback       subsets containing ``note``: note decides iff no recognised key is present
  extract.lookalike-ignored   a look-alike key (names, gene_, xid, my_feature_id, ...) never supplies the answer
  extract.exact-match         hand-written edge look-alikes (blank-padded, regex-meta, trailing newline) are ignored
  types.complete / types.exact   extract_feature_types adds every value of every type-like key / nothing else
  merge.union-sorted / merge.order-independent      merge_qualifiers == ref_merge; shuffled/swapped inputs same result
  filtersort.order-independent / filtersort.values-sorted   filter_and_sort_qualifiers under shuffled inputs
  ivmerge.union / ivmerge.export-sorted   AbstractFeatureInterval._merge_qualifiers == key-wise union; to_dict() lists sorted
  gbk.permutation-invariant   parse_genbank(gbk_type=LOCUS_TAG) on a generated locus-tag-complete record: every
                              permutation of the feature records gives the same genes as the generated order
  gbk.one-gene-per-locus-tag  every parse (each permutation) yields exactly one gene per locus tag of the gene-like features

Latitude (the property text leaves these open, every admissible answer is accepted):
  * two keys of the SAME rank in one dictionary (``gene`` and ``GENE``): the priority list does not separate them, so
    the first value of either is admissible and extract.order-independent is not evaluated for such subsets;
  * values are non-empty strings, lists non-empty (an empty-string identifier / an empty value list is not covered
    by the property text); ``note`` is only ever spelled in lower case; keys are ASCII;
  * extract_feature_types: "type-like" is read as documented in the module (substring ``_class``/``gbkey``/``_type``);
  * filter_and_sort_qualifiers: WHICH keys are filtered is C11's business; here only: same answer for every input
    order, every reported list sorted and carrying exactly the input's distinct values;
  * GenBank: genes are matched by locus tag (order of the gene list is free), the order of the transcripts inside a
    gene and the order of qualifier values are free (compared as multisets / sets); ``feature_collections`` and
    collection-level qualifiers are not genes and are not compared (an informational counter records when they differ).

Findings on the unchanged tree (see classify):
  K30  rank 0 (feature_name / feature_id) is treated as "nothing found yet" -> a later, lower-priority key wins.
  K31  inside one locus-tag group the LOCUS_TAG parser resolves "one of several" choices by file order.
  K32  a key with a trailing newline matches the ``^key$`` regex and raises KeyError in the enum lookup.
"""
import itertools
import json
import string

ID = "C18"
LEVEL = "exploration"
EXHAUSTIVE = False
NAME_PRIORITY = ["feature_name", "standard_name", "name", "gene", "gene_name", "label", "operon"]
ID_PRIORITY = ["feature_id", "id"]
LOOKALIKES_CORE = ["names", "gene_", "xid"]
CORE = NAME_PRIORITY + ID_PRIORITY + LOOKALIKES_CORE + ["note"]
CASE_VARIANTS = ["Feature_Name", "STANDARD_NAME", "Name", "GENE", "Gene_Name", "LABEL", "Operon", "FEATURE_ID", "Id"]
LOOKALIKES_WIDE = ["names", "gene_", "xid", "_id", "feature", "gene_synonym", "my_feature_id", "Feature_Names", "IDS",
                   "locus_tag", "notes"]
WIDE = NAME_PRIORITY + ID_PRIORITY + CASE_VARIANTS + LOOKALIKES_WIDE + ["note"]
TYPE_LIKE = ["gbkey", "GBKEY", "feature_class", "regulatory_class", "Regulatory_Class", "mol_type", "ncRNA_class",
             "Feature_Type", "x_type_y", "my_gbkey2"]
NOT_TYPE = ["type", "class", "gb_key", "gene", "note", "Regulator_lass", "typ_e", "gbke"]
TYPE_POOL = TYPE_LIKE + NOT_TYPE
SCOPE = {
    "quick": {"core": 5, "wide": 4, "types": 4, "nmerge": 4000, "gbk": [(2, 32), (3, 64), (4, 48), (5, 24), (6, 4)], "gbk_ambig": [(3, 16), (4, 16), (5, 8)]},
    "thorough": {"core": 7, "wide": 5, "types": 5, "nmerge": 40000, "gbk": [(2, 100), (3, 300), (4, 500), (5, 400), (6, 100), (7, 16)],
                 "gbk_ambig": [(3, 32), (4, 32), (5, 32), (6, 16)]},
}
EXHAUSTIVE_SCOPE = {
    t: (f"every subset of <= {s['core']} of the 13 core keys (7 name + 2 id keys, names/gene_/xid, note) and every subset of <= "
        f"{s['wide']} of the 30 wide keys (core + 9 mixed/upper-case spellings + 8 more look-alikes), each in ALL insertion "
        f"orders; every subset of <= {s['types']} of 18 type-like / not-type-like keys in all orders; all permutations of the "
        f"feature records of every generated GenBank record (<= {s['gbk'][-1][0]} features)")
    for t, s in SCOPE.items()
}
RULE = (
    "exhaustive: all subsets (distinct values, some multi-valued) of the recognised name/id keys, their mixed-case "
    "spellings, look-alike keys and note, each subset in ALL insertion orders (sizes see exhaustive_scope); all subsets x "
    "orders of type-like keys; seeded random pairs of qualifier dictionaries for merge_qualifiers / "
    "filter_and_sort_qualifiers / AbstractFeatureInterval._merge_qualifiers with shuffled twins; seeded locus-tag-complete GenBank "
    "records (1-4 locus tags, gene/mRNA/CDS/tRNA/... shapes, overlapping spans, tags whose sort order differs from the "
    "coordinate order) written by Bio.SeqIO and parsed in every permutation of the feature records.  One signature per "
    "subset / dictionary pair / record shape (orderings are counted in counters.*); non-trivial = a subset with >= 2 keys "
    "of which >= 1 is recognised (or note), a type subset with >= 1 type-like key, a merge pair with a shared key, a record "
    "with >= 2 features."
)
FLOOR = {"quick": 12000, "thorough": 60000}
REQUIRED_MONITORS = ["merge.operands-unchanged", 
    "extract.priority", "extract.order-independent", "extract.note-fallback", "extract.lookalike-ignored", "extract.exact-match",
    "types.complete", "types.exact", "merge.union-sorted", "merge.order-independent", "filtersort.order-independent",
    "filtersort.values-sorted", "ivmerge.union", "ivmerge.export-sorted", "gbk.permutation-invariant", "gbk.one-gene-per-locus-tag",
]
REACH = [
    "inscripta.biocantor.io.features:extract_feature_name_id",
    "inscripta.biocantor.io.features:extract_feature_types",
    "inscripta.biocantor.io.features:merge_qualifiers",
    "inscripta.biocantor.io.gff3.parser:filter_and_sort_qualifiers",
    "inscripta.biocantor.gene.interval:AbstractFeatureInterval._merge_qualifiers",
    "inscripta.biocantor.io.genbank.parser:LocusTagGenBankParser._extract_seqfeatures_from_seqrecords",
    "inscripta.biocantor.io.genbank.parser:BaseGenBankParser._group_features_by_locus_tag",
    "inscripta.biocantor.io.genbank.parser:BaseGenBankParser._convert_seqfeature_to_gene",
    "inscripta.biocantor.io.genbank.parser:GeneFeature.to_gene_model",
]
REACH_REQUIRED = REACH
ASSUMPTIONS = [
    "oracle: ref_name_id / ref_types / ref_merge in bcv/props/c18.py, written from the enum docstrings of io/features/__init__.py",
    "GenBank text is produced by Bio.SeqIO.write from SeqRecord/SeqFeature objects; permutations re-order the written feature "
    "blocks (checked once per record against SeqIO.write of the re-ordered SeqRecord)",
]
WATCHDOG = {"quick": 1200, "thorough": 3 * 3600}


# ----------------------------------------------------------------------------------------------------------------
# reference models
# ----------------------------------------------------------------------------------------------------------------
def ref_pick(q, priority):
    """First values of the recognised keys of best rank (more than one only if the same key occurs in two spellings)."""
    best, vals = None, []
    for key, v in q.items():
        k = key.lower()
        if k in priority:
            r = priority.index(k)
            if best is None or r < best:
                best, vals = r, [v[0]]
            elif r == best:
                vals.append(v[0])
    return vals


def ref_name_id(q):
    """-> (admissible names, admissible ids, note_decides)"""
    names, ids = ref_pick(q, NAME_PRIORITY), ref_pick(q, ID_PRIORITY)
    if not names and not ids and "note" in q:
        words = q["note"][0].split()
        tok = words[0].strip(string.punctuation) if words else None
        return [tok], [tok], True
    return names or [None], ids or [None], False


def ref_types(initial, q):
    out = set(initial)
    for key, vals in q.items():
        k = key.lower()
        if "_class" in k or "gbkey" in k or "_type" in k:
            out.update(vals)
    return out


def ref_merge(a, b):
    return {k: sorted(set(a.get(k, [])) | set(b.get(k, []))) for k in list(a) + [k for k in b if k not in a]}


def buggy_pick(items, priority):
    """The K30 mechanism, re-derived for the classifier: rank 0 counts as 'nothing found yet'."""
    best, val = None, None
    for key, v in items:
        k = key.lower()
        if k in priority:
            r = priority.index(k)
            if not best or r < best:
                best, val = r, v[0]
    return val


def selftest():
    from bcv.core import HarnessError

    lit = [  # literal examples of tests/io/test_feature.py whose expectation does not contradict the enum docstring
        # ("the key-value pair found with the smallest value is the most important"); the three parametrisations that pin
        # "ID beats feature_id when feature_id is listed first" are K30 itself and are deliberately not used.
        ({"feature_name": ["abc"], "feature_id": ["123"]}, "abc", "123"),
        ({"feature_id": ["123", "abc"]}, None, "123"),
        ({"Gene": ["notcool"], "Standard_name": ["cool"]}, "cool", None),
        ({"gene": ["B"], "feature_name": ["A"]}, "A", None),
        ({"gene_synonym": ["123"]}, None, None),
        ({"my_feature_id": ["123"]}, None, None),
        ({"note": ["hello, world"], "x": ["y"]}, "hello", "hello"),
        ({"note": ["hello, world"], "operon": ["y"]}, "y", None),
    ]
    for q, n, i in lit:
        names, ids, _ = ref_name_id(q)
        if names != [n] or ids != [i]:
            raise HarnessError(f"ref_name_id disagrees with documented example {q}: {names} {ids}")
    if ref_types({"feature"}, {"feature_type": ["abc"], "type": ["x"], "Regulator_Class": ["cool"], "Regulator_lass": ["n"]}) != {"feature", "abc", "cool"}:
        raise HarnessError("ref_types disagrees with test_extract_feature_types")
    if ref_merge({"key1": ["a", "1"], "key2": ["c"]}, {"key1": ["b"]}) != {"key1": ["1", "a", "b"], "key2": ["c"]}:
        raise HarnessError("ref_merge disagrees with test_merge_qualifiers")
    if buggy_pick([("feature_id", ["1"]), ("ID", ["2"])], ID_PRIORITY) != "2" or buggy_pick([("ID", ["2"]), ("feature_id", ["1"])], ID_PRIORITY) != "1":
        raise HarnessError("buggy_pick does not model the documented probe")


# ----------------------------------------------------------------------------------------------------------------
# workload
# ----------------------------------------------------------------------------------------------------------------
def _values(universe, key, variant):
    i = universe.index(key)
    if key == "note":
        return [["Nword, rest of note", "second"], ["(Nword); tail"], ["  Nword\ttail"], ["Nword"]][variant % 4]
    if (i + variant) % 3 == 0:
        return [f"v{i}", f"v{i}b"]
    return [f"v{i}"]


EDGE_DICTS = [
    ("trailing-newline", [["name\n", ["A"]]]),
    ("trailing-newline", [["gene", ["B"]], ["id\n", ["A"]]]),
    ("trailing-newline", [["Feature_ID\n", ["A"]], ["note", ["N x"]]]),
    ("leading-newline", [["\nname", ["A"]], ["gene", ["B"]]]),
    ("blank-padded", [[" name", ["A"]], ["name ", ["B"]], ["gene", ["C"]]]),
    ("blank-padded", [["id ", ["A"]], [" id", ["B"]]]),
    ("inner-blank", [["feature name", ["A"]], ["feature-name", ["B"]], ["label", ["C"]]]),
    ("regex-meta", [["gene|id", ["A"]], ["^gene$", ["B"]], ["operon", ["C"]]]),
    ("regex-meta", [["name|", ["A"]], ["(name)", ["B"]], [".ame", ["C"]], ["i.", ["D"]]]),
    ("empty-key", [["", ["A"]], ["id", ["B"]]]),
    ("prefix-suffix", [["gene_name_", ["A"]], ["_gene_name", ["B"]], ["gene_nam", ["C"]], ["ene_name", ["D"]], ["gene_name", ["E"]]]),
    ("prefix-suffix", [["feature_idx", ["A"]], ["feature_i", ["B"]], ["feature_id", ["C"]], ["d", ["D"]], ["i", ["E"]]]),
    ("concatenated", [["namename", ["A"]], ["idid", ["B"]], ["nameid", ["C"]], ["standard_name", ["D"]]]),
]


def cases(spec, ctx):
    i, n = spec["i"], spec["n"]
    sc = SCOPE[ctx.tier]
    idx = 0
    for uname, universe, kmax in (("core", CORE, sc["core"]), ("wide", WIDE, sc["wide"])):
        for k in range(0, kmax + 1):
            for sub in itertools.combinations(universe, k):
                idx += 1
                if idx % n != i:
                    continue
                yield {"kind": "extract", "universe": uname, "items": [[key, _values(universe, key, idx // n)] for key in sub]}
    for j, (klass, items) in enumerate(EDGE_DICTS):
        if j % n == i:
            yield {"kind": "extract-edge", "class": klass, "items": items}
    idx = 0
    for k in range(0, sc["types"] + 1):
        for sub in itertools.combinations(TYPE_POOL, k):
            idx += 1
            if idx % n != i:
                continue
            items = []
            for key in sub:
                t = TYPE_POOL.index(key)
                items.append([key, [f"t{t}", f"t{t}b"] if (t + idx // n) % 3 == 0 else [f"t{t}"]])
            initial = [[], ["primary"], ["primary", f"t{TYPE_POOL.index(sub[0])}" if sub else "x"]][(idx // n) % 3]
            yield {"kind": "types", "items": items, "initial": initial}
    rng = ctx.rng
    for _ in range(sc["nmerge"] // n + 1):
        yield {"kind": "merge", "a": _rand_qualifiers(rng), "b": _rand_qualifiers(rng), "seed": rng.randrange(1 << 30)}
    # scale (own stream): qualifier dictionaries of 40..400 keys (real GenBank records carry many), a few recognised keys somewhere
    brng = __import__("random").Random(f"C18-big:{ctx.seed}:{i}")
    for _ in range(sc["nmerge"] // (40 * n) + 1):
        nfill = brng.choice([40, 120, 400])
        rec = brng.sample(CORE, brng.randint(0, 4))
        items = [[key, _values(CORE, key, brng.randrange(1000))] for key in rec]
        fill = [[f"x_{j}_{brng.choice(['gene', 'name', 'id', 'note', 'q'])}", [f"fv{j}"]] for j in range(nfill)]
        yield {"kind": "extract-big", "items": items, "fill": fill, "seed": brng.randrange(1 << 30)}
        big_a = [[f"k{j % (nfill // 2)}", [f"a{j}", f"s{j % 7}"]] for j in range(nfill // 2)]
        big_b = [[f"k{j}", [f"b{j}", f"s{j % 7}"]] for j in range(nfill // 3, nfill)]
        yield {"kind": "merge", "a": big_a, "b": big_b, "seed": brng.randrange(1 << 30)}
    for ambiguous, plan in ((False, sc["gbk"]), (True, sc["gbk_ambig"])):
        for nfeat, count in plan:
            for j in range(count):
                if j % n == i:
                    yield {"kind": "gbk", "features": gen_record(rng, nfeat, ambiguous), "ambiguous_shapes": ambiguous}


MERGE_KEYS = ["gene", "Gene", "product", "note", "db_xref", "locus_tag", "ID", "Name", "Parent", "gene_id", "k1", "k2", "EC_number"]
MERGE_VALS = ["a", "B", "b", "10", "9", "", "Z z", "a,b", "x=1", "é", "abc", "ab", "A"]


def _rand_qualifiers(rng):
    out = []
    for key in rng.sample(MERGE_KEYS, rng.choice([0, 1, 1, 2, 2, 3, 3, 4, 5])):
        out.append([key, [rng.choice(MERGE_VALS) for _ in range(rng.choice([0, 1, 1, 2, 3, 4]))]])
    return out


# ---- GenBank record generator ---------------------------------------------------------------------------------------
NC_TYPES = ["tRNA", "rRNA", "ncRNA", "misc_RNA", "tmRNA"]
CLEAN_SHAPES = [
    ("gene", "mRNA", "CDS"), ("gene", "CDS"), ("gene", "NC"), ("gene",), ("mRNA", "CDS"), ("CDS",), ("NC",), ("mRNA",),
    ("gene", "mRNA"), ("gene", "CDS", "CDS"), ("gene", "mRNA", "CDS", "CDS"), ("gene", "NC", "NC="), ("gene", "mRNA", "CDS", "exon"),
    ("gene", "CDS", "exon"),
]
AMBIGUOUS_SHAPES = [
    ("gene", "mRNA", "mRNA", "CDS"), ("gene", "mRNA", "mRNA", "CDS", "CDS"), ("gene", "mRNA", "CDS", "NC"), ("NC", "NC="),
    ("CDS", "CDS"), ("gene", "NC", "NC!"), ("mRNA", "mRNA"), ("mRNA", "mRNA", "CDS"),
]
DISTRACTORS = ["source", "misc_feature", "misc_feature-tagged", "regulatory"]
TAGS = ["LT1", "LT10", "LT2", "LT1_a", "A0", "b0", "LT"]
TWIN_TAGS = [["b1", "b01", "b001"], ["g0", "g00"], ["LT7", "lt7", "Lt7"], ["x9", "x09", "X9"], ["t1_2", "t01_2", "t1_02"]]
GENOME = 600


def _sub_blocks(rng, blocks):
    """A CDS inside the given exon blocks: the exon blocks clipped to a random window."""
    lo, hi = blocks[0][0], blocks[-1][1]
    for _ in range(20):
        a = rng.randint(lo, hi - 3)
        b = rng.randint(a + 3, hi)
        out = [[max(s, a), min(e, b)] for s, e in blocks if min(e, b) > max(s, a)]
        if out:
            return out
    return [list(b) for b in blocks]


def _exons(rng, s, e):
    n = rng.choice([1, 1, 2, 3])
    if e - s < 12 * n:
        n = 1
    cuts = sorted(rng.sample(range(s + 3, e - 2), 2 * (n - 1))) if n > 1 else []
    pts = [s] + cuts + [e]
    return [[pts[2 * k], pts[2 * k + 1]] for k in range(n)]


def gen_record(rng, nfeat, ambiguous):
    """-> list of [type, blocks, strand, qualifiers(list of [key, values])] in canonical (coordinate, gene->mRNA->CDS) order."""
    feats = []
    tags = rng.sample(TAGS, len(TAGS))
    if rng.random() < 0.35:
        # locus tags that are twins under a non-injective ordering (leading zeros, case, a trailing blank-like suffix): distinct tags
        # are distinct genes whatever ordering the grouping uses, and whatever the order of the records
        fam = rng.choice(TWIN_TAGS)
        tags = tags[:2] + rng.sample(fam, min(len(fam), rng.choice([2, 2, 3])))
    budget = nfeat
    anchor = None
    first = True
    while budget > 0 and tags:
        pool = AMBIGUOUS_SHAPES if (ambiguous and first) else CLEAN_SHAPES
        fits = [s for s in pool if len(s) <= budget]
        if not fits:
            if first and ambiguous:
                fits = [s for s in AMBIGUOUS_SHAPES if len(s) <= budget] or [("gene",)]
            else:
                break
        if rng.random() < 0.25 and not first and budget <= 2:
            break
        shape = rng.choice(fits)
        first = False
        tag = tags.pop()
        strand = rng.choice([1, -1])
        s = rng.randint(0, GENOME - 60) if anchor is None or rng.random() < 0.6 else anchor  # sometimes the same start as another locus
        anchor = s
        e = rng.randint(s + 30, min(GENOME, s + 200))
        exons = _exons(rng, s, e)
        sym = rng.choice([None, "abcD", "xyz1"])
        ncs = rng.choice(NC_TYPES)
        nth = {}
        single_child = sum(1 for t in shape if t not in ("gene", "exon")) <= 1
        for t in shape:
            k = nth[t] = nth.get(t, 0) + 1
            q = [["locus_tag", [tag]]]
            if sym:
                q.append(["gene", [sym]])
            if t == "gene":
                blocks = [[s, e]]
                if rng.random() < 0.3:
                    q.append(["gene_id", [f"gid_{tag}"]])
                if rng.random() < 0.3:
                    q.append(["db_xref", [f"GeneID:{rng.randint(1, 99)}", "X:1"]])
                if rng.random() < 0.2:
                    q.append(["note", [f"gene note {tag}"]])
            elif t == "mRNA":
                blocks = exons if k == 1 else _exons(rng, s, e)
                q.append(["product", [f"prod-{tag}-m{k}"]])
                if rng.random() < 0.5:
                    q.append(["transcript_id", [f"T{k}_{tag}"]])
            elif t == "CDS":
                base = exons if "mRNA" in shape else _exons(rng, s, e)
                blocks = _sub_blocks(rng, base)
                q.append(["product", [f"prod-{tag}-c{k}"]])
                q.append(["protein_id", [f"P{k}_{tag}"]])
                if rng.random() < 0.6:
                    q.append(["codon_start", [str(rng.choice([1, 1, 2, 3]))]])
                if rng.random() < 0.2:
                    q.append(["db_xref", ["X:1", f"UniProt:Q{rng.randint(1, 99)}"]])
            elif t == "exon":
                blocks = [list(exons[0])]
                q.append(["number", [str(k)]])
            else:  # NC, NC= (same type as the first), NC! (another type)
                typ = ncs if t in ("NC", "NC=") else NC_TYPES[(NC_TYPES.index(ncs) + 1) % len(NC_TYPES)]
                blocks = exons if nth.get("NCALL", 0) == 0 else _exons(rng, s, e)
                nth["NCALL"] = nth.get("NCALL", 0) + 1
                q.append(["product", [f"prod-{tag}-n{nth['NCALL']}"]])
                if typ == "ncRNA":
                    q.append(["ncRNA_class", ["lncRNA"]])
                t = typ
            if single_child and t not in ("gene", "exon") and rng.random() < 0.15:
                q.append(["pseudo", [""]])
            feats.append([t, [list(b) for b in blocks], strand, q])
            budget -= 1
    while budget > 0 and rng.random() < 0.7:
        d = rng.choice(DISTRACTORS)
        s = rng.randint(0, GENOME - 20)
        if d == "source":
            if any(f[0] == "source" for f in feats):
                continue
            feats.insert(0, ["source", [[0, GENOME]], 1, [["organism", ["Test organism"]], ["mol_type", ["genomic DNA"]]]])
        elif d == "misc_feature-tagged":
            used = [dict(f[3])["locus_tag"][0] for f in feats if "locus_tag" in dict(f[3])]
            feats.append(["misc_feature", [[s, s + 15]], rng.choice([1, -1]), [["locus_tag", [rng.choice(used + ["FT9"])]], ["note", ["tagged feature"]]]])
        elif d == "regulatory":
            feats.append(["regulatory", [[s, s + 10]], 1, [["regulatory_class", ["promoter"]], ["standard_name", [f"reg{s}"]], ["feature_name", [f"fn{s}"]]]])
        else:
            feats.append(["misc_feature", [[s, s + 12]], rng.choice([1, -1]), [["note", ["plain feature"]], ["gene", [f"mf{s}"]]]])
        budget -= 1
    return feats


# ----------------------------------------------------------------------------------------------------------------
# drivers
# ----------------------------------------------------------------------------------------------------------------
def _rank_class(key):
    k = key.lower()
    if k in NAME_PRIORITY:
        return "name"
    if k in ID_PRIORITY:
        return "id"
    return "note" if key == "note" else "lookalike"


def _str_enum(keys):
    from enum import Enum

    uniq = list(dict.fromkeys(keys))
    E = Enum("QualifierKey", [(f"K{j}", k) for j, k in enumerate(uniq)], type=str)
    return {k: E(k) for k in uniq}


def run_extract(case, ctx):
    from inscripta.biocantor.io.features import extract_feature_name_id

    items = [(k, list(v)) for k, v in case["items"]]
    keys = [k for k, _ in items]
    classes = [_rank_class(k) for k in keys]
    recognised = [k for k, c in zip(keys, classes) if c in ("name", "id")]
    ctx.note(("extract", tuple(keys), tuple(len(v) for _, v in items)),
             nontrivial=len(keys) >= 2 and (bool(recognised) or "note" in keys),
             klass=f"extract-{case['universe']}-size{len(keys)}")
    same_rank_twice = len({k.lower() for k in recognised}) < len(recognised)
    look_vals = {v[0] for (k, v), c in zip(items, classes) if c == "lookalike"}
    has_note = "note" in keys
    n_calls = 0
    answers = {}
    for perm in itertools.permutations(items):
        q = dict(perm)
        n_calls += 1
        try:
            got = extract_feature_name_id(q)
        except Exception as e:  # noqa: BLE001
            ctx.saw_exception(e)
            ctx.violation("extract.priority", key=("raised", type(e).__name__), q=[list(p) for p in perm], exc=repr(e)[:200])
            continue
        names, ids, note_decides = ref_name_id(q)
        ok = isinstance(got, tuple) and len(got) == 2 and got[0] in names and got[1] in ids
        if not ok:
            kinds = []
            for kind, g, adm, prio in (("name", got[0], names, NAME_PRIORITY), ("id", got[1], ids, ID_PRIORITY)):
                if g in adm:
                    continue
                present = [k.lower() for k, _ in perm if k.lower() in prio]
                best = min(present, key=prio.index) if present else None
                src = [k for k, v in perm if v[0] == g]
                kinds.append((kind, "best-key-has-rank-0" if best == prio[0] else ("best-key-has-rank>0" if best else "no-recognised-key"),
                              "none-returned" if g is None else (_rank_class(src[0]) + "-key-value" if src else "foreign-value")))
            ctx.violation("extract.priority", key=tuple(kinds), q=[list(p) for p in perm], got=list(got),
                          admissible_names=names, admissible_ids=ids)
        if has_note and not ((got[0] == names[0] and got[1] == ids[0]) if note_decides else ("Nword" not in got)):
            ctx.violation("extract.note-fallback", key=("note", "should-decide" if note_decides else "must-not-decide"),
                          q=[list(p) for p in perm], got=list(got))
        if look_vals and (got[0] in look_vals or got[1] in look_vals):
            ctx.violation("extract.lookalike-ignored", key=("lookalike-used",), q=[list(p) for p in perm], got=list(got))
        answers.setdefault(got, perm)
    # the same dictionaries keyed by members of a str-valued enumeration (they are strings: equal to, hashing like and matching like their
    # values - the GenBank / GFF3 constants of the library are such enumerations): the answer is that of the plain-string dictionary
    enum_keys = _str_enum(keys)
    for perm in (items, items[::-1]):
        plain = dict(perm)
        q = {enum_keys[k]: v for k, v in perm}
        want, e0 = ctx.call(extract_feature_name_id, plain)
        got, e1 = ctx.call(extract_feature_name_id, q)
        ctx.check("extract.priority", e0 is None and e1 is None and got == want, key=("str-enum-keys", "raised" if e1 else "differs-from-plain-keys"),
                  q=[list(p) for p in perm], got=list(got) if got else None, want=list(want) if want else None, exc=repr(e1)[:150] if e1 else None)
    ctx.seen("extract.priority", n_calls)
    if has_note:
        ctx.seen("extract.note-fallback", n_calls)
    if look_vals:
        ctx.seen("extract.lookalike-ignored", n_calls)
    ctx.bump("extract.orderings", n_calls)
    if not same_rank_twice:
        ok = len(answers) <= 1
        detail = {}
        if not ok:
            (g1, p1), (g2, p2) = list(answers.items())[:2]
            detail = {"q1": [list(p) for p in p1], "got1": list(g1), "q2": [list(p) for p in p2], "got2": list(g2), "n_answers": len(answers)}
        ctx.check("extract.order-independent", ok,
                  key=("answers-differ", "rank-0-key-present" if {"feature_name", "feature_id"} & {k.lower() for k in keys} else "no-rank-0-key"),
                  **detail)


def run_extract_big(case, ctx):
    """A few recognised keys hidden among hundreds of unrelated ones, in several insertion orders."""
    import random

    from inscripta.biocantor.io.features import extract_feature_name_id

    r = random.Random(case["seed"])
    items = [(k, list(v)) for k, v in case["items"]]
    fill = [(k, list(v)) for k, v in case["fill"]]
    ctx.note(("extract-big", tuple(sorted(k for k, _ in items)), len(fill)), nontrivial=bool(items), klass="extract-big")
    answers = {}
    recognised = [k for k, _ in items if _rank_class(k) in ("name", "id")]
    same_rank_twice = len({k.lower() for k in recognised}) < len(recognised)
    own = {k for k, _ in items}
    for t in range(6):
        allitems = items + fill
        r.shuffle(allitems)
        if t == 0:
            allitems = items + fill
        elif t == 1:
            allitems = fill + items[::-1]
        q = dict(allitems)
        got, exc = ctx.call(extract_feature_name_id, q)
        names, ids, note_decides = ref_name_id(q)
        ok = exc is None and isinstance(got, tuple) and len(got) == 2 and got[0] in names and got[1] in ids
        # witness: the recognised / note keys in their insertion order (the filler keys are never recognised)
        order = [[k, v] for k, v in allitems if k in own]
        ctx.check("extract.priority", ok, key=("big-dictionary", "raised" if exc else "value"), q=order, n_keys=len(q),
                  got=list(got) if exc is None else None, admissible_names=names, admissible_ids=ids, exc=repr(exc)[:200] if exc else None)
        if exc is None:
            answers.setdefault(got, order)
    if not same_rank_twice:
        detail = {}
        if len(answers) > 1:
            (g1, p1), (g2, p2) = list(answers.items())[:2]
            detail = {"q1": p1, "got1": list(g1), "q2": p2, "got2": list(g2), "n_answers": len(answers)}
        ctx.check("extract.order-independent", len(answers) <= 1, key=("big-dictionary", "answers-differ"), **detail)


def run_extract_edge(case, ctx):
    from inscripta.biocantor.io.features import extract_feature_name_id

    items = [(k, list(v)) for k, v in case["items"]]
    ctx.note(("edge", tuple(k for k, _ in items)), nontrivial=True, klass="extract-edge-" + case["class"])
    for perm in itertools.permutations(items):
        q = dict(perm)
        names, ids, _ = ref_name_id(q)
        got, exc = ctx.call(extract_feature_name_id, q)
        ok = exc is None and got[0] in names and got[1] in ids
        ctx.check("extract.exact-match", ok, key=(case["class"], type(exc).__name__ if exc else "wrong-answer"),
                  q=[list(p) for p in perm], got=list(got) if got else None, exc=repr(exc)[:200] if exc else None,
                  admissible_names=names, admissible_ids=ids)


def run_types(case, ctx):
    from inscripta.biocantor.io.features import extract_feature_types

    items = [(k, list(v)) for k, v in case["items"]]
    initial = list(case["initial"])
    keys = [k for k, _ in items]
    ctx.note(("types", tuple(keys), tuple(initial)), nontrivial=any(k in TYPE_LIKE for k in keys), klass=f"types-size{len(keys)}")
    n = 0
    for perm in itertools.permutations(items):
        q = dict(perm)
        want = ref_types(initial, q)
        got = set(initial)
        r = extract_feature_types(got, q)
        n += 1
        missing = want - got
        if missing:
            src = sorted({k for k, v in perm if set(v) & missing})
            ctx.violation("types.complete", key=("missing", tuple(src)), q=[list(p) for p in perm], initial=initial, got=sorted(got), want=sorted(want))
        if got - want or r is not None and set(r) != want:
            src = sorted({k for k, v in perm if set(v) & (got - want)})
            ctx.violation("types.exact", key=("extra", tuple(src)), q=[list(p) for p in perm], initial=initial, got=sorted(got), want=sorted(want))
    enum_keys = _str_enum(keys)
    got = set(initial)
    _, e1 = ctx.call(extract_feature_types, got, {enum_keys[k]: v for k, v in items})
    want = ref_types(initial, dict(items))
    ctx.check("types.complete", e1 is None and want <= got, key=("str-enum-keys",), q=[list(p) for p in items], got=sorted(got), want=sorted(want),
              exc=repr(e1)[:150] if e1 else None)
    ctx.check("types.exact", e1 is not None or got <= want, key=("str-enum-keys",), q=[list(p) for p in items], got=sorted(got), want=sorted(want))
    ctx.seen("types.complete", n)
    ctx.seen("types.exact", n)
    ctx.bump("types.orderings", n)


def _shuffled(rng, pairs):
    out = [[k, rng.sample(v, len(v))] for k, v in pairs]
    rng.shuffle(out)
    return out


def run_merge(case, ctx):
    import random

    from inscripta.biocantor.io.features import merge_qualifiers
    from inscripta.biocantor.io.gff3.parser import filter_and_sort_qualifiers

    rng = random.Random(case["seed"])
    a = [[k, list(v)] for k, v in case["a"]]
    b = [[k, list(v)] for k, v in case["b"]]
    da, db = dict((k, v) for k, v in a), dict((k, v) for k, v in b)
    shared = set(da) & set(db)
    ctx.note(("merge", tuple(sorted(da)), tuple(sorted(db)), tuple(len(v) for v in da.values()), tuple(len(v) for v in db.values())),
             nontrivial=bool(shared), klass="merge-shared-key" if shared else "merge-disjoint")
    want = ref_merge(da, db)
    import copy

    pa, pb = copy.deepcopy(da), copy.deepcopy(db)
    got, exc = ctx.call(merge_qualifiers, pa, pb)
    ctx.check("merge.operands-unchanged", pa == da and pb == db and all(pa[k] == da[k] for k in da) and all(pb[k] == db[k] for k in db),
              key=("merge", "first" if pa != da else "second"), a=a, b=b, a_after=pa, b_after=pb)
    if exc is None and isinstance(got, dict):
        # ... and the result does not share its value lists with an operand (a later edit of the result must not edit the input)
        alias = [k for k in got if any(got[k] is src.get(k) for src in (pa, pb))]
        ctx.check("merge.operands-unchanged", not alias, key=("merge", "result-aliases-operand-values"), a=a, b=b, keys=alias)
    okv = exc is None and isinstance(got, dict) and got == want and all(isinstance(v, list) for v in got.values())
    why = None
    if not okv and exc is None and isinstance(got, dict):
        why = "keys" if set(got) != set(want) else ("value-set" if any(set(got[k]) != set(want[k]) for k in want) else
                                                    ("duplicates" if any(len(got[k]) != len(want[k]) for k in want) else "value-order"))
    ctx.check("merge.union-sorted", okv, key=("merge", why or (type(exc).__name__ if exc else "type")), a=a, b=b, got=got, want=want,
              exc=repr(exc)[:200] if exc else None)
    for extra in (({}, da), (da, {}), (want, want)):
        g2, e2 = ctx.call(merge_qualifiers, dict(extra[0]), dict(extra[1]))
        ctx.check("merge.union-sorted", e2 is None and g2 == ref_merge(*extra), key=("merge-degenerate",), x=extra[0], y=extra[1], got=g2)
    for t in range(5):
        a2, b2 = _shuffled(rng, a), _shuffled(rng, b)
        if t % 2:
            a2, b2 = b2, a2
        g2, e2 = ctx.call(merge_qualifiers, dict((k, v) for k, v in a2), dict((k, v) for k, v in b2))
        ctx.check("merge.order-independent", e2 is None and exc is None and g2 == got and [g2[k] for k in sorted(g2)] == [got[k] for k in sorted(got)],
                  key=("merge-twin", "swapped" if t % 2 else "shuffled"), a=a, b=b, a2=a2, b2=b2, got=got, got2=g2)

    # filter_and_sort_qualifiers on the union of both inputs (keys of b that are also in a are dropped)
    src = a + [p for p in b if p[0] not in da]
    base, exc = ctx.call(filter_and_sort_qualifiers, dict((k, list(v)) for k, v in src))
    dsrc = dict((k, v) for k, v in src)
    oks = exc is None and (base is None or isinstance(base, dict) and all(
        k in dsrc and v == sorted(v) and set(v) == set(dsrc[k]) for k, v in base.items()))
    ctx.check("filtersort.values-sorted", oks, key=("filter-values",), q=src, got=base, exc=repr(exc)[:200] if exc else None)
    for t in range(4):
        s2 = _shuffled(rng, src)
        g2, e2 = ctx.call(filter_and_sort_qualifiers, dict((k, v) for k, v in s2))
        same = e2 is None and exc is None and g2 == base and (base is None or all(g2[k] == base[k] for k in base))
        ctx.check("filtersort.order-independent", same, key=("filter-twin",), q=src, q2=s2, got=base, got2=g2)

    # the interval-level merge (gene/interval.py): a fresh interval per call, exported lists looked at BEFORE merging
    from inscripta.biocantor.gene import FeatureInterval, TranscriptInterval
    from inscripta.biocantor.location.strand import Strand

    for t in range(2):
        a2, b2 = (a, b) if t == 0 else (_shuffled(rng, a), _shuffled(rng, b))
        qa = dict((k, list(v)) for k, v in a2)
        if t == 0:
            iv = FeatureInterval([2], [9], Strand.PLUS, qualifiers=qa)
        else:
            iv = TranscriptInterval([2], [9], Strand.MINUS, qualifiers=qa)
        exported = iv.to_dict()["qualifiers"]
        want_exp = {k: sorted(set(v)) for k, v in da.items()} or None
        ctx.check("ivmerge.export-sorted", exported == want_exp and (exported is None or all(exported[k] == want_exp[k] for k in exported)),
                  key=("export", type(iv).__name__), a=a2, got=exported, want=want_exp)
        m, e3 = ctx.call(iv._merge_qualifiers, dict((k, set(v)) for k, v in b2))
        want_m = {k: set(v) for k, v in want.items()}
        ctx.check("ivmerge.union", e3 is None and isinstance(m, dict) and {k: set(v) for k, v in m.items()} == want_m,
                  key=("ivmerge", type(iv).__name__), a=a2, b=b2, got=m, want=want_m, exc=repr(e3)[:200] if e3 else None)


    _export_with_identifier_keys(ctx, rng, a, b)


def _export_with_identifier_keys(ctx, rng, a, b):
    """export_qualifiers(parent) of an interval whose own qualifiers already use the keys its identifier attributes are exported under
    (legacy files carry transcript_id / feature_name qualifiers): the result is the key-wise union of own qualifiers, parent qualifiers and
    identifier attributes; the interval, its dictionary and the parent dictionary are what they were; asking again gives the same."""
    from inscripta.biocantor.gene import FeatureInterval, TranscriptInterval, Biotype
    from inscripta.biocantor.location.strand import Strand

    vals = sorted({x for _, v in a + b for x in v}) or ["v"]
    for cls in ("feature", "transcript"):
        own = {k: list(v) for k, v in a}
        if cls == "feature":
            idents = {"feature_name": "primary-name", "feature_id": "fid-1"}
            legacy = rng.sample(["feature_name", "feature_id"], rng.randint(1, 2))
        else:
            idents = {"transcript_id": "tx-1", "transcript_name": "sym-1", "transcript_biotype": "ncRNA", "protein_id": "prot-1"}
            legacy = rng.sample(sorted(idents), rng.randint(1, 3))
        for k in legacy:
            own[k] = rng.sample(vals, min(len(vals), rng.randint(1, 2))) + ([idents[k]] if rng.random() < 0.3 else [])
        if cls == "feature":
            iv = FeatureInterval([10, 30], [20, 40], Strand.PLUS, qualifiers={k: list(v) for k, v in own.items()}, feature_name=idents["feature_name"],
                                 feature_id=idents["feature_id"])
        else:
            iv = TranscriptInterval([0, 50], [30, 90], Strand.MINUS, qualifiers={k: list(v) for k, v in own.items()}, transcript_id=idents["transcript_id"],
                                    transcript_symbol=idents["transcript_name"], transcript_type=Biotype.ncRNA, protein_id=idents["protein_id"])
        before = iv.to_dict()
        q_before = {k: sorted(v) for k, v in iv.qualifiers.items()}
        parent = {k: set(v) for k, v in b}
        if rng.random() < 0.5 and legacy:
            parent.setdefault(legacy[0], set()).add("from-parent")
        p_before = {k: set(v) for k, v in parent.items()}
        want = {}
        for src in (own, parent, {k: [v] for k, v in idents.items()}):
            for k, v in src.items():
                want.setdefault(k, set()).update(v)
        for rnd in (1, 2):
            got, exc = ctx.call(iv.export_qualifiers, parent if parent else None)
            ok = exc is None and isinstance(got, dict) and {k: set(v) for k, v in got.items()} == want
            ctx.check("ivmerge.union", ok, key=("export-with-identifier-keys", cls, f"round{rnd}"), own=own, parent={k: sorted(v) for k, v in p_before.items()},
                      got={k: sorted(v) for k, v in got.items()} if isinstance(got, dict) else None, want={k: sorted(v) for k, v in want.items()},
                      exc=repr(exc)[:150] if exc else None)
            after = iv.to_dict()
            ctx.check("merge.operands-unchanged", after == before and {k: sorted(v) for k, v in iv.qualifiers.items()} == q_before and parent == p_before,
                      key=("export-with-identifier-keys", cls, "interval" if after != before else "parent-or-sets"), own=own,
                      qualifiers_before=before.get("qualifiers"), qualifiers_after=after.get("qualifiers"))
            if isinstance(got, dict):      # what the caller does with its copy is the caller's business
                for v in got.values():
                    if isinstance(v, set):
                        v.add("caller-added")
                ctx.check("merge.operands-unchanged", iv.to_dict() == before and parent == p_before, key=("export-with-identifier-keys", cls, "result-aliases-interval"),
                          own=own, qualifiers_after=iv.to_dict().get("qualifiers"))


# ---- GenBank leg ----------------------------------------------------------------------------------------------------
def _record(features):
    from Bio.Seq import Seq
    from Bio.SeqFeature import CompoundLocation, SeqFeature, SimpleLocation
    from Bio.SeqRecord import SeqRecord

    rec = SeqRecord(Seq("ACGTTGCAAG" * (GENOME // 10)), id="chrT", name="chrT", description="generated by bcv C18",
                    annotations={"molecule_type": "DNA"})
    for typ, blocks, strand, quals in features:
        parts = [SimpleLocation(int(s), int(e), strand=strand) for s, e in blocks]
        if strand == -1:
            parts = parts[::-1]
        loc = parts[0] if len(parts) == 1 else CompoundLocation(parts)
        rec.features.append(SeqFeature(loc, type=typ, qualifiers={k: list(v) for k, v in quals}))
    return rec


def _write(features):
    import io

    from Bio import SeqIO

    h = io.StringIO()
    SeqIO.write([_record(features)], h, "genbank")
    return h.getvalue()


def _split_blocks(text):
    """(header, [feature blocks], footer) of a one-record GenBank text."""
    lines = text.splitlines(keepends=True)
    fi = next(k for k, ln in enumerate(lines) if ln.startswith("FEATURES"))
    oi = next(k for k, ln in enumerate(lines) if ln.startswith("ORIGIN"))
    blocks = []
    for ln in lines[fi + 1:oi]:
        if ln[:5] == "     " and ln[5:6] not in (" ", ""):
            blocks.append([ln])
        else:
            blocks[-1].append(ln)
    return "".join(lines[:fi + 1]), ["".join(b) for b in blocks], "".join(lines[oi:])


def _norm_gene(g):
    def nq(q):
        return None if q is None else {str(k): sorted(str(x) for x in v) for k, v in q.items()}

    txs = []
    for t in g.get("transcripts") or []:
        t = {k: (str(v) if k.endswith("guid") and v is not None else v) for k, v in dict(t).items()}
        t["qualifiers"] = nq(t.get("qualifiers"))
        txs.append(t)
    txs.sort(key=lambda t: json.dumps(t, sort_keys=True, default=str))
    out = {k: (str(v) if k.endswith("guid") and v is not None else v) for k, v in dict(g).items() if k != "transcripts"}
    out["qualifiers"] = nq(g.get("qualifiers"))
    out["transcripts"] = txs
    return out


def _parse(text):
    """-> ({locus_tag: [normalised gene, ...]}, canonical text of the feature collections) or raises."""
    import io
    import warnings

    from inscripta.biocantor.io.genbank.parser import GenBankParserType, parse_genbank
    from inscripta.biocantor.io.models import AnnotationCollectionModel

    with warnings.catch_warnings():
        warnings.simplefilter("ignore")
        recs = list(parse_genbank(io.StringIO(text), gbk_type=GenBankParserType.LOCUS_TAG))
        d = AnnotationCollectionModel.Schema().dump(recs[0].annotation)
    genes = {}
    for g in d["genes"] or []:
        genes.setdefault(g.get("locus_tag"), []).append(_norm_gene(g))
    for v in genes.values():
        v.sort(key=lambda x: json.dumps(x, sort_keys=True, default=str))
    fc = json.dumps(sorted(json.dumps(x, sort_keys=True, default=str) for x in d.get("feature_collections") or []))
    return genes, fc, len(recs)


def _groups(features):
    """locus tag -> {'shape': sorted type tuple, 'n_gene', 'n_tx', 'n_cds', 'biotypes'} from the case alone."""
    out = {}
    for typ, _blocks, _strand, quals in features:
        q = dict((k, v) for k, v in quals)
        if typ not in ("gene", "mRNA", "CDS", "exon") + tuple(NC_TYPES) or "locus_tag" not in q:
            continue
        g = out.setdefault(q["locus_tag"][0], {"types": [], "n_gene": 0, "n_tx": 0, "n_cds": 0, "tx_bio": [], "cds_bio": []})
        g["types"].append(typ)
        bio = "pseudogene" if "pseudo" in q else ("protein_coding" if typ in ("mRNA", "CDS") else typ)
        if typ == "gene":
            g["n_gene"] += 1
        elif typ == "CDS":
            g["n_cds"] += 1
            g["cds_bio"].append(bio)
        elif typ != "exon":
            g["n_tx"] += 1
            g["tx_bio"].append(bio)
    for g in out.values():
        g["shape"] = tuple(sorted(g["types"]))
    return out


def file_order_mechanisms(g):
    """Which 'first in file order wins' choices the LOCUS_TAG parser makes inside one locus-tag group, and the gene
    fields each can change (K31).  Derived from parser.py: _group_features_by_locus_tag keeps transcript_features[0]
    whenever CDS features exist; _convert_seqfeature_to_gene infers a missing gene from transcript_features[0], else cds_features[0];
    to_gene_model takes Counter.most_common(1) of the child biotypes (ties -> first inserted)."""
    mech = {}
    if g["n_tx"] >= 2 and g["n_cds"] >= 1:
        mech["first-transcript-feature-pairs-with-cds"] = {"transcripts", "gene_type", "gene_guid"}
    if g["n_gene"] == 0 and (g["n_tx"] >= 2 or (g["n_tx"] == 0 and g["n_cds"] >= 2)):
        mech["gene-inferred-from-first-child"] = {"qualifiers", "gene_symbol", "gene_id", "gene_guid", "gene_type"}
    kept = g["tx_bio"] if (g["n_tx"] and not g["n_cds"]) else (g["cds_bio"] if not g["n_tx"] else [])
    counts = sorted((kept.count(b) for b in set(kept)), reverse=True)
    if len(counts) >= 2 and counts[0] == counts[1]:
        mech["biotype-tie-first-child-wins"] = {"gene_type", "gene_guid"}
    return mech


def run_gbk(case, ctx):
    from bcv.core import HarnessError

    feats = [[f[0], [list(b) for b in f[1]], int(f[2]), [[k, list(v)] for k, v in f[3]]] for f in case["features"]]
    groups = _groups(feats)
    shapes = tuple(sorted(g["shape"] for g in groups.values()))
    others = tuple(sorted(f[0] for f in feats if f[0] in ("source", "misc_feature", "regulatory")))
    ctx.note(("gbk", shapes, others, tuple(sorted(f[2] for f in feats))), nontrivial=len(feats) >= 2,
             klass=f"gbk-{len(feats)}feat" + ("-ambiguous" if any(file_order_mechanisms(g) for g in groups.values()) else ""))
    text = _write(feats)
    head, blocks, foot = _split_blocks(text)
    if len(blocks) != len(feats) or head + "".join(blocks) + foot != text:
        raise HarnessError("feature block splitter does not reproduce Bio.SeqIO's text")
    if head + "".join(reversed(blocks)) + foot != _write(feats[::-1]):
        raise HarnessError("re-ordered feature blocks differ from Bio.SeqIO.write of the re-ordered record")
    try:
        base, base_fc, nrec = _parse(text)
        base_exc = None
    except Exception as e:  # noqa: BLE001
        ctx.saw_exception(e)
        base, base_fc, base_exc = None, None, e
    n = 0
    expected_tags = {t for t, g in groups.items() if g["n_gene"] + g["n_tx"] + g["n_cds"] > 0}

    def grouped_ok(genes, perm):
        ok = set(genes) == expected_tags and all(len(v) == 1 for v in genes.values())
        ctx.check("gbk.one-gene-per-locus-tag", ok, key=("grouping", "tags-differ" if set(genes) != expected_tags else "several-genes-per-tag"),
                  perm=list(perm), got={str(t): len(v) for t, v in genes.items()}, expected=sorted(expected_tags))

    if base_exc is None and expected_tags:
        grouped_ok(base, range(len(feats)))
    for perm in itertools.permutations(range(len(feats))):
        n += 1
        if perm == tuple(range(len(feats))):
            continue
        t2 = head + "".join(blocks[j] for j in perm) + foot
        try:
            got, got_fc, _ = _parse(t2)
            exc = None
        except Exception as e:  # noqa: BLE001
            ctx.saw_exception(e)
            got, got_fc, exc = None, None, e
        if base_exc is not None or exc is not None:
            same = base_exc is not None and exc is not None and type(exc) is type(base_exc)
            if not same:
                ctx.violation("gbk.permutation-invariant", key=("raised", type(exc or base_exc).__name__, shapes), perm=list(perm),
                              base_exc=repr(base_exc)[:300] if base_exc else None, exc=repr(exc)[:300] if exc else None)
            continue
        if expected_tags:
            grouped_ok(got, perm)
        if got != base:
            differing = {}
            for tag in sorted(set(base) | set(got), key=str):
                gb, gp = base.get(tag), got.get(tag)
                if gb == gp:
                    continue
                if gb is None or gp is None or len(gb) != 1 or len(gp) != 1:
                    differing[str(tag)] = ["<gene-count>"]
                else:
                    differing[str(tag)] = sorted(k for k in set(gb[0]) | set(gp[0]) if gb[0].get(k) != gp[0].get(k))
            mechs, explained = set(), True
            for t, f in differing.items():
                m = file_order_mechanisms(groups[t]) if t in groups else {}
                mechs.update(m)
                explained = explained and bool(m) and set(f) <= set().union(*m.values())
            key = ("genes-differ", tuple(sorted(mechs)) or ("no-file-order-choice-in-group",),
                   "only-fields-such-a-choice-decides" if explained else "other-fields")
            ctx.violation("gbk.permutation-invariant", key=key, perm=list(perm), differing=differing,
                          order=[feats[j][0] + ":" + dict((k, v) for k, v in feats[j][3]).get("locus_tag", ["-"])[0] for j in perm],
                          base={t: base.get(t) for t in differing}, got={t: got.get(t) for t in differing})
        if got_fc != base_fc:
            ctx.bump("info.gbk.feature-collections-differ-under-permutation(not-a-gene,not-judged)")
    ctx.seen("gbk.permutation-invariant", n - 1)
    ctx.bump("gbk.permutations-parsed", n)
    if base_exc is None:
        ctx.bump("gbk.genes-in-base-parse", sum(len(v) for v in base.values()))


def run_case(case, ctx):
    if case["kind"] == "extract-big":
        return run_extract_big(case, ctx)
    k = case["kind"]
    if k == "extract":
        return run_extract(case, ctx)
    if k == "extract-edge":
        return run_extract_edge(case, ctx)
    if k == "types":
        return run_types(case, ctx)
    if k == "merge":
        return run_merge(case, ctx)
    if k == "gbk":
        return run_gbk(case, ctx)
    from bcv.core import HarnessError

    raise HarnessError(f"unknown case kind {k}")


# ----------------------------------------------------------------------------------------------------------------
# classifier of recorded findings (mechanistic: the mechanism is re-derived from the witness)
# ----------------------------------------------------------------------------------------------------------------
K1 = "K30-rank0-identifier-key-listed-first-loses"
K2 = "K31-locus-tag-group-resolved-in-file-order"
K3 = "K32-key-with-trailing-newline-raises-keyerror"


def _is_k1(items, got):
    """The answer is wrong, and it is exactly what 'rank 0 == nothing found yet' computes on this insertion order."""
    items = [(k, list(v)) for k, v in items]
    q = dict(items)
    names, ids, note = ref_name_id(q)
    if note or (got[0] in names and got[1] in ids):
        return False
    return got[0] == buggy_pick(items, NAME_PRIORITY) and got[1] == buggy_pick(items, ID_PRIORITY)


def classify(v):
    """K30: the wrong (name, id) equals what the selection computes when rank 0 counts as 'nothing found yet' (buggy_pick on
    the witness' own insertion order), for a twin violation both answers are either right or that.  K31: every differing gene
    belongs to a locus tag whose group (recomputed from the case) forces the parser to pick 'the first in file order', and only
    fields that this pick decides differ.  K32: KeyError naming the upper-cased key, the key is a recognised key + newline."""
    mon, d, case = v.get("monitor"), v.get("detail") or {}, v.get("case") or {}
    try:
        if mon == "extract.priority" and "got" in d:
            return K1 if _is_k1(d["q"], d["got"]) else None
        if mon == "extract.order-independent" and "got1" in d:
            # every observed answer is either correct or the K30 answer of its own insertion order, and >= 1 is K30
            verdicts = []
            for q, got in ((d["q1"], d["got1"]), (d["q2"], d["got2"])):
                names, ids, _ = ref_name_id(dict((k, v2) for k, v2 in q))
                verdicts.append("ok" if (got[0] in names and got[1] in ids) else ("k1" if _is_k1(q, got) else "other"))
            return K1 if "other" not in verdicts and "k1" in verdicts else None
        if mon == "extract.exact-match":
            q = d.get("q") or []
            nl = [k for k, _ in q if k.endswith("\n") and (k[:-1].lower() in NAME_PRIORITY + ID_PRIORITY)]
            if nl and d.get("exc", "") and d["exc"].startswith("KeyError(") and any(repr(k.upper()) in d["exc"] for k in nl):
                return K3
            return None
        if mon == "gbk.permutation-invariant" and "differing" in d:
            groups = _groups(case.get("features") or [])
            for tag, fields in d["differing"].items():
                if tag not in groups or "<gene-count>" in fields:
                    return None
                allowed = set()
                for f in file_order_mechanisms(groups[tag]).values():
                    allowed |= f
                if not allowed or not set(fields) <= allowed:
                    return None
            return K2 if d["differing"] else None
    except Exception:  # noqa: BLE001 - an unreadable witness is never a known finding
        return None
    return None
