"""C08  Serialised forms round-trip; identifiers are deterministic functions of content.

Oracle: no reference model is needed - the property is an equation between two observations of the real library.
Every comparison is made twice: with the library's own `==` (the property says "an equal object") and with an
independent deep snapshot taken through public accessors only (class, guid, to_dict(), chromosome and chunk-relative
blocks/strand/parent id, qualifiers, spliced / reference / CDS sequences or the exception type they raise, children
recursively), so that a defect inside `__eq__`/`to_dict` itself cannot hide a loss.

Monitors
  qualifiers.normalised   to_dict()["qualifiers"] of every object == {key: sorted({str(v) for v in values})} of the spec (None if empty)
  dict.roundtrip          X.from_dict(x.to_dict(), parent) == x and equal snapshot, for the AnnotationCollection (deep), every
                          GeneInterval / FeatureIntervalCollection / VariantIntervalCollection at top level, every TranscriptInterval /
                          FeatureInterval / VariantInterval of the case, and a stand-alone CDSInterval per coding transcript
  dict.guid-recomputed    the same with every *computed* guid removed from the dictionary: the library recomputes the same identifiers
                          (explicitly supplied guids stay in the dictionary and must be preserved)
  dict.input-unchanged    from_dict leaves the caller's dictionary as it was (deep comparison) and a second from_dict of the same dictionary
                          object gives an equal object again (with and without exported parent)
  dict.export-parent      AnnotationCollection.from_dict(ac.to_dict(export_parent=True)) (no parent argument) == ac incl. sequences
  model.roundtrip         M.Schema().load(json.loads(json.dumps(M.Schema().dump(m)))) == m for m = M.from_<object>(x) and the object rebuilt
                          from it == x (same guid, coordinates, qualifiers, sequence), for all seven model classes; for the collection
                          also with the parent exported into the model and no parent argument on the way back
  pickle.roundtrip        pickle.loads(pickle.dumps(ac, protocol)) for protocols 2 and HIGHEST: to_dict(export_parent=True), guid, snapshot
  (query-derived)         dict.roundtrip / dict.export-parent / pickle.roundtrip are repeated on ac.query_by_position(s, e, completely_within)
                          when the library answers the query: a collection on a library-made chunk parent with lifted children
  guid.insertion-order    the same spec built with qualifier dicts / value lists / feature-type lists in another order: all guid columns equal;
                          exhaustively: all 24 insertion orders of 4 qualifier keys x value lists forwards / backwards, all 24 orders of
                          4 feature types, on a transcript, its CDS, a feature, a gene and a variant
  guid.cross-process      child interpreters (sys.executable -B bcv/monitors/c08_child.py, PYTHONHASHSEED swept, orders reshuffled by the
                          child's seed) rebuild the same specs: every guid column (collection, genes, transcripts, cds, feature collections,
                          features, variant collections, variants) equals the parent's
  xproc.roundtrip         the dictionary exported by the child equals the parent's (canonical JSON); the model JSON dumped by the child,
                          loaded here, gives an object equal to the parent's own (export in one process, import in another)
  guid.sensitivity        one coordinate (+-1 on one block end), the strand or one frame changed: the guid of the object and of every
                          ancestor up to the collection differs from the unperturbed build
  guid.sensitivity-identifier   the same for the primary identifier fields the library digests (transcript_id, gene_id, feature_id,
                          feature_collection_id, variant_collection_id, collection name).  Asked for by the builder brief; the property text
                          itself names only coordinate, strand and frame.
  guid.locality           in the perturbed build every object that does not contain the changed field keeps its guid (content unchanged)

Latitude
  (i)   qualifier values come back as sorted lists of strings (documented by to_dict); nothing is claimed about the order of keys.
  (ii)  guids supplied explicitly are preserved, computed ones are compared; sensitivity runs on specs without explicit guids.
  (iii) pickling is claimed for AnnotationCollection only (the anchored __getstate__/__setstate__); the other interval classes do
        not define it (observed: pickle.dumps(GeneInterval) raises) and are not driven.
  (iv)  a spec whose *original* constructor call is refused is skipped and counted (`construct-refused`): which inputs a constructor
        accepts belongs to C19/C13/C07.  Collections whose bounds cannot be inferred get explicit bounds (K9 belongs to C19).
  (v)   nothing is compared between different parents (chunk vs chromosome twin = C07 / K8); every round trip is made on the parent the
        original was built on, or on the parent the dictionary itself exported.
  (vi)  Schema().dump() is applied to models only (the property's wording), not to AnnotationCollection objects.

K8 (computed guid of the container classes digests chunk_relative_location) cannot show up under latitude (v); counters `k8-info:*`
in the evidence record, without verdict, what an import of a chunk-built collection's dictionary on no parent does to the guids.
"""
import json
import os
import pickle
import random
import subprocess
import sys
import uuid

from bcv.gen import ser as S

ID = "C08"
LEVEL = "exploration"
EXHAUSTIVE = False
RULE = (
    "seeded random annotation collections (bcv.gen.ser): 0..4 genes (coding / non-coding, 1..3 isoforms, programmed frameshifts), 0..3 "
    "feature collections, 0..2 variant collections (SNV / MNV / insertion / padded and unpadded deletion), empty bounded collections; every "
    "serialised field populated or None at random; guids computed / explicit / mixed; qualifier values str / int / bool / float with "
    "look-alikes (1, '1', 1.0, True, 'True'), duplicates, unicode keys and values, and >= 3-member twin families that collide under "
    "non-injective sort keys (case / casefold, strip, NFC-NFD-NFKC, numeric value, prefixes) in qualifier value sets, feature types and "
    "sibling identifiers; parent none / chromosome with or without sequence / "
    "plus- and minus-strand chunk, four alphabets.  Cross-process: the same specs rebuilt in child interpreters under a PYTHONHASHSEED "
    "sweep (quick 8, thorough 64 values) with reshuffled insertion orders.  Sensitivity: every admissible single +-1 coordinate change, "
    "strand flip, frame change and identifier change of a spec, sampled.  A case signature is (kind, shape, parent mode, alphabet, guid "
    "mode, hostile text, per-gene isoform/coding/strand pattern, feature and variant counts, bounds given); non-trivial = the collection "
    "was constructed and has at least one child or explicit bounds."
)
SCOPE = {"quick": {"RT": 90, "SENS": 20, "PERT": 6, "BATCHES": 2, "BATCH": 24, "NSEEDS": 8, "PERM": 2},
         "thorough": {"RT": 900, "SENS": 200, "PERT": 12, "BATCHES": 4, "BATCH": 40, "NSEEDS": 64, "PERM": 10}}
FLOOR = {"quick": 800, "thorough": 6000}
REQUIRED_MONITORS = ["qualifiers.normalised", "dict.input-unchanged", "dict.roundtrip", "dict.guid-recomputed", "dict.export-parent", "model.roundtrip",
                     "pickle.roundtrip", "guid.insertion-order", "guid.cross-process", "xproc.roundtrip", "guid.sensitivity", "guid.locality"]
_G = "inscripta.biocantor.gene."
REACH = [
    "inscripta.biocantor.util.hashing:digest_object", "inscripta.biocantor.util.hashing:_order_set",
    "inscripta.biocantor.util.hashing:_order_dict_of_possible_sets", "inscripta.biocantor.util.hashing:_encode_object_for_digest",
    _G + "collections:AnnotationCollection.__getstate__", _G + "collections:AnnotationCollection.__setstate__",
    _G + "collections:AnnotationCollection.to_dict", _G + "collections:AnnotationCollection.from_dict",
    _G + "gene:GeneInterval.to_dict", _G + "gene:GeneInterval.from_dict",
    _G + "transcript:TranscriptInterval.to_dict", _G + "transcript:TranscriptInterval.from_dict",
    _G + "cds:CDSInterval.to_dict", _G + "cds:CDSInterval.from_dict",
    _G + "feature:FeatureInterval.to_dict", _G + "feature:FeatureInterval.from_dict",
    _G + "feature:FeatureIntervalCollection.to_dict", _G + "feature:FeatureIntervalCollection.from_dict",
    _G + "variants:VariantInterval.to_dict", _G + "variants:VariantInterval.from_dict",
    _G + "variants:VariantIntervalCollection.to_dict", _G + "variants:VariantIntervalCollection.from_dict",
    _G + "interval:AbstractInterval._import_qualifiers_from_list", _G + "interval:AbstractInterval._export_qualifiers_to_list",
    _G + "interval:AbstractInterval._parent_to_dict",
    "inscripta.biocantor.io.models:ParentModel.to_parent", "inscripta.biocantor.io.models:AnnotationCollectionModel.to_annotation_collection",
    "inscripta.biocantor.io.models:AnnotationCollectionModel.post_dump",
]
REACH_REQUIRED = REACH
ASSUMPTIONS = [
    "oracle: equality of two observations of the library itself (library __eq__ plus an independent snapshot through public accessors); "
    "json, pickle, hashlib, uuid of CPython are trusted",
    "child interpreters are started with sys.executable -B and an explicit PYTHONHASHSEED; the child reports the seed it saw and a "
    "hash-ordered probe set (signature_histogram: xproc-set-order-*) so that the sweep is visible in the evidence",
]
WATCHDOG = {"quick": 1500, "thorough": 3 * 3600}
CHILD = os.path.join(os.path.dirname(os.path.dirname(os.path.abspath(__file__))), "monitors", "c08_child.py")
HASHSEEDS = [0, 1, 2, 3, 7, 42, 12345, 4294967295] + list(range(8, 24)) + [random.Random("C08-hashseeds").randrange(1 << 32) for _ in range(48)]
HASHSEEDS = list(dict.fromkeys(HASHSEEDS))[:64]


def selftest():
    """The oracle is an equation between two observations of the library, so there is no model to replay documented examples
    against; what is self-tested is the harness' own plumbing: the shuffler must not change content, the structural diff must find
    the first difference, the perturbation generator must produce the documented single-field changes without touching its input."""
    import hashlib

    from bcv.core import HarnessError

    try:
        assert uuid.UUID(hashlib.md5("ab".encode("utf-8")).hexdigest()) == uuid.UUID("187ef443-6122-d1cc-2f40-dc2b92f0eba0")
        sh = S.Shuffler("x")
        q = {"a": [1, 2, 3, 4], "b": ["x"], "c": [True, "y"]}
        q2 = sh.quals(q)
        assert {k: sorted(map(str, v)) for k, v in q2.items()} == {k: sorted(map(str, v)) for k, v in q.items()}, "Shuffler changes content"
        assert S.Shuffler(None).quals(q) == q and list(S.Shuffler(None).quals(q)) == list(q)
        assert _diff({"a": [1, {"b": 2}]}, {"a": [1, {"b": 3}]})[0] == "a[1].b" and _diff({"a": 1}, {"a": 1}) is None
        assert _abstract("genes[3].transcripts[0].guid") == "genes[*].transcripts[*].guid"
        base = {"genes": [{"transcripts": [{"exons": [[3, 9]], "cds": None, "frames": None, "strand": "+", "transcript_id": "t"}], "gene_id": "g"}],
                "fcolls": [], "vcolls": [], "name": "n"}
        perts = S.perturbations(base, 20)
        assert ("coordinate", ["genes", 0, "transcripts", 0, "exons", 0, 1, 1], [("collection",), ("genes", 0), ("transcripts", 0, 0)]) in perts
        assert S.apply_perturbation(base, "coordinate", ["genes", 0, "transcripts", 0, "exons", 0, 1, 1])["genes"][0]["transcripts"][0]["exons"] == [[3, 10]]
        assert base["genes"][0]["transcripts"][0]["exons"] == [[3, 9]]
    except AssertionError as e:
        raise HarnessError(f"C08 harness self-test: {e!r}")


# ----------------------------------------------------------------------------------------------------------------
# workload
# ----------------------------------------------------------------------------------------------------------------
def shards(tier, seed):
    n = 16
    return [{"i": i, "n": n} for i in range(n)]


def cases(spec, ctx):
    i, n = spec["i"], spec["n"]
    sc = SCOPE[ctx.tier]
    rng = ctx.rng
    for k in range(sc["RT"]):
        c = S.rand_case(rng)
        c.update(kind="rt", shuffle=rng.randrange(1 << 30))
        yield c
    for k in range(sc["SENS"]):
        c = S.rand_case(rng, shape=rng.choice(["genes", "mixed", "mixed", "mixed-variants", "features"]))
        c.update(kind="sens", pseed=rng.randrange(1 << 30), npert=sc["PERT"])
        yield c
    # exhaustive small scope: every insertion order of 4 qualifier keys (24) x value lists forwards / backwards, every order of 4 feature types
    for k in range(sc["PERM"]):
        yield {"kind": "perm", "quals": {key: vals for key, vals in zip(rng.sample(S.ASCII_KEYS + S.UNI_KEYS, 4),
                                                                       [[rng.choice(S.LOOKALIKES) for _ in range(rng.randint(2, 4))] + (S.twin_values(rng) if j < 2 else []) for j in range(4)])},
               "types": rng.sample(rng.choice(S.TWIN_FAMILIES), 3) + [rng.choice(["enhancer", "site", "基因", "naïve"])],
               "strand": rng.choice("+-")}
    seeds = HASHSEEDS[:sc["NSEEDS"]]
    idx = 0
    for b in range(sc["BATCHES"]):
        for h in seeds:
            if idx % n == i:
                yield {"kind": "xproc", "batch_seed": f"C08:xproc:{ctx.seed}:{b}", "nspecs": sc["BATCH"], "hashseed": h}
            idx += 1


def _batch(case):
    rng = random.Random(case["batch_seed"])
    return [S.rand_case(rng) for _ in range(case["nspecs"])]


# ----------------------------------------------------------------------------------------------------------------
# snapshots
# ----------------------------------------------------------------------------------------------------------------
def _norm(x):
    if isinstance(x, uuid.UUID):
        return str(x)
    if isinstance(x, dict):
        return {str(k): _norm(v) for k, v in x.items()}
    if isinstance(x, (list, tuple)):
        return [_norm(v) for v in x]
    if isinstance(x, (set, frozenset)):
        return sorted((_norm(v) for v in x), key=repr)
    if x is None or isinstance(x, (bool, int, float, str)):
        return x
    return repr(x)


def _obs(fn):
    try:
        r = fn()
    except Exception as e:  # noqa: BLE001 - the exception type is the observation
        return ["exc", type(e).__name__]
    return ["ok", None if r is None else str(r)]


def _loc(fn):
    try:
        loc = fn()
        out = {"blocks": [[b.start, b.end] for b in loc.blocks], "strand": loc.strand.name}
    except Exception as e:  # noqa: BLE001
        return ["exc", type(e).__name__]
    try:
        out["parent_id"] = loc.parent_id
        out["parent_type"] = loc.parent_type
    except Exception as e:  # noqa: BLE001
        out["parent"] = ["exc", type(e).__name__]
    return out


def snap(x):
    """Independent deep observation of one interval / collection through public accessors."""
    cls = type(x).__name__
    s = {"cls": cls, "guid": str(x.guid), "dict": _obs_dict(x), "chrom": _loc(lambda: x.chromosome_location),
         "chunk": _loc(lambda: x.chunk_relative_location), "quals": {str(k): sorted(v) for k, v in (x.qualifiers or {}).items()},
         "ids": _norm(getattr(x, "identifiers", None)), "start": getattr(x, "start", None), "end": getattr(x, "end", None),
         "seqname": getattr(x, "sequence_name", None), "seqguid": _norm(getattr(x, "sequence_guid", None)), "has_seq": _obs(lambda: x.has_sequence)}
    if cls == "AnnotationCollection":
        s.update(name=x.name, id=x.id, path=x.sequence_path, within=x.completely_within, refseq=_obs(x.get_reference_sequence),
                 stored_seq=None if x.sequence is None else str(x.sequence),
                 genes=[snap(g) for g in x.genes], fcolls=[snap(f) for f in x.feature_collections], vcolls=[snap(v) for v in x.variant_collections])
    elif cls == "GeneInterval":
        s.update(refseq=_obs(x.get_reference_sequence), gene_type=_norm(x.gene_type and x.gene_type.name), transcripts=[snap(t) for t in x.transcripts],
                 primary=str(x.primary_transcript.guid) if x.primary_transcript is not None else None)
    elif cls == "FeatureIntervalCollection":
        s.update(refseq=_obs(x.get_reference_sequence), types=sorted(x.feature_types), features=[snap(f) for f in x.feature_intervals],
                 primary=str(x.primary_feature.guid) if x.primary_feature is not None else None)
    elif cls == "VariantIntervalCollection":
        s.update(refseq=_obs(x.get_reference_sequence), variants=[snap(v) for v in x.variant_intervals])
    elif cls == "TranscriptInterval":
        s.update(spliced=_obs(x.get_spliced_sequence), refseq=_obs(x.get_reference_sequence), ttype=x.transcript_type and x.transcript_type.name,
                 primary=x.is_primary_tx, tguid=_norm(x.transcript_guid), protein_id=x.protein_id, product=x.product,
                 cds=snap(x.cds) if x.cds is not None else None)
    elif cls == "FeatureInterval":
        s.update(spliced=_obs(x.get_spliced_sequence), refseq=_obs(x.get_reference_sequence), types=sorted(x.feature_types),
                 primary=x.is_primary_feature, fguid=_norm(x.feature_guid))
    elif cls == "CDSInterval":
        s.update(seq=_obs(x.extract_sequence), frames=[f.name for f in x.frames], protein_id=x.protein_id, product=x.product)
    elif cls == "VariantInterval":
        s.update(alt=str(x.sequence), vtype=x.variant_type, phase=x.phase_block, vguid=_norm(x.variant_guid), refseq=_obs(x.get_reference_sequence))
    return s


def _obs_dict(x):
    try:
        return _norm(x.to_dict())
    except Exception as e:  # noqa: BLE001
        return ["exc", type(e).__name__]


def _diff(a, b, path=""):
    """First difference between two JSON-like values: (path, a, b) or None."""
    if type(a) is not type(b):
        return (path, a, b)
    if isinstance(a, dict):
        for k in sorted(set(a) | set(b)):
            if k not in a or k not in b:
                return (f"{path}.{k}".lstrip("."), a.get(k, "<missing>"), b.get(k, "<missing>"))
            d = _diff(a[k], b[k], f"{path}.{k}".lstrip("."))
            if d:
                return d
        return None
    if isinstance(a, list):
        if len(a) != len(b):
            return (path + ".len", len(a), len(b))
        for k, (x, y) in enumerate(zip(a, b)):
            d = _diff(x, y, f"{path}[{k}]")
            if d:
                return d
        return None
    return None if a == b else (path, a, b)


def _abstract(path):
    import re

    return re.sub(r"\[\d+\]", "[*]", path)


def _short(x, n=300):
    s = json.dumps(x, default=repr, ensure_ascii=False)
    return s if len(s) <= n else s[:n] + "..."


# ----------------------------------------------------------------------------------------------------------------
# the common verdict: rebuilt object must be an equal object with an equal snapshot
# ----------------------------------------------------------------------------------------------------------------
def _same(ctx, monitor, route, orig, s0, make, **info):
    new, exc = ctx.call(make)
    cls = type(orig).__name__
    if exc is not None:
        ctx.check(monitor, False, key=(route, cls, "raised", type(exc).__name__), route=route, cls=cls, stage="raised", exc=repr(exc)[:400], **info)
        return None
    eq, exc = ctx.call(lambda: new == orig)
    s1 = snap(new)
    d = _diff(s0, s1)
    ctx.check(monitor, exc is None and eq is True, key=(route, cls, "library-eq"), route=route, cls=cls, stage="library-eq",
              exc=repr(exc)[:200] if exc else None, first_snapshot_difference=_short(d) if d else None, **info)
    ctx.check(monitor, d is None, key=(route, cls, "snapshot", _abstract(d[0]) if d else None), route=route, cls=cls, stage="snapshot",
              path=d[0] if d else None, want=_short(d[1]) if d else None, got=_short(d[2]) if d else None, **info)
    return new


def _signature(case):
    c = case["coll"]
    genes = tuple((len(g["transcripts"]), tuple(bool(t["cds"]) for t in g["transcripts"]), g["transcripts"][0]["strand"],
                   tuple(min(len(t["exons"]), 3) for t in g["transcripts"])) for g in c["genes"])
    return (case["kind"], case.get("shape"), case["parent"]["mode"], case["parent"]["alphabet"], case.get("guids"), case.get("hostile"), genes,
            tuple(len(fc["features"]) for fc in c["fcolls"]), tuple(len(vc["variants"]) for vc in c.get("vcolls", [])), c["start"] is not None,
            c["sequence_name"] is None)


def _want_quals(q):
    if not q:
        return None
    return {k: sorted({str(v) for v in vals}) for k, vals in q.items()}


def _model_cycle(M, m):
    """dump -> JSON text -> load."""
    text = json.dumps(M.Schema().dump(m))
    return M.Schema().load(json.loads(text))


# ----------------------------------------------------------------------------------------------------------------
def run_case(case, ctx):
    kind = case["kind"]
    if kind == "rt":
        return _run_rt(case, ctx)
    if kind == "sens":
        return _run_sens(case, ctx)
    if kind == "xproc":
        return _run_xproc(case, ctx)
    if kind == "perm":
        return _run_perm(case, ctx)
    from bcv.core import HarnessError

    raise HarnessError(f"unknown case kind {kind}")


def _build(case, ctx, shuffle=None):
    parent = S.build_parent(case["parent"])
    ac, exc = ctx.call(S.build_collection, case["coll"], parent, S.Shuffler(shuffle))
    return parent, ac, exc


def _run_rt(case, ctx):
    from inscripta.biocantor.gene.cds import CDSInterval
    from inscripta.biocantor.gene.collections import AnnotationCollection
    from inscripta.biocantor.gene.feature import FeatureInterval, FeatureIntervalCollection
    from inscripta.biocantor.gene.gene import GeneInterval
    from inscripta.biocantor.gene.transcript import TranscriptInterval
    from inscripta.biocantor.gene.variants import VariantInterval, VariantIntervalCollection
    from inscripta.biocantor.io import models as IM

    coll, pmode = case["coll"], case["parent"]["mode"]
    parent, ac, exc = _build(case, ctx)
    nchildren = len(coll["genes"]) + len(coll["fcolls"]) + len(coll.get("vcolls", []))
    if exc is not None:
        ctx.bump("construct-refused")
        ctx.bump("construct-refused:" + type(exc).__name__)
        ctx.note(_signature(case), nontrivial=False, klass="rt-construct-refused")
        return
    ctx.note(_signature(case), nontrivial=nchildren > 0 or coll["start"] is not None, klass=f"rt-{case['shape']}-{pmode}")
    info = {"parent_mode": pmode, "guids": case.get("guids")}
    s0 = snap(ac)

    # ---- qualifiers come back as sorted lists of strings ------------------------------------------------------
    d0 = ac.to_dict()

    def q(objd, spec, label):
        ctx.check("qualifiers.normalised", objd["qualifiers"] == _want_quals(spec.get("qualifiers")), key=label, cls=label,
                  got=_short(objd["qualifiers"]), want=_short(_want_quals(spec.get("qualifiers"))), spec=_short(spec.get("qualifiers")))

    q(d0, coll, "AnnotationCollection")
    for gd, g in zip(d0["genes"], coll["genes"]):
        q(gd, g, "GeneInterval")
        for td, t in zip(gd["transcripts"], g["transcripts"]):
            q(td, t, "TranscriptInterval")
    for fd, fc in zip(d0["feature_collections"], coll["fcolls"]):
        q(fd, fc, "FeatureIntervalCollection")
        for xd, f in zip(fd["feature_intervals"], fc["features"]):
            q(xd, f, "FeatureInterval")
    for vd, vc in zip(d0["variant_collections"], coll.get("vcolls", [])):
        q(vd, vc, "VariantIntervalCollection")
        for xd, v in zip(vd["variant_intervals"], sorted(vc["variants"], key=lambda v: v["start"])):
            q(xd, v, "VariantInterval")

    # ---- dictionary round trips -------------------------------------------------------------------------------
    _same(ctx, "dict.roundtrip", "from_dict", ac, s0, lambda: AnnotationCollection.from_dict(ac.to_dict(), parent), **info)
    for k, g in enumerate(ac.genes):
        _same(ctx, "dict.roundtrip", "from_dict", g, s0["genes"][k], lambda: GeneInterval.from_dict(g.to_dict(), parent), **info)
        for j, t in enumerate(g.transcripts):
            _same(ctx, "dict.roundtrip", "from_dict", t, s0["genes"][k]["transcripts"][j], lambda: TranscriptInterval.from_dict(t.to_dict(), parent), **info)
            if t.cds is not None:
                tspec = coll["genes"][k]["transcripts"][j]
                for explicit in (None, str(uuid.UUID(int=(case["shuffle"] << 7) + j + 1))):
                    cds, exc = ctx.call(S.build_cds, tspec, parent, explicit)
                    if exc is not None:
                        ctx.bump("standalone-cds-refused")
                        continue
                    _same(ctx, "dict.roundtrip", "from_dict", cds, snap(cds), lambda: CDSInterval.from_dict(cds.to_dict(), parent),
                          cds_guid="explicit" if explicit else "computed", **info)
    for k, fc in enumerate(ac.feature_collections):
        _same(ctx, "dict.roundtrip", "from_dict", fc, s0["fcolls"][k], lambda: FeatureIntervalCollection.from_dict(fc.to_dict(), parent), **info)
        for j, f in enumerate(fc.feature_intervals):
            _same(ctx, "dict.roundtrip", "from_dict", f, s0["fcolls"][k]["features"][j], lambda: FeatureInterval.from_dict(f.to_dict(), parent), **info)
    for k, vc in enumerate(ac.variant_collections):
        _same(ctx, "dict.roundtrip", "from_dict", vc, s0["vcolls"][k], lambda: VariantIntervalCollection.from_dict(vc.to_dict(), parent), **info)
        for j, v in enumerate(vc.variant_intervals):
            _same(ctx, "dict.roundtrip", "from_dict", v, s0["vcolls"][k]["variants"][j], lambda: VariantInterval.from_dict(v.to_dict(), parent), **info)

    # ---- computed guids are recomputed identically when they are not in the dictionary ---------------------
    stripped = _strip_computed(ac.to_dict(), coll)
    ac2, exc = ctx.call(AnnotationCollection.from_dict, stripped, parent)
    if exc is not None:
        ctx.check("dict.guid-recomputed", False, key=("raised", type(exc).__name__), exc=repr(exc)[:300], **info)
    else:
        d = _diff(S.guid_columns(ac), S.guid_columns(ac2))
        ctx.check("dict.guid-recomputed", d is None, key=("column", _abstract(d[0]) if d else None), path=d[0] if d else None,
                  want=d[1] if d else None, got=d[2] if d else None, **info)

    # ---- informational (no verdict): what K8 looks like from here.  A dictionary exported from a chunk-built collection carries the
    # computed child guids, so they survive an import on *another* parent; only the collection's own guid is always recomputed.
    if pmode.startswith("chunk") and nchildren:
        other, exc = ctx.call(AnnotationCollection.from_dict, ac.to_dict(), None)
        if exc is None:
            ctx.bump("k8-info:chunk-built-collections-reimported-without-parent")
            a, b = S.guid_columns(ac), S.guid_columns(other)
            ctx.bump("k8-info:collection-guid-differs" if a["collection"] != b["collection"] else "k8-info:collection-guid-equal")
            ctx.bump("k8-info:child-guids-all-preserved" if {k: v for k, v in a.items() if k not in ("collection", "cds")} ==
                     {k: v for k, v in b.items() if k not in ("collection", "cds")} else "k8-info:child-guids-changed")
        other, exc = ctx.call(AnnotationCollection.from_dict, _strip_computed(ac.to_dict(), coll), None)
        if exc is None and case.get("guids") == "computed":
            a, b = S.guid_columns(ac), S.guid_columns(other)
            ctx.bump("k8-info:stripped-dict:gene-guids-differ" if a["genes"] != b["genes"] else "k8-info:stripped-dict:gene-guids-equal")
            ctx.bump("k8-info:stripped-dict:transcript-feature-guids-differ" if (a["transcripts"], a["features"]) != (b["transcripts"], b["features"])
                     else "k8-info:stripped-dict:transcript-feature-guids-equal")

    # ---- the dictionary that carries its own parent -----------------------------------------------------------
    _same(ctx, "dict.export-parent", "from_dict(export_parent)", ac, s0, lambda: AnnotationCollection.from_dict(ac.to_dict(export_parent=True)), **info)
    # importing is a read-only use of the dictionary: the caller's dictionary is unchanged and a second import of the SAME dictionary
    # gives the same object again
    import copy

    for route, mk, par in (("export-parent", lambda: ac.to_dict(export_parent=True), None), ("plain", lambda: ac.to_dict(), parent)):
        d0, exc = ctx.call(mk)
        if exc is not None:
            continue
        keep = copy.deepcopy(d0)
        first, exc = ctx.call(AnnotationCollection.from_dict, d0, par)
        if exc is not None:
            continue
        ctx.check("dict.input-unchanged", d0 == keep, key=(route, "dictionary-mutated-by-from_dict"), route=route,
                  first_difference=_short(_diff(keep, d0)) if d0 != keep else None, **info)
        _same(ctx, "dict.input-unchanged", f"second-from_dict-of-the-same-dictionary({route})", ac, s0, lambda: AnnotationCollection.from_dict(d0, par), **info)

    # ---- data models through JSON -------------------------------------------------------------------------------
    def model(M, frm, to, obj, s_obj, with_parent=True, **kw):
        name = M.__name__
        m, exc = ctx.call(frm, obj, **kw)
        if exc is not None:
            ctx.check("model.roundtrip", False, key=(name, "to-model-raised", type(exc).__name__), route=name, cls=type(obj).__name__,
                      stage="to-model-raised", exc=repr(exc)[:400], **info)
            return
        m2, exc = ctx.call(_model_cycle, M, m)
        if exc is not None:
            ctx.check("model.roundtrip", False, key=(name, "json-cycle-raised", type(exc).__name__), route=name, cls=type(obj).__name__,
                      stage="json-cycle-raised", exc=repr(exc)[:400], **info)
            return
        ctx.check("model.roundtrip", m2 == m, key=(name, "model-eq"), route=name, cls=type(obj).__name__, stage="model-eq",
                  first_difference=_short(_diff(_norm(M.Schema().dump(m)), _norm(M.Schema().dump(m2)))), **info)
        _same(ctx, "model.roundtrip", name + ("" if with_parent else "(export_parent)"), obj, s_obj,
              (lambda: getattr(m2, to)(parent)) if with_parent else (lambda: getattr(m2, to)()), **info)

    model(IM.AnnotationCollectionModel, IM.AnnotationCollectionModel.from_annotation_collection, "to_annotation_collection", ac, s0)
    model(IM.AnnotationCollectionModel, IM.AnnotationCollectionModel.from_annotation_collection, "to_annotation_collection", ac, s0,
          with_parent=False, export_parent=True)
    for k, g in enumerate(ac.genes):
        model(IM.GeneIntervalModel, IM.GeneIntervalModel.from_gene_interval, "to_gene_interval", g, s0["genes"][k])
        t = g.transcripts[case["shuffle"] % len(g.transcripts)]
        model(IM.TranscriptIntervalModel, IM.TranscriptIntervalModel.from_transcript_interval, "to_transcript_interval", t,
              s0["genes"][k]["transcripts"][case["shuffle"] % len(g.transcripts)])
    for k, fc in enumerate(ac.feature_collections):
        model(IM.FeatureIntervalCollectionModel, IM.FeatureIntervalCollectionModel.from_feature_collection, "to_feature_collection", fc, s0["fcolls"][k])
        j = case["shuffle"] % len(fc.feature_intervals)
        model(IM.FeatureIntervalModel, IM.FeatureIntervalModel.from_feature_interval, "to_feature_interval", fc.feature_intervals[j],
              s0["fcolls"][k]["features"][j])
    for k, vc in enumerate(ac.variant_collections):
        model(IM.VariantIntervalCollectionModel, IM.VariantIntervalCollectionModel.from_variant_interval_collection,
              "to_variant_interval_collection", vc, s0["vcolls"][k])
        j = case["shuffle"] % len(vc.variant_intervals)
        model(IM.VariantIntervalModel, IM.VariantIntervalModel.from_variant_interval, "to_variant_interval", vc.variant_intervals[j],
              s0["vcolls"][k]["variants"][j])

    # ---- pickling -----------------------------------------------------------------------------------------------
    want_state, exc0 = ctx.call(lambda: _norm(ac.to_dict(export_parent=True)))
    for proto in (2, pickle.HIGHEST_PROTOCOL):
        new = _same(ctx, "pickle.roundtrip", f"pickle-protocol-{proto}", ac, s0, lambda: pickle.loads(pickle.dumps(ac, proto)), **info)
        if new is not None and exc0 is None:
            got, exc = ctx.call(lambda: _norm(new.to_dict(export_parent=True)))
            d = _diff(want_state, got) if exc is None else ("raised", None, repr(exc)[:200])
            ctx.check("pickle.roundtrip", d is None, key=("state", _abstract(d[0]) if d else None), route=f"pickle-protocol-{proto}",
                      cls="AnnotationCollection", stage="to_dict(export_parent=True)", path=d[0] if d else None, want=_short(d[1]) if d else None,
                      got=_short(d[2]) if d else None, **info)

    # ---- a collection the library built itself: the result of a range query (library-made chunk parent, lifted children) --------
    if nchildren and ac.start is not None and ac.end - ac.start >= 2:
        r2 = random.Random(case["shuffle"])
        qs = r2.randint(ac.start, ac.end - 2)
        qe = r2.randint(qs + 1, ac.end)
        sub, exc = ctx.call(ac.query_by_position, qs, qe, completely_within=r2.random() < 0.5)
        if exc is not None or sub is None:
            ctx.bump("query-refused")  # which queries are answered belongs to C09
        else:
            ctx.bump("query-derived-collections")
            ctx.bump("query-derived-nonempty" if len(sub) else "query-derived-empty")
            s_sub = snap(sub)
            qinfo = dict(info, query=[qs, qe])
            sub_parent = sub.chunk_relative_location.parent
            _same(ctx, "dict.roundtrip", "query-result/from_dict", sub, s_sub, lambda: AnnotationCollection.from_dict(sub.to_dict(), sub_parent), **qinfo)
            _same(ctx, "dict.export-parent", "query-result/from_dict(export_parent)", sub, s_sub,
                  lambda: AnnotationCollection.from_dict(sub.to_dict(export_parent=True)), **qinfo)
            _same(ctx, "pickle.roundtrip", "query-result/pickle", sub, s_sub, lambda: pickle.loads(pickle.dumps(sub)), **qinfo)

    # ---- insertion order ------------------------------------------------------------------------------------------
    _, ac_s, exc = _build(case, ctx, shuffle=case["shuffle"])
    if exc is not None:
        ctx.check("guid.insertion-order", False, key=("raised", type(exc).__name__), exc=repr(exc)[:300], **info)
    else:
        d = _diff(S.guid_columns(ac), S.guid_columns(ac_s))
        ctx.check("guid.insertion-order", d is None, key=("column", _abstract(d[0]) if d else None), path=d[0] if d else None,
                  want=d[1] if d else None, got=d[2] if d else None, **info)
        d = _diff(s0, snap(ac_s))
        ctx.check("guid.insertion-order", d is None, key=("snapshot", _abstract(d[0]) if d else None), path=d[0] if d else None,
                  want=_short(d[1]) if d else None, got=_short(d[2]) if d else None, **info)


def _run_perm(case, ctx):
    """Every insertion order of the qualifier keys / value lists / feature types of one transcript, feature, gene and variant."""
    import itertools

    quals, types = case["quals"], case["types"]
    ctx.note(("perm", tuple(sorted(quals)), tuple(sorted(types))), klass="perm-all-orders")
    t = {"exons": [[3, 9], [12, 20]], "strand": case["strand"], "cds": [[4, 9], [12, 16]], "frames": [0, 2], "transcript_id": "tx", "transcript_symbol": "sym",
         "transcript_type": "protein_coding", "protein_id": "p", "product": "prod", "is_primary_tx": None, "guid": None}
    f = {"blocks": [[2, 5], [8, 11]], "strand": case["strand"], "feature_name": "f", "feature_id": "fid", "guid": None}
    v = {"start": 4, "end": 5, "sequence": "G", "variant_type": "SNV", "guid": None}
    ref = None
    for order in itertools.permutations(list(quals)):
        for rev in (False, True):
            q = {k: (list(reversed(quals[k])) if rev else list(quals[k])) for k in order}
            tx, e1 = ctx.call(S.build_transcript, dict(t, qualifiers=q))
            ft, e2 = ctx.call(S.build_feature, dict(f, qualifiers=q, feature_types=types))
            gn, e3 = ctx.call(S.build_gene, {"transcripts": [dict(t, qualifiers=q)], "gene_id": "g", "qualifiers": q, "guid": None})
            va, e4 = ctx.call(S.build_variant, dict(v, qualifiers=q))
            if e1 or e2 or e3 or e4:
                ctx.check("guid.insertion-order", False, key=("perm", "raised"), exc=repr(e1 or e2 or e3 or e4)[:300], order=list(order))
                return
            got = [str(tx.guid), str(tx.cds.guid), str(ft.guid), str(gn.guid), str(va.guid), json.dumps(_norm(gn.to_dict()["qualifiers"]), sort_keys=True)]
            ref = ref or got
            ctx.check("guid.insertion-order", got == ref, key=("perm", "qualifier-order"), order=list(order), reversed_values=rev, want=ref, got=got)
    ref = None
    for order in itertools.permutations(types):
        ft, exc = ctx.call(S.build_feature, dict(f, qualifiers=quals, feature_types=list(order)))
        if exc is not None:
            ctx.check("guid.insertion-order", False, key=("perm", "raised"), exc=repr(exc)[:300], order=list(order))
            return
        got = [str(ft.guid), ft.to_dict()["feature_types"]]
        ref = ref or got
        ctx.check("guid.insertion-order", got == ref, key=("perm", "feature-type-order"), order=list(order), want=ref, got=got)


def _strip_computed(d, coll):
    """Remove from an exported dictionary exactly the guids the library computed itself (spec guid None)."""
    for gd, g in zip(d["genes"], coll["genes"]):
        if g.get("guid") is None:
            gd["gene_guid"] = None
        for td, t in zip(gd["transcripts"], g["transcripts"]):
            if t.get("guid") is None:
                td["transcript_interval_guid"] = None
    for fd, fc in zip(d["feature_collections"], coll["fcolls"]):
        if fc.get("guid") is None:
            fd["feature_collection_guid"] = None
        for xd, f in zip(fd["feature_intervals"], fc["features"]):
            if f.get("guid") is None:
                xd["feature_interval_guid"] = None
    for vd, vc in zip(d["variant_collections"], coll.get("vcolls", [])):
        if vc.get("guid") is None:
            vd["variant_collection_guid"] = None
        for xd, v in zip(vd["variant_intervals"], sorted(vc["variants"], key=lambda v: v["start"])):
            if v.get("guid") is None:
                for key in ("guid", "variant_interval_guid"):
                    if key in xd:
                        xd[key] = None
    return d


def _strip_all_guids(coll):
    import copy

    c = copy.deepcopy(coll)
    for g in c["genes"]:
        g["guid"] = None
        for t in g["transcripts"]:
            t["guid"] = None
    for fc in c["fcolls"]:
        fc["guid"] = None
        for f in fc["features"]:
            f["guid"] = None
    for vc in c.get("vcolls", []):
        vc["guid"] = None
        for v in vc["variants"]:
            v["guid"] = None
    return c


def _addresses(cols):
    out = [("collection",)]
    for name in ("genes", "fcolls", "vcolls"):
        out += [(name, k) for k in range(len(cols[name]))]
    for name in ("transcripts", "cds", "features", "variants"):
        out += [(name, k, j) for k, row in enumerate(cols[name]) for j in range(len(row))]
    return out


def _run_sens(case, ctx):
    case = dict(case)
    case["coll"] = _strip_all_guids(case["coll"])
    coll, pmode = case["coll"], case["parent"]["mode"]
    glen = len(case["parent"]["genome"])
    parent, ac, exc = _build(case, ctx)
    if exc is not None:
        ctx.bump("construct-refused")
        ctx.note(_signature(case), nontrivial=False, klass="sens-construct-refused")
        return
    ctx.note(_signature(case), klass=f"sens-{pmode}")
    base = S.guid_columns(ac)
    perts = S.perturbations(coll, glen)
    rng = random.Random(case["pseed"])
    by_kind = {}
    for p in perts:
        by_kind.setdefault(p[0], []).append(p)
    for kind, lst in sorted(by_kind.items()):
        rng.shuffle(lst)
        for kind, path, affected in lst[:case["npert"]]:
            pc = S.apply_perturbation(coll, kind, path)
            ac2, exc = ctx.call(S.build_collection, pc, parent)
            if exc is not None:
                ctx.bump("perturbed-construct-refused")
                continue
            cols = S.guid_columns(ac2)
            ctx.note(("sens", kind, path[0], path[-3] if len(path) > 3 else path[-1], pmode), nontrivial=False, klass=f"sens-perturb-{kind}")
            affected = [tuple(a) for a in affected]
            mon = "guid.sensitivity-identifier" if kind == "identifier" else "guid.sensitivity"
            field = [p for p in path if isinstance(p, str)]
            for addr in affected:
                ctx.check(mon, S.column(cols, addr) != S.column(base, addr), key=(kind, field[-1], addr[0]), kind=kind, path=path, column=list(addr),
                          guid=S.column(base, addr), parent_mode=pmode, perturbed_field=field)
            for addr in _addresses(base):
                if addr not in affected:
                    ctx.check("guid.locality", S.column(cols, addr) == S.column(base, addr), key=(kind, field[-1], addr[0]), kind=kind, path=path,
                              column=list(addr), want=S.column(base, addr), got=S.column(cols, addr), parent_mode=pmode)


# ----------------------------------------------------------------------------------------------------------------
# cross-process
# ----------------------------------------------------------------------------------------------------------------
def _spawn_child(specs, hashseed, shuffle):
    from bcv import env
    from bcv.core import HarnessError

    wd = env.workdir()
    path = os.path.join(wd, f"c08-specs-{os.getpid()}-{hashseed}.json")
    with open(path, "w") as fh:
        json.dump(specs, fh)
    e = dict(os.environ)
    e.update(PYTHONHASHSEED=str(hashseed), VERIF_REPO=env.REPO, PYTHONDONTWRITEBYTECODE="1", BIOCANTOR_VERIF="1")
    try:
        p = subprocess.run([sys.executable, "-B", CHILD, path, str(shuffle)], env=e, timeout=900, capture_output=True, text=True, cwd=wd)
    except subprocess.TimeoutExpired:
        raise HarnessError(f"C08 child interpreter (PYTHONHASHSEED={hashseed}) exceeded 900 s")
    finally:
        try:
            os.remove(path)
            os.rmdir(wd)  # only succeeds when nothing else lives in this process' scratch directory
        except OSError:
            pass
    if p.returncode != 0:
        raise HarnessError(f"C08 child interpreter (PYTHONHASHSEED={hashseed}) exit {p.returncode}: {p.stderr[-1500:]}")
    try:
        return json.loads(p.stdout)
    except ValueError:
        raise HarnessError(f"C08 child interpreter printed no JSON: {p.stdout[-300:]!r} {p.stderr[-600:]!r}")


def _run_xproc(case, ctx):
    from bcv.core import HarnessError
    from inscripta.biocantor.io.models import AnnotationCollectionModel

    specs = _batch(case)
    h = case["hashseed"]
    reply = _spawn_child(specs, h, shuffle=h)
    if str(reply.get("hashseed")) != str(h) or len(reply["records"]) != len(specs):
        raise HarnessError(f"C08 child did not run under the requested hash seed / spec list: {reply.get('hashseed')} vs {h}")
    ctx.bump("child-interpreters")
    for spec, rec in zip(specs, reply["records"]):
        one = dict(spec, kind="xproc-spec")
        parent, ac, exc = _build(spec, ctx)
        pmode = spec["parent"]["mode"]
        witness = {"hashseed": h, "spec": spec}
        if exc is not None or "error" in rec:
            same = exc is not None and "error" in rec and rec["error"].startswith(type(exc).__name__ + ":")
            ctx.check("guid.cross-process", same, key=("constructor-outcome-differs",), child=rec.get("error"), here=repr(exc)[:200] if exc else None, **witness)
            ctx.bump("xproc-construct-refused")
            continue
        ctx.note(_signature(one) + (h,), klass=f"xproc-{pmode}")
        ctx.note(("set-order", rec.get("set_order")), nontrivial=False, klass="xproc-set-order-" + str(rec.get("set_order")))
        base = S.guid_columns(ac)
        for col in sorted(base):
            d = _diff(base[col], rec["columns"][col], col)
            ctx.check("guid.cross-process", d is None, key=("column", col), column=col, path=d[0] if d else None, here=d[1] if d else None,
                      child=d[2] if d else None, parent_mode=pmode, **witness)
        mine = json.dumps(_norm(ac.to_dict()), sort_keys=True)
        d = None if mine == rec["to_dict"] else _diff(json.loads(mine), json.loads(rec["to_dict"]))
        ctx.check("xproc.roundtrip", d is None, key=("to_dict", _abstract(d[0]) if d else None), stage="to_dict", path=d[0] if d else None,
                  here=_short(d[1]) if d else None, child=_short(d[2]) if d else None, parent_mode=pmode, **witness)
        if "model_dump" in rec:
            s0 = snap(ac)
            _same(ctx, "xproc.roundtrip", "child-model-json", ac, s0,
                  lambda: AnnotationCollectionModel.Schema().load(json.loads(rec["model_dump"])).to_annotation_collection(), parent_mode=pmode, **witness)
        else:
            # the child could not build the model: a cross-process discrepancy only if this interpreter can
            _, exc = ctx.call(lambda: AnnotationCollectionModel.Schema().load(ac.to_dict(export_parent=True)))
            same = exc is not None and rec.get("model_error", "").startswith(type(exc).__name__ + ":")
            ctx.check("xproc.roundtrip", same, key=("model-outcome-differs",), stage="model", child=rec.get("model_error"),
                      here=repr(exc)[:200] if exc else None, parent_mode=pmode, **witness)
            ctx.bump("xproc-model-refused-in-both")


# ----------------------------------------------------------------------------------------------------------------
# known / proposed findings (mechanistic classifiers over the witness)
# ----------------------------------------------------------------------------------------------------------------
_PARENT_FIELDS = ("chrom.parent_id", "chrom.parent_type", "chunk.parent_id", "chunk.parent_type", "chunk.blocks", "has_seq", "refseq")


def _first_path(d):
    if d.get("path"):
        return d["path"]
    f = d.get("first_snapshot_difference")
    if f:
        try:
            return json.loads(f)[0]
        except Exception:  # noqa: BLE001 - a truncated witness simply does not classify
            return None
    return None


def classify(v):
    import re

    d = v.get("detail") or {}
    m = v["monitor"]
    path = _first_path(d) or ""
    if m == "dict.roundtrip" and d.get("cls") == "CDSInterval" and d.get("cds_guid") == "explicit":
        # K19: CDSInterval.to_dict() has no guid field (its key set is pinned by tests/minimal/gene/test_cds.py::test_dict_chunk_relative), so a
        # guid supplied to the constructor cannot survive from_dict(to_dict()): the guid itself is the only difference.
        if d.get("stage") == "snapshot" and path == "guid":
            return "K19-cds-explicit-guid-not-exported"
        return None
    if m in ("dict.roundtrip", "dict.export-parent", "pickle.roundtrip", "xproc.roundtrip") and d.get("parent_mode") not in (None, "none"):
        # proposed fix C08-variant-from-dict-drops-parent: VariantInterval.from_dict() does not forward parent_or_seq_chunk_parent, so the
        # rebuilt variant (alone or nested in a collection) has no parent: the first difference is a parent-derived observation of a variant.
        on_variant = d.get("cls") == "VariantInterval" or re.search(r"(^|\.)variants\[\d+\]\.", path) is not None
        tail = re.sub(r"^.*variants\[\d+\]\.", "", path)
        if on_variant and tail in _PARENT_FIELDS and d.get("stage") in ("snapshot", "library-eq"):
            return "F-variant-from-dict-drops-parent"
    if m == "model.roundtrip" and d.get("stage") == "to-model-raised" and d.get("cls") in ("VariantInterval", "VariantIntervalCollection", "AnnotationCollection"):
        # proposed fix C08-variant-to-dict-guid-key-not-in-model: VariantInterval.to_dict() calls its identifier "guid", the model field is
        # "variant_interval_guid"; marshmallow refuses the unknown key, and only that key, inside variant_intervals.
        exc = d.get("exc") or ""
        if exc.startswith("ValidationError") and "'guid': ['Unknown field.']" in exc and not re.search(r"'(?!guid')[a-z_]+': \['Unknown field", exc):
            return "F-variant-to-dict-guid-key-not-in-model"
    return None
