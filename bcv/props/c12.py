"""C12  GenBank export is faithful to an independent reader and to BioCantor's parsers.

Three legs, all on plain tuples (blocks = sorted [(start, end)], strand symbol, ints, strings):

 1. independent reader: collection_to_genbank([collection]) -> text -> Bio.SeqIO.read(text, "genbank")
      ind.sequence       record sequence == the collection's sequence
      ind.record-type    for every gene / transcript / CDS / feature collection / feature interval there is a record of
                         the documented type (gene; mRNA [eukaryotic flavour, coding] or the biotype feature [non-coding];
                         CDS; misc_feature; feat_interval)
      ind.location       ... whose location parts (as a sorted list of (int(start), int(end))) == the source blocks
      ind.strand         ... all of whose parts carry the source strand
      ind.identifiers    ... whose qualifiers carry the source identifiers (/locus_tag and /gene under their GenBank keys,
                         gene_id / transcript_id / protein_id / feature ids as the value of some qualifier)
      ind.census         number of records per feature type == what the flavour documents (prokaryotic: gene -> CDS pairs
                         without an mRNA; eukaryotic: gene -> mRNA -> CDS; non-coding: gene -> biotype feature)
      ind.translation    /translation written on request == Biopython's translation (table 11 / table 1; first codon -> M
                         when it is a start codon of the table the writer uses: table 11 starts for the prokaryotic flavour,
                         ATG for the other) of the model's in-frame CDS read from the record's own sequence
 2. library: parse_genbank(text, gbk_type=SORTED | LOCUS_TAG | HYBRID) + ParsedAnnotationRecord.to_annotation_collection()
      lib.parse          every mode answers (no exception), one collection, as many genes as were written, one transcript each
      lib.structure      exon blocks (eukaryotic flavour; non-coding genes in both) / CDS blocks (prokaryotic flavour) and
                         the CDS blocks are the source's; coding <-> non-coding preserved
      lib.strand         transcript strand == source strand
      lib.start-frame    frame of the 5'-most CDS block == source start frame
      lib.identifiers    gene symbol, locus tag, protein id == source
      lib.mode-agreement the three modes return identical gene models and feature collections (all fields incl. qualifiers)
 3. independent writer: the harness writes gene / mRNA / CDS / biotype records with Biopython (SeqRecord + SeqFeature,
    /locus_tag everywhere, /codon_start = start frame + 1, INSDC part order or ascending part order on the minus strand,
    features in file order or shuffled) and feeds the text to the three parser modes
      iw.parse, iw.structure, iw.strand, iw.start-frame, iw.identifiers, iw.mode-agreement   (as in leg 2)

Latitude (DESIGN C12-L)
  * prokaryotic flavour loses UTR exons by design: the transcript structure is compared with the CDS blocks there.
  * adjacent (0-bp gap) blocks are separate join parts; exon blocks are compared exactly, CDS blocks after merging 0-bp
    neighbours on both sides (the parser intersects the CDS with the transcript span, which fuses touching CDS blocks:
    same bases, same reading frame).
  * ONE transcript per gene: the grouping code attaches every CDS to transcript_features[0] and documents "extra
    transcripts will be skipped"; the property's quantifier does not include multi-isoform genes.
  * the SORTED parser is only asked about non-overlapping genes; overlapping genes go to LOCUS_TAG / HYBRID only, and the
    mode-agreement clause is evaluated for disjoint genes with unique locus tags (two modes for overlapping genes).
    Collections in which two genes share a locus tag are outside the agreement clause and outside LOCUS_TAG's documented
    domain (it raises GenBankLocusTagError): only SORTED and HYBRID are asked to recover them (disjoint genes).
  * order of join parts: compared as a sorted list.  (BioCantor writes minus-strand joins in descending order inside
    complement(); the blocks and the strand an independent reader sees are the source's, but Biopython's own
    feature.extract() concatenates them in the wrong order - counted under counters.minus_multiexon_biopython_extract_differs,
    never an alarm: the property speaks about blocks and strand.)  The translation oracle therefore orders the parts by
    the model (5'->3' by strand), not by the order in the file.
  * identifiers: a gene without locus tag is written with its symbol as /locus_tag, a gene without symbol with its gene_id
    as /gene (documented in gene_to_feature and pinned by test_locus_tag); the fallback value is what is expected back.
    Transcript symbols cannot be expressed (the /gene of a transcript is the gene symbol) and are not compared.
  * /translation: compared when the CDS letters are all ACGT (the writer documents that it cannot translate otherwise and
    omits the qualifier); with update_translations=False nothing is demanded.
  * only consistent frame vectors are generated (GenBank has one /codon_start per CDS); the start frame is compared, the
    remaining frames are the business of C05 (construct_frames_from_location).
  * force_strand=True and False are both run: on single-strand models the flag is a documented no-op, so the same
    records are demanded (this is what makes a wrong strand in Location.to_biopython observable: with force_strand=True
    the writer's strand= kwarg repairs it, with False the children are skipped as "strand mismatch").
  * environment: the writer relies on SeqFeature(strand=) being applied to the location (Biopython <= 1.79) for the
    gene-level records (GeneInterval locations are always PLUS).  bcv.compat restores that since commit 8be276e; the check
    still probes the behaviour at run time and, should the kwarg not be honoured, accepts +1 or the source strand on
    gene / misc_feature records only (counted under counters.gene_level_strand_relaxed_compat_shim; transcript, CDS and
    feat_interval strands are strict either way).
"""
import io
import random
import warnings

from bcv.gen import genes as GG
from bcv.models import framemodel as FM
from bcv.models import posmodel as PM
from bcv.models import seqmodel as SM

ID = "C12"
LEVEL = "exploration"
EXHAUSTIVE = False
RULE = (
    "seeded random annotation collections of 1..6 single-transcript genes (coding with start frame 0/1/2 and a CDS that "
    "is the whole transcript / has 5' and/or 3' UTR / lies in one exon; non-coding tRNA, rRNA, ncRNA, misc_RNA, tmRNA), "
    "1..5 exons with 0-bp gaps, both strands, 0..2 single-strand feature collections, chromosome 90..600 bp, identifiers "
    "present / partially absent / duplicated symbols; layouts: disjoint position-sorted genes (all three modes + agreement), "
    "overlapping genes (LOCUS_TAG + HYBRID), duplicated locus tags (SORTED + HYBRID); a grid of single genes over strand x "
    "start frame x exon count x CDS mode; each collection x {prokaryotic, eukaryotic} x update_translations x force_strand (a no-op on single-strand models) x 3 parser modes; "
    "independent-writer records (Biopython) with /codon_start 1..3, INSDC or ascending part order, shuffled features. "
    "Signature = (leg, flavour, update_translations, layout, per gene: coding/biotype, strand, #exons, #CDS blocks, "
    "0-gap pattern, start frame, UTR class, identifier mode; #feature collections); non-trivial = some gene is multi-exon, "
    "on the minus strand or has a non-zero start frame, or there are >= 2 genes."
)
SCOPE = {"quick": {"NE": 6400, "NI": 2800, "GRID": 1}, "thorough": {"NE": 60000, "NI": 25000, "GRID": 10}}
FLOOR = {"quick": 3000, "thorough": 25000}
REQUIRED_MONITORS = ["gbk.second-generation", "gbk.repeatable", "gbk.operand-unchanged", "ind.sequence", "ind.record-type", "ind.location", "ind.strand", "ind.identifiers", "ind.census", "ind.translation",
                     "lib.parse", "lib.structure", "lib.strand", "lib.start-frame", "lib.identifiers", "lib.mode-agreement",
                     "iw.parse", "iw.structure", "iw.strand", "iw.start-frame", "iw.identifiers", "iw.mode-agreement"]
_W = "inscripta.biocantor.io.genbank.writer:"
_P = "inscripta.biocantor.io.genbank.parser:"
REACH = [_W + "collection_to_genbank", _W + "gene_to_feature", _W + "transcripts_to_feature", _W + "add_cds_feature",
         _W + "feature_intervals_to_features",
         "inscripta.biocantor.location.location_impl:SingleInterval.to_biopython",
         "inscripta.biocantor.location.location_impl:CompoundInterval.to_biopython",
         _P + "BaseGenBankParser._sort_features_by_position_and_type", _P + "BaseGenBankParser._group_sorted_features_by_type",
         _P + "BaseGenBankParser._group_features_by_locus_tag", _P + "HybridGenBankParser._identify_locus_tag_collisions",
         _P + "GeneFeature.to_gene_model", _P + "TranscriptFeature.find_exon_interval", _P + "TranscriptFeature.find_cds_interval",
         _P + "TranscriptFeature.construct_frames", _P + "FeatureIntervalGenBankCollection.to_feature_model",
         "inscripta.biocantor.io.parser:ParsedAnnotationRecord.to_annotation_collection"]
REACH_REQUIRED = REACH
ASSUMPTIONS = [
    "independent reader and independent writer: Bio.SeqIO 'genbank' (Biopython 1.88) - trusted",
    "oracle: reading-frame walker bcv/models/framemodel.py + Bio.Seq.translate (tables 1 and 11); start rule of the writer's table "
    "(TranslationTable.PROKARYOTE = table 11 start codons, TranslationTable.DEFAULT = ATG) taken from Bio.Data.CodonTable",
    "compat shim SeqFeature(strand=): probed at run time; when the kwarg is not applied to the location, gene/misc_feature records "
    "are accepted with strand +1 (see module docstring)",
    "one transcript per gene; consistent frame vectors only; SORTED parser asked about non-overlapping genes only",
]
WATCHDOG = {"quick": 1500, "thorough": 4 * 3600}

NONCODING = ["tRNA", "rRNA", "ncRNA", "misc_RNA", "tmRNA"]
MODES = ["SORTED", "LOCUS_TAG", "HYBRID"]
FLAVOURS = ["PROKARYOTIC", "EUKARYOTIC"]


# ----------------------------------------------------------------------------------------------------------------
# oracle self-test
# ----------------------------------------------------------------------------------------------------------------
def setup(ctx):
    from bcv import core

    core.codon_storm(ctx)


def selftest():
    from bcv.core import HarnessError

    try:
        FM.selftest()
        PM.selftest()
        SM.selftest()
        assert _merge_adjacent([(1, 3), (3, 5), (7, 9)]) == [(1, 5), (7, 9)]
        # tests/io/genbank/test_genbank_parser.py (negative_strand_frame / codon_start docstring): /codon_start=2 removes the
        # first base -> start frame 1
        assert _translate_oracle("ATGAAATAG", "PROKARYOTIC") == "MK*" and _translate_oracle("TTGAAATAG", "PROKARYOTIC") == "MK*"
        assert _translate_oracle("TTGAAATAG", "EUKARYOTIC") == "LK*" and _translate_oracle("CTGAAATA", "EUKARYOTIC") == "LK"
        assert _translate_oracle("", "EUKARYOTIC") == ""
        # the independent reader reads what the independent writer wrote (both Biopython): parts, strand, codon_start
        g = {"exons": [(2, 6), (8, 12)], "cds": [(3, 6), (8, 11)], "strand": "-", "start_frame": 1, "coding": True, "biotype": None,
             "eff_symbol": "s", "eff_locus": "L1", "transcript_id": "t", "protein_id": "p", "span": (2, 12)}
        for order in ("insdc", "ascending"):
            txt = _iw_text([g], "ACGTACGTACGTACGT", "EUKARYOTIC", {"minus_order": order, "codon_start_explicit": True, "child_gene": True,
                                                                  "shuffle": False, "source": True, "seed": 1})
            seq, feats = _read_records(txt)
            assert seq == "ACGTACGTACGTACGT"
            cds = [f for f in feats if f["type"] == "CDS"][0]
            assert sorted(cds["parts"]) == [(3, 6), (8, 11)] and cds["strands"] == [-1] and cds["quals"]["codon_start"] == ["2"], cds
            assert ("complement(join(4..6,9..11))" in txt) == (order == "insdc"), txt
    except AssertionError as e:
        raise HarnessError(f"C12 oracle self-test: {e!r}")


# ----------------------------------------------------------------------------------------------------------------
# workload
# ----------------------------------------------------------------------------------------------------------------
def shards(tier, seed):
    return [{"i": i, "n": 16} for i in range(16)]


def _tx(rng, lo, hi, ident, strand, coding, off, nex=None, cds_mode=None, quals=True):
    nex = nex or rng.choice([1, 1, 2, 2, 3, 4, 5])
    exons = GG.rand_blocks(rng, lo, hi, nex, min_len=1, max_len=rng.choice([4, 10, 25, 60]), adjacent_prob=0.2)
    t = {"exons": exons, "strand": strand, "cds": None, "frames": None, "transcript_id": "tx_" + ident,
         "transcript_symbol": rng.choice(["tsym_" + ident, None]), "transcript_type": None, "protein_id": None, "product": None,
         "is_primary_tx": None, "qualifiers": GG.rand_qualifiers(rng, 2) if quals and rng.random() < 0.4 else {}, "guid": None}
    if coding:
        cds = GG.rand_cds_in_exons(rng, exons, cds_mode)
        t["cds"] = cds
        t["frames"] = FM.consistent_frames(cds, strand, off)
        t["transcript_type"] = rng.choice(["protein_coding", "protein_coding", None])
        t["protein_id"] = rng.choice(["prot_" + ident, "prot_" + ident, None])
    else:
        t["transcript_type"] = rng.choice(NONCODING)
    return t


def _gene(rng, lo, hi, k, tag, strand=None, coding=None, off=None, nex=None, cds_mode=None, idmode=None):
    strand = strand or rng.choice("+-")
    coding = (rng.random() < 0.65) if coding is None else coding
    off = rng.choice([0, 0, 1, 2]) if off is None else off
    idmode = idmode or rng.choice(["full"] * 5 + ["no-locus-tag", "no-symbol", "no-gene-id"])
    ident = f"{k}"
    t = _tx(rng, lo, hi, ident, strand, coding, off, nex, cds_mode)
    return {"transcripts": [t], "gene_id": None if idmode == "no-gene-id" else "gid_" + ident,
            "gene_symbol": None if idmode == "no-symbol" else "gsym_" + ident,
            "gene_type": "protein_coding" if coding else t["transcript_type"],
            "locus_tag": None if idmode == "no-locus-tag" else tag,
            "qualifiers": GG.rand_qualifiers(rng, 2) if rng.random() < 0.3 else {}, "guid": None, "idmode": idmode}


def _fcoll(rng, lo, hi, k):
    strand = rng.choice("+-")
    feats = []
    for j in range(rng.randint(1, 3)):
        f = GG.rand_feature_spec(rng, lo, hi, max_blocks=3, strand=strand, ident=f"f{k}_{j}", qualifiers=rng.random() < 0.3)
        feats.append(f)
    return {"features": feats, "feature_collection_name": rng.choice([f"fc_{k}", f"fc_{k}", None]), "feature_collection_id": f"fcid_{k}",
            "feature_collection_type": None, "locus_tag": rng.choice([f"FLT_{k}", f"FLT_{k}", None]),
            "qualifiers": GG.rand_qualifiers(rng, 2) if rng.random() < 0.3 else {}, "guid": None}


def _collection(rng, glen, ng, nf, layout):
    total = ng + nf
    if layout == "overlap":
        slots = []
        for _ in range(total):
            w = rng.randint(min(12, glen), max(12, glen // 2))
            s = rng.randint(0, max(0, glen - w))
            slots.append((s, min(glen, s + w)))
        gslots, fslots = slots[:ng], slots[ng:]
    else:
        width = glen // total
        slots = [(k * width, (k + 1) * width) for k in range(total)]
        pick = set(rng.sample(range(total), nf))
        gslots = [s for k, s in enumerate(slots) if k not in pick]
        fslots = [s for k, s in enumerate(slots) if k in pick]
    tags = rng.sample(range(100, 999), ng)  # unique, not in position order
    genes = [_gene(rng, lo, hi, k, f"LT_{tags[k]}") for k, (lo, hi) in enumerate(gslots)]
    if layout == "duptag" and ng >= 2:
        a, b = rng.sample(range(ng), 2)
        for g in (genes[a], genes[b]):
            if g["locus_tag"] is None:
                g["locus_tag"] = "LT_dup"
        genes[b]["locus_tag"] = genes[a]["locus_tag"]
    elif ng >= 2 and rng.random() < 0.25:
        # paralogues: two genes with the same symbol (and different locus tags); needs both to own a locus tag
        a, b = rng.sample(range(ng), 2)
        if genes[a]["locus_tag"] and genes[b]["locus_tag"] and genes[a]["gene_symbol"] and genes[b]["gene_symbol"]:
            genes[b]["gene_symbol"] = genes[a]["gene_symbol"]
            genes[b]["idmode"] = genes[a]["idmode"] = "dup-symbol"
    fcolls = [_fcoll(rng, lo, hi, k) for k, (lo, hi) in enumerate(fslots)]
    return {"genes": genes, "fcolls": fcolls, "name": "coll", "sequence_name": "chr1", "start": None, "end": None, "qualifiers": {}}


def cases(spec, ctx):
    i, n = spec["i"], spec["n"]
    sc = SCOPE[ctx.tier]
    rng = ctx.rng
    # ---- grid of single genes: strand x start frame x #exons x CDS mode x flavour (coordinates random) -----------------
    idx = 0
    for rep in range(sc["GRID"]):
        for strand in "+-":
            for off in (0, 1, 2):
                for nex in (1, 2, 3):
                    for cds_mode in ("full", "random", "start-at-boundary", "end-at-boundary", "single-exon"):
                        for flavour in FLAVOURS:
                            idx += 1
                            if idx % n != i:
                                continue
                            glen = rng.choice([90, 150])
                            lo = rng.randint(0, 20)
                            g = _gene(rng, lo, glen - rng.randint(0, 20), 0, "LT_500", strand=strand, coding=True, off=off, nex=nex,
                                      cds_mode=cds_mode, idmode="full")
                            cs = {"genes": [g], "fcolls": [], "name": "coll", "sequence_name": "chr1", "start": None, "end": None, "qualifiers": {}}
                            yield {"kind": "export" if (idx // n) % 3 else "indwriter", "flavour": flavour, "update_translations": True,
                                   "layout": "disjoint", "glen": glen, "gseed": rng.randrange(1 << 30), "nfrac": 0.0, "stale": False, "spec": cs,
                                   "force_strand": bool(idx % 2), "iw": _iw_opts(rng)}
    # ---- random collections ----------------------------------------------------------------------------------------
    for kind, total in (("export", sc["NE"]), ("indwriter", sc["NI"])):
        for k in range(total // n + 1):
            layout = ["disjoint", "disjoint", "disjoint", "disjoint", "overlap", "overlap", "duptag", "disjoint"][k % 8]
            ng = rng.choice([1, 2, 2, 3, 3, 4, 5, 6])
            if layout == "duptag":
                ng = max(2, ng)
            nf = rng.choice([0, 0, 1, 1, 2]) if kind == "export" else 0
            glen = rng.choice([90, 150, 300, 600])
            while glen // (ng + nf) < 12:
                glen *= 2
            cs = _collection(rng, glen, ng, nf, layout)
            legacy = False
            if kind == "export" and k % 9 == 4:
                # free-form qualifiers that reuse identifier keys with OTHER values (a legacy accession kept as a qualifier): the
                # records must still carry the transcript's own identifiers (set union).  Judged by the independent reader only.
                legacy = True
                for g in cs["genes"]:
                    for t in g["transcripts"]:
                        t["qualifiers"] = dict(t.get("qualifiers") or {}, transcript_id=["legacy-" + t["transcript_id"]])
                        if t.get("cds") and t.get("protein_id"):
                            t["qualifiers"]["protein_id"] = ["old-" + t["protein_id"]]
            yield {"legacy_quals": legacy, "kind": kind, "flavour": FLAVOURS[(k + k // 8) % 2], "update_translations": bool((k // 2 + k // 16) % 2) or kind == "indwriter", "layout": layout,
                   "glen": glen, "gseed": rng.randrange(1 << 30), "nfrac": 0.04 if rng.random() < 0.08 else 0.0,
                   "stale": rng.random() < 0.15, "spec": cs, "force_strand": rng.random() < 0.5, "iw": _iw_opts(rng)}
    # ---- scale (own stream): one gene of 17..60 exons on 1.5..3 kb, both flavours, export and independent-writer legs -------------
    srng = random.Random(f"C12-scale:{ctx.seed}:{i}")
    for k in range(max(1, sc["NE"] // (60 * n))):
        glen = srng.choice([1500, 3000])
        g = _gene(srng, srng.randint(0, 20), glen - srng.randint(0, 20), 0, "LT_700", coding=srng.random() < 0.8, nex=srng.randint(17, 60), idmode="full")
        cs = {"genes": [g], "fcolls": [], "name": "coll", "sequence_name": "chr1", "start": None, "end": None, "qualifiers": {}}
        yield {"kind": "export" if k % 3 else "indwriter", "flavour": FLAVOURS[k % 2], "update_translations": True, "layout": "disjoint", "glen": glen,
               "gseed": srng.randrange(1 << 30), "nfrac": 0.0, "stale": False, "spec": cs, "force_strand": bool(k % 2), "iw": _iw_opts(srng)}


def _iw_opts(rng):
    return {"minus_order": rng.choice(["insdc", "insdc", "ascending"]), "codon_start_explicit": rng.random() < 0.7,
            "child_gene": rng.random() < 0.6, "shuffle": rng.random() < 0.4, "source": rng.random() < 0.5, "seed": rng.randrange(1 << 30)}


def _genome(case):
    rng = random.Random(f"g{case['gseed']}")
    g = [rng.choice("ACGT") for _ in range(case["glen"])]
    if case.get("nfrac"):
        for p in range(len(g)):
            if rng.random() < case["nfrac"]:
                g[p] = "N"
    return "".join(g)


# ----------------------------------------------------------------------------------------------------------------
# plain-tuple view of the source
# ----------------------------------------------------------------------------------------------------------------
def _tb(blocks):
    return [(int(s), int(e)) for s, e in blocks]


def _merge_adjacent(blocks):
    out = []
    for s, e in sorted(blocks):
        if out and out[-1][1] == s:
            out[-1] = (out[-1][0], e)
        else:
            out.append((s, e))
    return out


def _sources(spec):
    out = []
    for gi, g in enumerate(spec["genes"]):
        t = g["transcripts"][0]
        exons = _tb(t["exons"])
        cds = _tb(t["cds"]) if t["cds"] else None
        frames = [int(f) for f in t["frames"]] if cds else None
        sym = g.get("gene_symbol") or g.get("gene_id")
        out.append({"gi": gi, "exons": exons, "cds": cds, "frames": frames, "strand": t["strand"], "coding": cds is not None,
                    "start_frame": FM.frames_5to3(frames, t["strand"])[0] if cds else None, "biotype": None if cds else t["transcript_type"],
                    "gene_symbol": g.get("gene_symbol"), "gene_id": g.get("gene_id"), "locus_tag": g.get("locus_tag"),
                    "eff_symbol": sym, "eff_locus": g.get("locus_tag") or sym, "transcript_id": t.get("transcript_id"),
                    "protein_id": t.get("protein_id") if cds else None, "span": (exons[0][0], exons[-1][1]), "idmode": g.get("idmode", "full")})
    return out


def _gene_sig(s):
    ex = s["exons"]
    adj = tuple(b[0] == a[1] for a, b in zip(ex, ex[1:]))
    utr = None
    if s["coding"]:
        utr = (s["cds"][0][0] > ex[0][0], s["cds"][-1][1] < ex[-1][1])
    return (s["coding"], s["biotype"], s["strand"], len(ex), len(s["cds"]) if s["coding"] else 0, adj, s["start_frame"], utr, s["idmode"])


# ----------------------------------------------------------------------------------------------------------------
# independent reader (Biopython) -> plain tuples
# ----------------------------------------------------------------------------------------------------------------
def _read_records(text):
    from Bio import SeqIO

    rec = SeqIO.read(io.StringIO(text), "genbank")
    feats = []
    for f in rec.features:
        parts = [(int(p.start), int(p.end)) for p in f.location.parts]
        strands = sorted({p.strand for p in f.location.parts}, key=repr)
        feats.append({"type": f.type, "parts": parts, "strands": strands,
                      "quals": {str(k): [str(x) for x in (v if isinstance(v, (list, tuple)) else [v])] for k, v in f.qualifiers.items()}})
    return str(rec.seq), feats


def _strand_kwarg_honoured():
    from Bio.SeqFeature import SeqFeature, SimpleLocation

    try:
        return SeqFeature(SimpleLocation(0, 5, 1), type="x", strand=-1).location.strand == -1
    except TypeError:
        return True  # no shim in the way: the writer itself has to cope, strict check


def _translate_oracle(inframe, flavour):
    """Biopython's translation of an in-frame ACGT sequence with the start rule of the table the writer uses."""
    from Bio.Data import CodonTable
    from Bio.Seq import Seq

    table = 11 if flavour == "PROKARYOTIC" else 1
    n = len(inframe) - len(inframe) % 3
    prot = str(Seq(inframe[:n]).translate(table=table))
    starts = set(CodonTable.unambiguous_dna_by_id[11].start_codons) if flavour == "PROKARYOTIC" else {"ATG"}
    if n >= 3 and inframe[:3] in starts:
        prot = "M" + prot[1:]
    return prot


def _best(feats, ftype, blocks, strand, keyed, carried, relax_strand):
    """Best matching record of a type: (record, blocks_ok, strand_ok, ids_ok) or None when the type is absent."""
    want = sorted(blocks)
    sv = 1 if strand == "+" else -1
    best = None
    for f in feats:
        if f["type"] != ftype:
            continue
        okb = sorted(f["parts"]) == want
        oks = f["strands"] == [sv] or (relax_strand and f["strands"] == [1])
        allv = {x for vs in f["quals"].values() for x in vs}
        oki = all(v in f["quals"].get(k, []) for k, v in keyed.items() if v is not None) and all(v in allv for v in carried if v is not None)
        score = (oki + okb + oks, oki, okb)
        if best is None or score > best[0]:
            best = (score, f, okb, oks, oki)
    return None if best is None else best[1:]


def _judge_record(ctx, feats, what, flavour, ftype, blocks, strand, keyed, carried, relax_strand=False, **where):
    b = _best(feats, ftype, blocks, strand, keyed, carried, relax_strand)
    have = sorted({f["type"] for f in feats})
    if not ctx.check("ind.record-type", b is not None, key=(what, flavour, ftype), want_type=ftype, types_in_file=have, **where):
        return None
    f, okb, oks, oki = b
    multi = "multi" if len(blocks) > 1 else "single"
    ctx.check("ind.location", okb, key=(what, flavour, strand, multi), want=sorted(blocks), got=f["parts"], ftype=ftype, **where)
    ctx.check("ind.strand", oks, key=(what, flavour, strand, multi), want=strand, got=f["strands"], ftype=ftype, **where)
    ctx.check("ind.identifiers", oki, key=(what, flavour), keyed=keyed, carried=carried, got=f["quals"], ftype=ftype, **where)
    return f if (okb and oks and oki) else None


def _independent_leg(case, ctx, text, srcs, genome):
    flavour = case["flavour"]
    seq, feats = _read_records(text)
    ctx.check("ind.sequence", seq == genome, key="sequence", want_len=len(genome), got_len=len(seq),
              first_diff=next((k for k, (a, b) in enumerate(zip(seq, genome)) if a != b), None))
    relax = not _strand_kwarg_honoured()
    if relax:
        ctx.bump("gene_level_strand_relaxed_compat_shim")
    census = {}

    def want(t):
        census[t] = census.get(t, 0) + 1

    for s in srcs:
        where = {"gene_index": s["gi"]}
        keyed = {"locus_tag": s["eff_locus"], "gene": s["eff_symbol"]}
        want("gene")
        _judge_record(ctx, feats, "gene", flavour, "gene", [s["span"]], s["strand"], keyed, [s["gene_id"]], relax_strand=relax, **where)
        if s["coding"]:
            if flavour == "EUKARYOTIC":
                want("mRNA")
                _judge_record(ctx, feats, "transcript", flavour, "mRNA", s["exons"], s["strand"], keyed, [s["transcript_id"]], **where)
            want("CDS")
            f = _judge_record(ctx, feats, "cds", flavour, "CDS", s["cds"], s["strand"], keyed, [s["transcript_id"], s["protein_id"]], **where)
            if f is not None and len(s["cds"]) > 1 and s["strand"] == "-":
                ctx.bump("minus_multiexon_cds_records")
                if f["parts"] == sorted(f["parts"]):
                    ctx.bump("minus_multiexon_biopython_extract_differs")
            if f is not None and case["update_translations"]:
                codons = FM.codons(s["cds"], s["strand"], s["frames"])
                inframe = "".join(SM.extract(c, s["strand"], seq) for c in codons)
                got = f["quals"].get("translation")
                if set(inframe) <= set("ACGT"):
                    wantp = _translate_oracle(inframe, flavour)
                    model = FM.translate(inframe, "PROKARYOTE" if flavour == "PROKARYOTIC" else "DEFAULT")
                    if "".join(model) != wantp:
                        from bcv.core import HarnessError

                        raise HarnessError(f"translation oracles disagree: {inframe} {wantp} {model}")
                    ctx.check("ind.translation", got == [wantp], key=("translation", flavour, "missing" if got is None else "value",
                                                                       "start-frame-0" if s["start_frame"] == 0 else "start-frame-12"),
                              want=wantp, got=got, inframe=inframe, start_frame=s["start_frame"], strand=s["strand"], **where)
                else:
                    ctx.seen("ind.translation")
                    ctx.bump("translation_not_comparable_ambiguous_cds")
        else:
            want(s["biotype"])
            _judge_record(ctx, feats, "transcript", flavour, s["biotype"], s["exons"], s["strand"], keyed, [s["transcript_id"]], **where)
    for ci, fc in enumerate(case["spec"]["fcolls"]):
        where = {"fcoll_index": ci}
        strand = fc["features"][0]["strand"]
        lo = min(f["blocks"][0][0] for f in fc["features"])
        hi = max(f["blocks"][-1][1] for f in fc["features"])
        sym = fc.get("feature_collection_name") or fc.get("feature_collection_id")
        lt = fc.get("locus_tag")
        want("misc_feature")
        _judge_record(ctx, feats, "feature-collection", flavour, "misc_feature", [(lo, hi)], strand, {"locus_tag": lt or sym},
                      [fc.get("feature_collection_name"), fc.get("feature_collection_id")], relax_strand=relax, **where)
        for f in fc["features"]:
            want("feat_interval")
            _judge_record(ctx, feats, "feature", flavour, "feat_interval", _tb(f["blocks"]), strand, {"locus_tag": lt},
                          [f.get("feature_id"), f.get("feature_name")], **where)
    got_census = {}
    for f in feats:
        if f["type"] != "source":
            got_census[f["type"]] = got_census.get(f["type"], 0) + 1
    ctx.check("ind.census", got_census == census, key=("census", flavour), want=census, got=got_census)


# ----------------------------------------------------------------------------------------------------------------
# library reader -> plain tuples
# ----------------------------------------------------------------------------------------------------------------
def _lib_parse(text, mode):
    """Library code only (called through ctx.call)."""
    from inscripta.biocantor.io.genbank.parser import GenBankParserType, parse_genbank

    with warnings.catch_warnings():
        warnings.simplefilter("ignore")
        recs = list(parse_genbank(io.StringIO(text), gbk_type=GenBankParserType[mode]))
        return [r.to_annotation_collection() for r in recs]


def _q(quals):
    return sorted((str(k), sorted(str(x) for x in v)) for k, v in (quals or {}).items())


def _view(ac):
    """Plain view of a parsed AnnotationCollection (public attributes only)."""
    genes = []
    for g in ac.genes:
        txs = []
        for t in g.transcripts:
            ex = [(int(b.start), int(b.end)) for b in t.chromosome_location.blocks]
            cds = frames = None
            if t.is_coding:
                cds = [(int(b.start), int(b.end)) for b in t.cds.chromosome_location.blocks]
                frames = [int(f.value) for f in t.cds.frames]
            txs.append({"exons": ex, "cds": cds, "frames": frames, "strand": t.strand.to_symbol(), "transcript_id": t.transcript_id,
                        "transcript_symbol": t.transcript_symbol, "protein_id": t.protein_id, "product": t.product,
                        "transcript_type": t.transcript_type.name if t.transcript_type else None, "quals": _q(t.qualifiers)})
        genes.append({"locus_tag": g.locus_tag, "gene_symbol": g.gene_symbol, "gene_id": g.gene_id,
                      "gene_type": g.gene_type.name if g.gene_type else None, "quals": _q(g.qualifiers), "txs": txs})
    fcs = []
    for fc in ac.feature_collections:
        fcs.append({"locus_tag": fc.locus_tag, "name": fc.feature_collection_name, "id": fc.feature_collection_id, "quals": _q(fc.qualifiers),
                    "features": [{"blocks": [(int(b.start), int(b.end)) for b in f.chromosome_location.blocks], "strand": f.strand.to_symbol(),
                                  "types": sorted(f.feature_types), "id": f.feature_id, "name": f.feature_name, "quals": _q(f.qualifiers)}
                                 for f in fc.feature_intervals]})
    return {"genes": genes, "fcolls": fcs, "sequence_name": ac.sequence_name}


def _expected_gene(s, flavour, leg):
    """What the property says must come back for one source gene."""
    tx_blocks = s["cds"] if (s["coding"] and flavour == "PROKARYOTIC") else s["exons"]
    return {"exons": tx_blocks, "cds": _merge_adjacent(s["cds"]) if s["coding"] else None, "strand": s["strand"],
            "start_frame": s["start_frame"], "gene_symbol": s["eff_symbol"], "locus_tag": s["eff_locus"], "protein_id": s["protein_id"]}


def _reader_leg(case, ctx, text, srcs, leg, has_codon_start):
    flavour, layout = case["flavour"], case["layout"]
    modes = {"disjoint": MODES, "overlap": ["LOCUS_TAG", "HYBRID"], "duptag": ["SORTED", "HYBRID"]}[layout]
    by_tag = layout != "duptag"
    views = {}
    order = sorted(range(len(srcs)), key=lambda k: srcs[k]["span"] if not (flavour == "PROKARYOTIC" and srcs[k]["coding"]) else
                   (srcs[k]["cds"][0][0], srcs[k]["cds"][-1][1]))
    for mode in modes:
        acs, exc = ctx.call(_lib_parse, text, mode)
        if exc is not None:
            ctx.check(leg + ".parse", False, key=("raised", mode, flavour, layout, type(exc).__name__), exc=repr(exc)[:300])
            continue
        ok = len(acs) == 1
        v = _view(acs[0]) if ok else None
        ok = ok and len(v["genes"]) == len(srcs) and all(len(g["txs"]) == 1 for g in v["genes"])
        ctx.check(leg + ".parse", ok, key=("gene-count", mode, flavour, layout), collections=len(acs), want_genes=len(srcs),
                  got=None if v is None else [(g["locus_tag"], len(g["txs"])) for g in v["genes"]])
        if not ok:
            continue
        views[mode] = v
        for rank, k in enumerate(order):
            s = srcs[k]
            want = _expected_gene(s, flavour, leg)
            if by_tag:
                cand = [g for g in v["genes"] if g["locus_tag"] == want["locus_tag"]]
                if not ctx.check(leg + ".identifiers", len(cand) == 1, key=("locus-tag-lookup", mode, flavour), want=want["locus_tag"],
                                 got=[g["locus_tag"] for g in v["genes"]], gene_index=s["gi"]):
                    continue
                g = cand[0]
            else:
                g = v["genes"][rank]  # parsed genes are position-sorted; the genes of this layout are disjoint
            t = g["txs"][0]
            where = {"gene_index": s["gi"], "mode": mode}
            multi = "multi" if len(s["exons"]) > 1 else "single"
            got_cds = _merge_adjacent(t["cds"]) if t["cds"] is not None else None
            ok_struct = t["exons"] == want["exons"] and got_cds == want["cds"]
            ctx.check(leg + ".structure", ok_struct, key=("structure", mode, flavour, "coding" if s["coding"] else "noncoding", s["strand"], multi),
                      want_exons=want["exons"], got_exons=t["exons"], want_cds=want["cds"], got_cds=t["cds"], **where)
            ok_strand = t["strand"] == want["strand"]
            ctx.check(leg + ".strand", ok_strand, key=("strand", mode, flavour), want=want["strand"], got=t["strand"], **where)
            ok_ids = g["gene_symbol"] == want["gene_symbol"] and g["locus_tag"] == want["locus_tag"] and \
                (want["protein_id"] is None or t["protein_id"] == want["protein_id"])
            ctx.check(leg + ".identifiers", ok_ids, key=("identifiers", mode, flavour, s["idmode"]),
                      want=[want["gene_symbol"], want["locus_tag"], want["protein_id"]], got=[g["gene_symbol"], g["locus_tag"], t["protein_id"]], **where)
            if s["coding"] and t["frames"]:
                got_sf = FM.frames_5to3(t["frames"], t["strand"])[0]
                ctx.check(leg + ".start-frame", got_sf == want["start_frame"],
                          key=("start-frame", mode, flavour, "src-frame-0" if want["start_frame"] == 0 else "src-frame-12"),
                          want=want["start_frame"], got=got_sf, got_frames=t["frames"], src_frames=s["frames"], strand=s["strand"],
                          other_fields_ok=bool(ok_struct and ok_strand and ok_ids), text_has_codon_start=has_codon_start, **where)
            elif s["coding"]:
                ctx.seen(leg + ".start-frame")
    # ---- mode agreement ------------------------------------------------------------------------------------------
    if layout in ("disjoint", "overlap") and len(views) == len(modes):
        ref = modes[0]
        for m in modes[1:]:
            same = views[m] == views[ref]
            diff = None
            if not same:
                diff = _first_diff(views[ref], views[m])
            ctx.check(leg + ".mode-agreement", same, key=("agree", ref, m, flavour, layout), first_difference=diff)
    else:
        ctx.bump("mode_agreement_not_applicable_duptag_or_failed_parse")


def _first_diff(a, b, path=""):
    if type(a) is not type(b):
        return [path, repr(a)[:150], repr(b)[:150]]
    if isinstance(a, dict):
        for k in sorted(set(a) | set(b)):
            if a.get(k) != b.get(k):
                return _first_diff(a.get(k), b.get(k), path + "/" + str(k))
    if isinstance(a, (list, tuple)):
        if len(a) != len(b):
            return [path + "/len", len(a), len(b)]
        for k, (x, y) in enumerate(zip(a, b)):
            if x != y:
                return _first_diff(x, y, path + f"/{k}")
    return [path, repr(a)[:150], repr(b)[:150]]


# ----------------------------------------------------------------------------------------------------------------
# independent writer (Biopython, harness side)
# ----------------------------------------------------------------------------------------------------------------
def _iw_text(srcs, genome, flavour, opts):
    from Bio import SeqIO
    from Bio.Seq import Seq
    from Bio.SeqFeature import CompoundLocation, SeqFeature, SimpleLocation
    from Bio.SeqRecord import SeqRecord

    def loc(blocks, strand):
        sv = 1 if strand == "+" else -1
        parts = [SimpleLocation(s, e, sv) for s, e in blocks]
        if strand == "-" and opts["minus_order"] == "insdc":
            parts = parts[::-1]  # biological order in memory -> ascending inside complement(join()) in the file
        return parts[0] if len(parts) == 1 else CompoundLocation(parts)

    def feat(ftype, blocks, strand, quals):
        f = SeqFeature(loc(blocks, strand), type=ftype)
        f.qualifiers = {k: [v] for k, v in quals.items() if v is not None}
        return f

    groups = []
    for s in srcs:
        gq = {"locus_tag": s["eff_locus"], "gene": s["eff_symbol"]}
        cq = {"locus_tag": s["eff_locus"], "gene": s["eff_symbol"] if opts["child_gene"] else None}
        grp = [feat("gene", [s["span"]], s["strand"], gq)]
        if s["coding"]:
            if flavour == "EUKARYOTIC":
                grp.append(feat("mRNA", s["exons"], s["strand"], dict(cq, transcript_id=s["transcript_id"])))
            q = dict(cq, protein_id=s["protein_id"])
            if s["start_frame"] != 0 or opts["codon_start_explicit"]:
                q["codon_start"] = str(s["start_frame"] + 1)
            grp.append(feat("CDS", s["cds"], s["strand"], q))
        else:
            grp.append(feat(s["biotype"], s["exons"], s["strand"], dict(cq, transcript_id=s["transcript_id"])))
        groups.append(grp)
    groups.sort(key=lambda grp: int(grp[0].location.start))
    feats = [f for grp in groups for f in grp]
    if opts["shuffle"]:
        random.Random(opts["seed"]).shuffle(feats)
    rec = SeqRecord(Seq(genome), id="chr1", name="chr1", description="written by the C12 harness")
    rec.annotations["molecule_type"] = "DNA"
    if opts["source"]:
        rec.features.append(feat("source", [(0, len(genome))], "+", {"organism": "harness", "mol_type": "genomic DNA"}))
    rec.features.extend(feats)
    h = io.StringIO()
    with warnings.catch_warnings():
        warnings.simplefilter("ignore")
        SeqIO.write([rec], h, "genbank")
    return h.getvalue()


# ----------------------------------------------------------------------------------------------------------------
# one case
# ----------------------------------------------------------------------------------------------------------------
def _export(coll, flavour, upd, force_strand):
    from inscripta.biocantor.io.genbank.writer import GenbankFlavor, collection_to_genbank

    h = io.StringIO()
    with warnings.catch_warnings():
        warnings.simplefilter("ignore")
        collection_to_genbank([coll], h, genbank_type=GenbankFlavor[flavour], force_strand=force_strand, update_translations=upd)
    return h.getvalue()


def run_case(case, ctx):
    spec = case["spec"]
    flavour = case["flavour"]
    genome = _genome(case)
    srcs = _sources(spec)
    sig = (case["kind"], flavour, case["update_translations"], case["layout"], tuple(_gene_sig(s) for s in srcs), len(spec["fcolls"]))
    nontrivial = len(srcs) >= 2 or any(len(s["exons"]) > 1 or s["strand"] == "-" or (s["start_frame"] or 0) != 0 for s in srcs)
    ctx.note(sig, nontrivial=nontrivial, klass=f"{case['kind']}-{flavour[:4].lower()}-{case['layout']}")

    if case["kind"] == "indwriter":
        # (prokaryotic style: no transcript-level record, the transcript the parser infers IS the CDS)
        text = _iw_text(srcs, genome, flavour, case["iw"])
        _reader_leg(case, ctx, text, srcs, "iw", True)
        return

    if case.get("stale") and case["update_translations"]:
        spec = dict(spec, genes=[dict(g, transcripts=[dict(t, qualifiers=dict(t["qualifiers"], translation=["STALESTALE"])) if t["cds"] else t
                                                      for t in g["transcripts"]]) for g in spec["genes"]])
    parent = GG.build_parent({"mode": "chrom", "genome": genome, "seqname": spec["sequence_name"]})
    coll, exc = ctx.call(GG.build_collection, spec, parent)
    if exc is not None:
        ctx.check("lib.parse", False, key=("constructor-raised", type(exc).__name__), exc=repr(exc)[:300])
        return
    if case["gseed"] % 3 == 0:
        # history leg: the same gene models (same coordinates, identifiers, qualifiers, sequence name) on ANOTHER genome are exported
        # first in this process; what is written for the primary collection afterwards (sequence, translations) must be the
        # primary's own - an export is a function of its collection, not of earlier exports
        case2 = dict(case, gseed=case["gseed"] + 1)
        genome2 = _genome(case2)
        parent2 = GG.build_parent({"mode": "chrom", "genome": genome2, "seqname": spec["sequence_name"]})
        coll2, exc2 = ctx.call(GG.build_collection, spec, parent2)
        if exc2 is None:
            text2, exc2 = ctx.call(_export, coll2, flavour, case["update_translations"], bool(case.get("force_strand", True)))
            if exc2 is None:
                ctx.bump("history-leg: same models exported first on another genome")
                _independent_leg(case2, ctx, text2, srcs, genome2)
    d_first, _ = ctx.call(coll.to_dict)
    text, exc = ctx.call(_export, coll, flavour, case["update_translations"], bool(case.get("force_strand", True)))
    if exc is not None:
        ctx.check("ind.sequence", False, key=("export-raised", flavour, type(exc).__name__), exc=repr(exc)[:300])
        return
    d_after, _ = ctx.call(coll.to_dict)
    ctx.check("gbk.operand-unchanged", d_first == d_after, key=("collection-to_dict-changed-by-export", flavour), update_translations=case["update_translations"])
    # the same in-memory collection exported a second time with the same arguments gives the same file, and exporting leaves the
    # collection as it was (dictionary form before the first and after the second export)
    before, _e0 = ctx.call(coll.to_dict)
    text_b, exc_b = ctx.call(_export, coll, flavour, case["update_translations"], bool(case.get("force_strand", True)))
    after, _e1 = ctx.call(coll.to_dict)
    ctx.check("gbk.repeatable", exc_b is None and text_b == text, key=("second-export-of-the-same-collection", flavour, "raised" if exc_b else "differs"),
              exc=repr(exc_b)[:200] if exc_b else None,
              first_difference=next(((a, b) for a, b in zip(text.split("\n"), (text_b or "").split("\n")) if a != b), None) if exc_b is None else None)
    _independent_leg(case, ctx, text, srcs, genome)
    if case.get("legacy_quals"):
        ctx.bump("legacy-identifier-qualifiers(independent-reader-only)")
        return
    _reader_leg(case, ctx, text, srcs, "lib", "/codon_start=" in text)
    # ---- second generation: what BioCantor read back is written again; the independent reader finds the same records (type, parts,
    # strand) with the same identifier qualifiers in the second file as in the first (for fully identified eukaryotic models) --------
    if flavour == "EUKARYOTIC" and case["layout"] == "disjoint" and not spec["fcolls"] and all(g.get("idmode") == "full" for g in spec["genes"]) \
            and all(s["start_frame"] in (0, None) for s in srcs):
        acs, e2 = ctx.call(_lib_parse, text, "SORTED")
        if e2 is None and len(acs) == 1:
            text2, e3 = ctx.call(_export, acs[0], flavour, False, bool(case.get("force_strand", True)))
            if e3 is not None:
                ctx.check("gbk.second-generation", False, key=("re-export-raised", type(e3).__name__), exc=repr(e3)[:200])
            else:
                idk = ("locus_tag", "gene", "transcript_id", "protein_id")

                def recs(tx):
                    # (abutting parts are compared merged: the parser documents that it reads adjacent blocks back as one)
                    return sorted((f["type"], tuple(map(tuple, _merge_adjacent(sorted(f["parts"])))), tuple(f["strands"]),
                                   tuple((k, tuple(sorted(f["quals"].get(k, [])))) for k in idk))
                                  for f in _read_records(tx)[1] if f["type"] != "source")
                r1, r2 = recs(text), recs(text2)
                diff = next(((a, b2) for a, b2 in zip(r1, r2) if a != b2), None) if len(r1) == len(r2) else ("record-count", len(r1), len(r2))
                ctx.check("gbk.second-generation", r1 == r2, key=("records-or-identifiers-changed-by-read-write",), first_difference=repr(diff)[:600])


# ----------------------------------------------------------------------------------------------------------------
# known findings
# ----------------------------------------------------------------------------------------------------------------
def classify(v):
    d = v.get("detail") or {}
    case = v.get("case") or {}
    if v["monitor"] == "lib.start-frame" and case.get("kind") == "export":
        # K15: the GenBank writer never emits /codon_start, so the parser assumes codon_start=1: a CDS whose 5' block is
        # annotated with frame 1 or 2 comes back with start frame 0 while everything else is recovered.
        try:
            t = case["spec"]["genes"][d["gene_index"]]["transcripts"][0]
            src = FM.frames_5to3([int(f) for f in t["frames"]], t["strand"])[0]
        except (KeyError, IndexError, TypeError):
            return None
        if src in (1, 2) and d.get("got") == 0 and d.get("other_fields_ok") is True and d.get("text_has_codon_start") is False:
            return "K15-genbank-writer-omits-codon-start"
    return None
