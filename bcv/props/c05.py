"""C05  CDS codons, frame bookkeeping and translation follow one reading-frame model.

Reference model: bcv.models.framemodel (walk exons 5'->3', skip the annotated offset, resynchronise on frame
disagreement dropping the dangling codon, cut into triplets; Biopython table 1/11 for translation).

Monitors
  cds.codon-locations     chromosome_codon_locations / num_codons == model codons (positions, order, strand)
  cds.sequence-fast       extract_sequence() on a fresh object == concatenation of the model codons; len % 3 == 0
  cds.sequence-slow       extract_sequence() after chunk_relative_codon_locations was cached == the same string
  cds.scan-codons         scan_codons() == the model codon strings (upper-cased), truncate_at_in_frame_stop honoured
  cds.translate           translate(strict, table, truncate) == standard-code translation with the table's start rule
  cds.flags               has_valid_stop / has_in_frame_stop / has_canonical_start_codon / has_start_codon_in_specific_translation_table
  cds.window              scan_chromosome_codon_locations(start, end): exactly the model codons wholly inside [start, end)
  cds.window-expand       ... expand_window_to_partial_codons=True: the model codons touching the window
                          (claimed only for one uninterrupted frame with start offset 0, see latitude iii)
  cds.construct-frames    construct_frames_from_location(loc, f) fed back into a CDS describes one uninterrupted frame
  cds.transcript-wrappers TranscriptInterval.get_cds_sequence / get_protein_sequence agree with the CDS

Latitude (DESIGN C05-L): (i) when the model yields ZERO complete codons the library may answer empty or refuse with a
documented exception (BioCantorException / explicit ValueError); (ii) a resynchronisation whose dangling partial codon
is longer than the preceding kept block may be refused with InvalidPositionException (never answered with wrong
codons); (iii) expand_window_to_partial_codons is compared only for uninterrupted frames with start offset 0 and
non-overlapping blocks; windows are compared only for CDS whose blocks do not overlap each other.
"""
import itertools

from bcv.gen import loc as G
from bcv.gen import genes as GG
from bcv.models import framemodel as FM
from bcv.models import posmodel as PM
from bcv.models import seqmodel as SM

ID = "C05"
LEVEL = "exploration"
EXHAUSTIVE = False
RULE = (
    "exhaustive: every layout of 1..3 non-empty CDS blocks (gaps incl. 0 bp) over GE positions x both strands x every "
    "annotated frame vector in {0,1,2}^k (all consistent vectors, all start offsets and all programmed-frameshift "
    "vectors) with every chromosome window (start,end) over the span+-1; seeded random CDS (1..5 blocks, genome<=150, "
    "consistent and frameshifted vectors, IUPAC and lower-case letters, engineered start/stop codons) with sampled "
    "windows. Non-trivial = distinct (block lengths mod 3 and gaps==0 pattern, strand, frame vector) with >= 1 model codon."
)
SCOPE = {"quick": {"GE": 8, "NR": 2500, "NW": 12}, "thorough": {"GE": 11, "NR": 30000, "NW": 40}}
EXHAUSTIVE_SCOPE = {t: f"CDS layouts over {s['GE']} positions, <=3 blocks, all frame vectors, all windows" for t, s in SCOPE.items()}
FLOOR = {"quick": 600, "thorough": 1500}
REQUIRED_MONITORS = ["cds.phases", "cds.optimize", "cds.codon-locations", "cds.sequence-fast", "cds.sequence-slow", "cds.scan-codons", "cds.translate", "cds.flags",
                     "cds.window", "cds.window-expand", "cds.construct-frames", "cds.transcript-wrappers"]
_C = "inscripta.biocantor.gene.cds:CDSInterval."
REACH = [_C + x for x in ("_prepare_single_exon_window_for_scan_codon_locations", "_prepare_multi_exon_window_for_scan_codon_locations",
                          "_calculate_frame_offset", "_scan_codon_locations", "extract_sequence", "translate", "construct_frames_from_location",
                          "_expand_coordinates_to_codons", "scan_codons")]
REACH_REQUIRED = REACH
ASSUMPTIONS = ["oracle: reading-frame walker bcv/models/framemodel.py (self-tested against the construct_frames_from_location docstring table) "
               "and Bio.Data.CodonTable tables 1 and 11"]
WATCHDOG = {"quick": 1500, "thorough": 4 * 3600}


def setup(ctx):
    from bcv import core

    core.codon_storm(ctx)


def selftest():
    from bcv.core import HarnessError

    try:
        FM.selftest()
        PM.selftest()
        SM.selftest()
    except AssertionError as e:
        raise HarnessError(f"model self-test: {e!r}")


def _layouts(ge):
    for lay in G.enum_layouts(ge, 3):
        if all(e > s for s, e in lay):
            yield lay


def cases(spec, ctx):
    i, n = spec["i"], spec["n"]
    sc = SCOPE[ctx.tier]
    rng = ctx.rng
    idx = 0
    for lay in _layouts(sc["GE"]):
        for strand in "+-":
            for frames in itertools.product((0, 1, 2), repeat=len(lay)):
                idx += 1
                if idx % n != i:
                    continue
                yield {"kind": "exh", "blocks": lay, "strand": strand, "frames": frames, "gseed": idx % 7, "glen": sc["GE"] + 2, "allwin": True}
    for k in range(sc["NR"] // n + 1):
        glen = rng.choice([30, 60, 150])
        nb = rng.choice([1, 1, 2, 3, 4, 5])
        blocks = GG.rand_blocks(rng, 0, glen, nb, min_len=1, max_len=rng.choice([3, 8, 20, 40]), adjacent_prob=0.25)
        strand = rng.choice("+-")
        fs = 0 if rng.random() < 0.6 else rng.choice([1, 1, 2])
        frames = GG.rand_frames(rng, blocks, strand, None, fs)
        alpha = rng.choice(["ACGT", "ACGT", "ACGT", "ACGTN", "ACGTRYKMSWN", "ACGTacgt"])
        yield {"kind": "rand", "blocks": blocks, "strand": strand, "frames": frames, "gseed": rng.randrange(1 << 30), "glen": glen,
               "alpha": alpha, "engineer": rng.choice(["none", "start", "stop", "both", "inframe-stop", "alt-start"]), "nwin": sc["NW"]}
    # scale leg (own stream): long CDS (hundreds of codons, exons of several hundred bases, 6..14 exons)
    srng = __import__("random").Random(f"C05-scale:{ctx.seed}:{i}")
    for k in range(sc["NR"] // (60 * n) + 1):
        glen = srng.choice([1500, 4000])
        nb = srng.choice([1, 3, 6, 14, 26, 40, 70])
        blocks = GG.rand_blocks(srng, 0, glen, nb, min_len=1, max_len=srng.choice([40, 200, 600]) if nb <= 14 else srng.choice([6, 20, 45]), adjacent_prob=0.2)
        strand = srng.choice("+-")
        fs = 0 if srng.random() < 0.6 else 1
        frames = GG.rand_frames(srng, blocks, strand, None, fs)
        yield {"kind": "rand", "blocks": blocks, "strand": strand, "frames": frames, "gseed": srng.randrange(1 << 30), "glen": glen,
               "alpha": srng.choice(["ACGT", "ACGT", "ACGTN"]), "engineer": srng.choice(["none", "start", "both", "inframe-stop"]), "nwin": 3}


def _genome(case, blocks, strand, frames):
    import random

    rng = random.Random(f"g{case['gseed']}")
    alpha = case.get("alpha", "ACGT")
    g = [rng.choice(alpha) for _ in range(case["glen"])]
    eng = case.get("engineer", "none")
    cod = FM.codons(blocks, strand, frames)

    def put(codon_pos, text):
        for p, ch in zip(codon_pos, text):
            g[p] = SM.COMP[ch] if strand == "-" else ch

    if cod:
        if eng in ("start", "both"):
            put(cod[0], "ATG")
        if eng == "alt-start":
            put(cod[0], rng.choice(["TTG", "CTG", "GTG", "ATT", "ATA", "ATC"]))
        if eng in ("stop", "both"):
            put(cod[-1], rng.choice(["TAA", "TAG", "TGA"]))
        if eng == "inframe-stop" and len(cod) > 2:
            put(cod[rng.randrange(1, len(cod) - 1)], "TAG")
    return "".join(g)


def _refusal(exc):
    from inscripta.biocantor.exc import BioCantorException

    return isinstance(exc, (BioCantorException, ValueError))


def _mk(blocks, strand, frames, genome, parent=True):
    from inscripta.biocantor.gene.cds import CDSInterval
    from inscripta.biocantor.io.parser import seq_to_parent

    p = seq_to_parent(genome, seq_id="chr1") if parent else None
    return CDSInterval([b[0] for b in blocks], [b[1] for b in blocks], GG._strand(strand), GG._frames(frames), parent_or_seq_chunk_parent=p)


def seq_to_parent_(genome):
    from inscripta.biocantor.io.parser import seq_to_parent

    return seq_to_parent(genome, seq_id="chr1")


def _loc_positions(loc):
    r = PM.read_location(loc)
    if r is None:
        return []
    return PM.positions(r[0], r[1])


def _dangling_exceeds(blocks, strand, frames):
    """Latitude (ii): some resynchronisation must drop more bases than the immediately preceding kept exon holds."""
    kept_last = 0
    total = 0
    running = 0
    for exon, f in zip(FM.exons_5to3(blocks, strand), FM.frames_5to3(frames, strand)):
        n = len(exon)
        if f != running:
            drop = total % 3
            if drop > kept_last:
                return True
            total -= drop
            n = max(0, n - f)
            running = 0
        if n > 0:
            kept_last = n
        else:
            kept_last = kept_last  # an exon eliminated entirely leaves the previous kept block in place
        total += n
        running = (running + n) % 3
    return False


def _unanimous(codon):
    from Bio.Data import IUPACData

    vals = dict(IUPACData.ambiguous_dna_values)
    vals["U"] = "T"
    try:
        aas = {FM.FWD[a + b + c] for a in vals[codon[0]] for b in vals[codon[1]] for c in vals[codon[2]]}
    except KeyError:
        return None
    return aas.pop() if len(aas) == 1 else None


def run_case(case, ctx):
    blocks = [tuple(b) for b in case["blocks"]]
    strand = case["strand"]
    frames = [int(f) for f in case["frames"]]
    genome = _genome(case, blocks, strand, frames)
    mc = FM.codons(blocks, strand, frames)
    mseq = "".join(SM.extract(c, strand, genome) for c in mc)
    lat2 = _dangling_exceeds(blocks, strand, frames)
    consistent = any(frames == FM.consistent_frames(blocks, strand, o) for o in (0, 1, 2))
    shape = (tuple((e - s) % 3 for s, e in blocks), tuple(b2[0] == b1[1] for b1, b2 in zip(blocks, blocks[1:])), strand, tuple(frames),
             min(len(mc), 3))
    ctx.note(shape, nontrivial=len(mc) >= 1,
             klass=("exh-" if case["kind"] == "exh" else "rand-") + ("consistent" if consistent else "frameshift") + ("-1exon" if len(blocks) == 1 else "-multi"))
    if lat2:
        ctx.bump("latitude-ii-cases")
    if not mc:
        ctx.bump("zero-codon-cases")

    def judge(monitor, key, res, exc, ok_fn, **detail):
        """Common verdict logic with latitude (i)/(ii)."""
        if exc is not None:
            if not mc and _refusal(exc):
                ctx.seen(monitor)
                ctx.bump("refused-zero-codons")
                return
            if lat2 and type(exc).__name__ == "InvalidPositionException":
                ctx.seen(monitor)
                ctx.bump("refused-latitude-ii")
                return
            ctx.check(monitor, False, key=(key, "raised", type(exc).__name__), exc=repr(exc)[:200], model_codons=len(mc), **detail)
            return
        ctx.check(monitor, ok_fn(res), key=(key, "value"), model_codons=len(mc), **detail)

    # ---- codon locations ------------------------------------------------------------------------------
    cds = _mk(blocks, strand, frames, genome)
    res, exc = ctx.call(lambda: cds.chromosome_codon_locations)
    got = None if exc else [_loc_positions(c) for c in res]
    judge("cds.codon-locations", "chromosome_codon_locations", res, exc,
          lambda r: got == mc and all(c.strand.to_symbol() == strand for c in r), got=got, want=mc)
    res, exc = ctx.call(lambda: cds.num_codons)
    judge("cds.codon-locations", "num_codons", res, exc, lambda r: r == len(mc), got=res, want=len(mc))

    # ---- sequence, fast path (fresh object) ----------------------------------------------------------
    a = _mk(blocks, strand, frames, genome)
    res, exc = ctx.call(a.extract_sequence)
    judge("cds.sequence-fast", "extract_sequence", res, exc, lambda r: str(r) == mseq and len(str(r)) % 3 == 0, got=None if exc else str(res), want=mseq)
    # ---- sequence, slow path (codon tuple cached first) ----------------------------------------------
    b = _mk(blocks, strand, frames, genome)
    res0, exc0 = ctx.call(lambda: b.chunk_relative_codon_locations)
    got0 = None if exc0 else [_loc_positions(c) for c in res0]
    judge("cds.codon-locations", "chunk_relative_codon_locations", res0, exc0, lambda r: got0 == mc, got=got0, want=mc)
    if exc0 is None:
        res, exc = ctx.call(b.extract_sequence)
        judge("cds.sequence-slow", "extract_sequence-after-codon-cache", res, exc, lambda r: str(r) == mseq, got=None if exc else str(res), want=mseq)
        # codon sequences themselves
        cs, exc = ctx.call(lambda: "".join(str(c.extract_sequence()) for c in res0))
        judge("cds.sequence-slow", "concat-codon-sequences", cs, exc, lambda r: r == mseq, got=cs, want=mseq)
    else:
        ctx.seen("cds.sequence-slow")

    # ---- scan_codons ---------------------------------------------------------------------------------
    c2 = _mk(blocks, strand, frames, genome)
    res, exc = ctx.call(lambda: [str(x) for x in c2.scan_codons()])
    want_codons = [mseq[k:k + 3].upper() for k in range(0, len(mseq), 3)]
    judge("cds.scan-codons", "scan_codons", res, exc, lambda r: r == want_codons, got=res, want=want_codons)
    res, exc = ctx.call(lambda: [str(x) for x in c2.scan_codons(truncate_at_in_frame_stop=True)])
    wt = []
    for c in want_codons:
        wt.append(c)
        if c in FM.STOPS:
            break
    judge("cds.scan-codons", "scan_codons-truncate", res, exc, lambda r: r == wt, got=res, want=wt)

    # ---- translation ---------------------------------------------------------------------------------
    from inscripta.biocantor.gene.codon import TranslationTable

    strict_ok = all(set(c) <= set("ACGT") for c in want_codons)
    for tname in ("DEFAULT", "STANDARD", "PROKARYOTE"):
        for trunc in (False, True):
            c3 = _mk(blocks, strand, frames, genome)
            res, exc = ctx.call(c3.translate, truncate_at_in_frame_stop=trunc, translation_table=TranslationTable[tname])
            wprot = FM.translate(mseq, tname, strict=True)
            if wprot is not None and trunc:
                cut = [k for k, cc in enumerate(want_codons) if cc in FM.STOPS and k != len(want_codons) - 1]
                if cut:
                    wprot = wprot[:cut[0] + 1]
            if not strict_ok and wprot is None:
                # an ambiguous codon (not a start codon of the table): strict translation must refuse with ValueError
                first_ambig = next(k for k, cc in enumerate(want_codons) if not set(cc) <= set("ACGT") and not (k == 0 and cc in FM.STARTS[tname]))
                stop_before = trunc and any(cc in FM.STOPS and k != len(want_codons) - 1 for k, cc in enumerate(want_codons[:first_ambig]))
                if not stop_before:
                    ctx.check("cds.translate", isinstance(exc, ValueError) or (lat2 and exc is not None), key=("strict-ambiguous-refused", tname),
                              got=None if exc else str(res), exc=repr(exc)[:120])
                else:
                    # documented: truncation stops at the first in-frame stop - the untranslatable codon behind it is never read
                    k0 = next(k for k, cc in enumerate(want_codons) if cc in FM.STOPS and k != len(want_codons) - 1)
                    wpre = FM.translate("".join(want_codons[:k0 + 1]), tname, strict=True)
                    if wpre is not None:
                        judge("cds.translate", ("translate-truncated-before-ambiguous-codon", tname), res, exc, lambda r: str(r) == "".join(wpre),
                              got=None if exc else str(res), want="".join(wpre))
                continue
            judge("cds.translate", ("translate", tname, trunc), res, exc, lambda r: str(r) == "".join(wprot), got=None if exc else str(res),
                  want="".join(wprot) if wprot is not None else None)
    # one object asked with several tables in turn: every answer is the table's own (a start-codon substitution made for one table
    # must not leak into the answer for another)
    if strict_ok and mc:
        for order in (("PROKARYOTE", "DEFAULT"), ("STANDARD", "DEFAULT", "PROKARYOTE"), ("DEFAULT", "STANDARD", "DEFAULT")):
            shared = _mk(blocks, strand, frames, genome)
            for step, tname in enumerate(order):
                res, exc = ctx.call(shared.translate, False, TranslationTable[tname], True)     # flags positionally, in the documented order
                wprot = FM.translate(mseq, tname, strict=True)
                judge("cds.translate", ("same-object-table-sequence", "-".join(order), step), res, exc, lambda r: str(r) == "".join(wprot),
                      got=None if exc else str(res), want="".join(wprot))
    # non-strict
    c4 = _mk(blocks, strand, frames, genome)
    res, exc = ctx.call(c4.translate, strict=False)
    wl = FM.translate(mseq, "DEFAULT", strict=False)

    def ns_ok(r):
        s = str(r)
        if len(s) != len(wl):
            return False
        for ch, w, cc in zip(s, wl, want_codons):
            if w is not None:
                if ch != w:
                    return False
            elif ch != "X" and ch != _unanimous(cc):
                return False
        return True

    judge("cds.translate", "translate-nonstrict", res, exc, ns_ok, got=None if exc else str(res), want=wl)

    # ---- flags ---------------------------------------------------------------------------------------
    c5 = _mk(blocks, strand, frames, genome)
    if mc:
        res, exc = ctx.call(lambda: c5.has_valid_stop)
        judge("cds.flags", "has_valid_stop", res, exc, lambda r: r is (want_codons[-1] in FM.STOPS), got=res, want=want_codons[-1] in FM.STOPS)
        res, exc = ctx.call(lambda: c5.has_canonical_start_codon)
        judge("cds.flags", "has_canonical_start_codon", res, exc, lambda r: r is (want_codons[0] == "ATG"), got=res, want=want_codons[0] == "ATG")
        for tname in ("DEFAULT", "STANDARD", "PROKARYOTE"):
            res, exc = ctx.call(c5.has_start_codon_in_specific_translation_table, TranslationTable[tname])
            judge("cds.flags", ("has_start_codon", tname), res, exc, lambda r: r is (want_codons[0] in FM.STARTS[tname]), got=res, first=want_codons[0])
        if strict_ok:
            res, exc = ctx.call(lambda: c5.has_in_frame_stop)
            w = any(cc in FM.STOPS for cc in want_codons[:-1])
            judge("cds.flags", "has_in_frame_stop", res, exc, lambda r: r is w, got=res, want=w)
    else:
        ctx.seen("cds.flags")

    # ---- windows -------------------------------------------------------------------------------------
    if not PM.self_overlapping(blocks):
        lo, hi = blocks[0][0], blocks[-1][1]
        if case.get("allwin"):
            top = min(hi + 1, len(genome))  # windows stay inside the chromosome
            wins = [(s, e) for s in range(max(0, lo - 1), hi + 1) for e in range(s + 1, top + 1)]
            wins += [(None, e) for e in range(lo + 1, top + 1)] + [(s, None) for s in range(max(0, lo - 1), hi)]
        else:
            import random

            r2 = random.Random(case["gseed"] + 1)
            wins = []
            for _ in range(case.get("nwin", 10)):
                s = r2.randint(max(0, lo - 2), hi - 1)
                e = min(len(genome), r2.randint(s + 1, hi + 2))
                wins.append((s, e))
            wins += [(None, r2.randint(lo + 1, hi)), (r2.randint(lo, hi - 1), None)]
        uninterrupted0 = frames == FM.consistent_frames(blocks, strand, 0)
        cw = _mk(blocks, strand, frames, genome)
        for (ws, we) in wins:
            s_eff = lo if ws is None else ws
            e_eff = hi if we is None else we
            inside = [c for c in mc if all(s_eff <= p < e_eff for p in c)]
            res, exc = ctx.call(lambda: [_loc_positions(c) for c in cw.scan_chromosome_codon_locations(ws, we)])
            if exc is not None:
                if (not inside and _refusal(exc)) or (lat2 and type(exc).__name__ == "InvalidPositionException"):
                    ctx.seen("cds.window")
                    ctx.bump("window-refused-empty")
                else:
                    cut5 = (s_eff > lo) if strand == "+" else (e_eff < hi)
                    ctx.check("cds.window", False, key=("raised", type(exc).__name__, "1exon" if len(blocks) == 1 else "multi"),
                              window=[ws, we], exc=repr(exc)[:200], want=inside, cuts_5p=cut5)
            else:
                cut5 = (s_eff > lo) if strand == "+" else (e_eff < hi)
                ctx.check("cds.window", res == inside, key=("value", "1exon" if len(blocks) == 1 else "multi", "cut5p" if cut5 else "no-cut5p",
                                                             "frame0" if FM.frames_5to3(frames, strand)[0] == 0 else "frame12"),
                          window=[ws, we], got=res, want=inside, cuts_5p=cut5, first_frame=FM.frames_5to3(frames, strand)[0])
            if uninterrupted0:
                touching = [c for c in mc if any(s_eff <= p < e_eff for p in c)]
                if touching:
                    res, exc = ctx.call(lambda: [_loc_positions(c) for c in cw.scan_chromosome_codon_locations(ws, we, expand_window_to_partial_codons=True)])
                    ctx.check("cds.window-expand", exc is None and res == touching, key=("expand", "1exon" if len(blocks) == 1 else "multi"),
                              window=[ws, we], got=res, want=touching, exc=repr(exc)[:150] if exc else None)
    ctx.seen("cds.window")
    ctx.seen("cds.window-expand")

    # ---- construct_frames_from_location --------------------------------------------------------------
    from inscripta.biocantor.gene.cds import CDSInterval
    from inscripta.biocantor.gene.cds_frame import CDSFrame

    loc = G.build(blocks, strand)
    for f in (0, 1, 2):
        res, exc = ctx.call(CDSInterval.construct_frames_from_location, loc, CDSFrame(f))
        if exc is not None:
            ctx.check("cds.construct-frames", False, key=("raised", type(exc).__name__), f=f, exc=repr(exc)[:200])
            continue
        gotf = [x.value for x in res]
        want_c = FM.uninterrupted_codons(blocks, strand, f)
        got_c = FM.codons(blocks, strand, gotf) if len(gotf) == len(blocks) else None
        first_len = len(FM.exons_5to3(blocks, strand)[0])
        ctx.check("cds.construct-frames", got_c == want_c, key=("uninterrupted", "first-block-shorter-than-offset" if first_len < f else
                                                                ("first-block-equals-offset" if first_len == f else "plain")),
                  f=f, frames=gotf, first_block_len=first_len, got=got_c, want=want_c)

    # ---- frames given as phases ------------------------------------------------------------------------
    from inscripta.biocantor.gene.cds_frame import CDSPhase

    phases = [CDSPhase({0: 0, 1: 2, 2: 1}[f]) for f in frames]      # GFF3 column 8: phase = bases to skip = (3 - frame) % 3
    pc, exc = ctx.call(CDSInterval, [b[0] for b in blocks], [b[1] for b in blocks], GG._strand(strand), phases,
                       parent_or_seq_chunk_parent=seq_to_parent_(genome))
    if exc is not None:
        ctx.check("cds.phases", False, key=("constructor-raised", type(exc).__name__), exc=repr(exc)[:200])
    else:
        ctx.check("cds.phases", [x.value for x in pc.frames] == frames, key="frames-from-phases", got=[x.value for x in pc.frames], want=frames)
        res, exc = ctx.call(lambda: [_loc_positions(c) for c in pc.chromosome_codon_locations])
        judge("cds.phases", "codon-locations", res, exc, lambda r: r == mc, got=res, want=mc)

    # ---- optimize_blocks / optimize_and_combine_blocks: documented to keep the 5' frame and lose internal frameshifts -------------
    merged = []
    for s0, e0 in blocks:
        if merged and merged[-1][1] == s0:
            merged[-1] = (merged[-1][0], e0)
        else:
            merged.append((s0, e0))
    f0 = FM.frames_5to3(frames, strand)[0]
    want_opt = FM.uninterrupted_codons(merged, strand, f0)
    first_len = len(FM.exons_5to3(merged, strand)[0])
    for name in ("optimize_blocks", "optimize_and_combine_blocks"):
        oc = _mk(blocks, strand, frames, genome)
        res, exc = ctx.call(getattr(oc, name))
        tag = "first-block-shorter-than-offset" if first_len < f0 else "plain"
        if exc is not None:
            if not want_opt and _refusal(exc):
                ctx.seen("cds.optimize")
                continue
            ctx.check("cds.optimize", False, key=(name, "raised", type(exc).__name__, tag), exc=repr(exc)[:200], merged=merged, f=f0, first_block_len=first_len)
            continue
        gb = sorted((b.start, b.end) for b in res.chromosome_location.blocks)
        ctx.check("cds.optimize", gb == merged, key=(name, "blocks"), got=gb, want=merged)
        got_c, exc = ctx.call(lambda: [_loc_positions(c) for c in res.chromosome_codon_locations])
        if exc is not None and not want_opt and _refusal(exc):
            ctx.seen("cds.optimize")
            continue
        ctx.check("cds.optimize", exc is None and got_c == want_opt, key=(name, "codons", tag), got=got_c, want=want_opt, merged=merged, f=f0,
                  first_block_len=first_len, frames=None if exc else [x.value for x in res.frames], exc=repr(exc)[:200] if exc else None)
        if consistent and exc is None and len(FM.exons_5to3(blocks, strand)[0]) >= f0:
            # nothing to lose: the merged CDS reads exactly what the original reads (the original's 5' block holds the whole start
            # offset, so its annotation really is one uninterrupted frame)
            ctx.check("cds.optimize", got_c == mc, key=(name, "consistent-cds-unchanged"), got=got_c, want=mc)

    # ---- transcript wrappers -------------------------------------------------------------------------
    tspec = {"exons": [list(b) for b in blocks], "strand": strand, "cds": [list(b) for b in blocks], "frames": frames}
    from inscripta.biocantor.io.parser import seq_to_parent

    tx, exc = ctx.call(GG.build_transcript, tspec, seq_to_parent(genome, seq_id="chr1"))
    if exc is None:
        res, exc = ctx.call(tx.get_cds_sequence)
        judge("cds.transcript-wrappers", "get_cds_sequence", res, exc, lambda r: str(r) == mseq, got=None if exc else str(res), want=mseq)
        if strict_ok and mc:
            res, exc = ctx.call(tx.get_protein_sequence)
            wprot = FM.translate(mseq, "DEFAULT")
            judge("cds.transcript-wrappers", "get_protein_sequence", res, exc, lambda r: str(r) == "".join(wprot), got=None if exc else str(res))
    else:
        ctx.check("cds.transcript-wrappers", False, key=("constructor-raised", type(exc).__name__), exc=repr(exc)[:200])


def classify(v):
    d = v.get("detail") or {}
    case = v.get("case") or {}
    if v["monitor"] == "cds.window" and isinstance(d.get("got"), list) and isinstance(d.get("want"), list):
        # K-F1: single-exon CDS with start frame f in {1,2}; the window removes d bases from the 5' end and the
        # library adds the two offsets without reducing mod 3 (f + (-d mod 3) >= 3): exactly the first codon is lost.
        blocks = case.get("blocks") or []
        if len(blocks) == 1 and d.get("window"):
            s, e = blocks[0]
            ws, we = d["window"]
            f = int(case["frames"][0])
            dist = max(0, (ws if ws is not None else s) - s) if case["strand"] == "+" else max(0, e - (we if we is not None else e))
            if f in (1, 2) and f + ((-dist) % 3) >= 3 and d["want"] and d["got"] == d["want"][1:]:
                return "K18-single-exon-start-frame-window-cuts-5p-loses-first-codon"
    if v["monitor"] == "cds.optimize" and isinstance(d.get("first_block_len"), int) and isinstance(d.get("f"), int) and d["first_block_len"] < d["f"]:
        # optimize_blocks / optimize_and_combine_blocks rebuild the frames with construct_frames_from_location(merged, 5' frame): K13
        return "K13-construct-frames-first-block-shorter-than-offset"
    if v["monitor"] == "cds.construct-frames":
        # K13: the first (5') block is shorter than the requested start offset
        if isinstance(d.get("first_block_len"), int) and isinstance(d.get("f"), int) and d["first_block_len"] < d["f"]:
            return "K13-construct-frames-first-block-shorter-than-offset"
    return None
