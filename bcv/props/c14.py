"""C14  BED12 export is valid BED and reproduces the interval in both coordinate modes.

Oracle: bcv.models.bed12reader (independent 12-column reader) applied to str(obj.to_bed12(...)); the expected blocks,
strand, name and CDS bounds are computed from the case (plain integer arithmetic, no BioCantor code).

Monitors
  bed.exported       to_bed12 / str() answered (no exception) wherever the interval has a base in the parent
  bed.format         fields12, strand-symbol, block-count, first-start-0, starts-ascending, span, coords (one evaluation each)
  bed.thick          coding: start <= thickStart <= thickEnd <= end; non-coding: thick range empty (see latitude)
  bed.decode-blocks  decoded absolute blocks == chromosome blocks (chromosome mode) / chromosome blocks - chunk start
                     (chunk-relative mode); start/end columns == first start / last end of those blocks; containing
                     windows: chunk-relative blocks == blocks of the same object's chromosome-mode record - chunk start
  bed.decode-strand  strand column == strand symbol of the interval
  bed.decode-name    name column == str(attribute value) when `name` names an attribute, else the literal
  bed.decode-cds     coding: (thickStart, thickEnd) == CDS bounds in the coordinates of the mode
  bed.passthrough    score, itemRgb as passed; chrom == sequence_name (chromosome mode, when a sequence_name was given)

Latitude (written down so that nobody mistakes it for coverage)
  * Non-coding records (FeatureInterval, TranscriptInterval without CDS): the library writes thickStart = thickEnd = 0
    although start > 0.  The half-open thick range [0,0) is empty, denotes "no thick part", and an empty range is
    contained in every range; UCSC's own validator (kent basicBed.c: "thickStart out of range (chromStart to chromEnd, or 0
    if no CDS)") admits exactly this sentinel, and the code comments ("thickStart always 0 for non-coding") and three
    upstream tests pin it.  The monitor therefore requires, for non-coding records, an EMPTY thick range that is either
    inside [start,end] or the 0/0 sentinel (occurrences counted under counters.noncoding_thick_zero_sentinel).  For coding
    records the thick range must be inside [start,end] and equal to the CDS bounds.
  * Windows that CUT the interval are outside the property's quantifier ("windows containing the interval").  There the
    format invariants are still checked on every record produced; decoded blocks are compared with (chromosome blocks n
    window) - chunk start only when the library's own chunk_relative_location agrees with that intersection (otherwise the
    disagreement belongs to C07, counted under counters.cut_window_location_differs; same rule for the CDS bounds).  If the CDS has no base inside the
    window, any thick range that passes bed.thick and an EmptyLocationException are accepted; a window containing no exon
    base may raise EmptyLocationException.
  * Minus-strand chunks (seq_chunk_to_parent(strand=MINUS), used by no upstream test): chunk coordinates run backwards;
    blocks/CDS are compared with the mirrored model, the strand column may be the chromosome strand or the
    chunk-relative strand.
  * chunk-relative export of an interval that has no sequence-chunk ancestor (no parent / chromosome parent): the
    docstring announces NoSuchAncestorException, the code answers in chromosome coordinates; both are accepted.
  * chrom column in chunk-relative mode: sequence_name or the chunk id are both accepted; with sequence_name=None any
    token is accepted ("None" is pinned upstream).
  * Adjacent exons (gap 0): against the SPEC a merged block is accepted (covered positions compared instead of the block
    list), but the two records of one object must agree: on a window containing the interval the chunk-relative record
    carries exactly the blocks of the chromosome-mode record shifted (mirrored on a minus chunk) into chunk coordinates.
  * `name` never contains tab/newline (BED has no escaping); attribute names used: the identifiers of the class, guid,
    name, id; an attribute whose value is None is rendered "None" (pinned upstream).
"""
from bcv.gen import loc as G
from bcv.models import bed12reader as R

ID = "C14"
LEVEL = "exploration"
EXHAUSTIVE = False
RULE = (
    "small scope, complete: every layout of 1..3 non-empty exons (gaps >= 0) over GS positions placed at offset 2 of a "
    "chromosome of GS+4 bases x both strands x {FeatureInterval, non-coding TranscriptInterval, coding TranscriptInterval "
    "with every (thorough) / sampled (quick) CDS (a,b) whose ends lie in exons} x {no parent, chromosome parent "
    "(seq_to_parent), every chunk window (cs,ce) overlapping the span (seq_chunk_to_parent; containing windows decide, "
    "cutting windows with latitude), sampled minus-strand chunks} x both coordinate modes, `name` cycling through attribute "
    "names and literals; plus seeded random intervals of 1..5 exons: NALL of them on a 40-base chromosome with "
    "every containing window, the others on chromosomes of 60..3000 bases with sampled containing and cutting windows.  One signature per (class, coding, exon lengths, gaps, strand, CDS offsets, parent kind, "
    "window offsets); non-trivial = >= 2 exons or coding or minus strand or a chunk that does not start at 0."
)
SCOPE = {"quick": {"GS": 5, "K": 3, "CDS": 4, "NR": 9000, "NALL": 160},
         "thorough": {"GS": 6, "K": 3, "CDS": None, "NR": 60000, "NALL": 2400}}
EXHAUSTIVE_SCOPE = {t: f"exon layouts over {s['GS']} positions, <= {s['K']} exons, chromosome {s['GS'] + 4}, all overlapping windows"
                    for t, s in SCOPE.items()}
FLOOR = {"quick": 8000, "thorough": 100000}
REQUIRED_MONITORS = ["bed.exported", "bed.format", "bed.thick", "bed.decode-blocks", "bed.decode-strand", "bed.decode-name",
                     "bed.decode-cds", "bed.passthrough"]
REACH = [
    "inscripta.biocantor.gene.transcript:TranscriptInterval.to_bed12",
    "inscripta.biocantor.gene.feature:FeatureInterval.to_bed12",
    "inscripta.biocantor.io.bed.bed:BED12.__str__",
    "inscripta.biocantor.io.bed.bed:RGB.__str__",
    "inscripta.biocantor.io.parser:seq_to_parent",
    "inscripta.biocantor.io.parser:seq_chunk_to_parent",
]
REACH_REQUIRED = REACH
ASSUMPTIONS = [
    "oracle: independent BED12 reader bcv/models/bed12reader.py (self-tested on the UCSC FAQ line and the upstream test lines)",
    "expected blocks / CDS bounds are integer arithmetic on the case (chromosome blocks, minus chunk start; mirrored for minus chunks)",
    "parents are built with io.parser.seq_to_parent / seq_chunk_to_parent exactly as the documentation prescribes",
    "non-coding records: an empty thick range (thickStart == thickEnd, incl. the 0/0 sentinel) counts as inside [start,end]",
]
OFF = 2
FORMAT_INVARIANTS = ("fields12", "strand-symbol", "block-count", "first-start-0", "starts-ascending", "span", "coords")
TX_NAMES = ["transcript_symbol", "lit:my transcript 7", "guid", "transcript_id", "name", "protein_id", "feature_name", "id",
            "product", "lit:tx-42", "lit:" + "long-transcript-name-" * 40]
FT_NAMES = ["feature_name", "lit:promoter|a b", "guid", "feature_id", "name", "transcript_symbol", "id", "lit:f.9", "lit:" + "Lf" * 333]


def selftest():
    from bcv.core import HarnessError

    try:
        R.selftest()
        # the models of this module on literal values (documentation of seq_chunk_to_parent: chunk 10-60 of chrX)
        assert _chunk_blocks([(12, 15), (20, 25)], (10, 60, "+")) == [(2, 5), (10, 15)]
        assert _chunk_blocks([(12, 15), (20, 25)], (10, 60, "-")) == [(35, 40), (45, 48)]
        assert _chunk_blocks([(12, 15), (20, 25)], (14, 22, "+")) == [(0, 1), (6, 8)]
        assert _cds_blocks([(2, 6), (7, 10), (12, 15)], (4, 13)) == [(4, 6), (7, 10), (12, 13)]
        assert _frames([(4, 6), (7, 10), (12, 13)], "+") == [0, 2, 2]  # tests/io/bed/test_bed.py tx2
    except AssertionError as e:
        raise HarnessError(f"C14 oracle self-test: {e!r}")


# ------------------------------------------------------------------------------------------ models (no BioCantor code)
def _chunk_blocks(blocks, window):
    """Chromosome blocks restricted to the window, in chunk coordinates, ascending."""
    cs, ce, cst = window
    out = []
    for s, e in blocks:
        s2, e2 = max(s, cs), min(e, ce)
        if e2 > s2:
            out.append((s2 - cs, e2 - cs) if cst != "-" else (ce - e2, ce - s2))
    return sorted(out)


def _cds_blocks(blocks, cds):
    """cds = [a, b] or [a, b, nest]: the exon blocks clipped to [a, b); with nest, one more CDS block nested inside the longest of them
    and listed LAST among blocks with the same start order (overlapping CDS blocks model a -1 frameshift; bounds are min / max)."""
    a, b = cds[0], cds[1]
    out = [(max(s, a), min(e, b)) for s, e in blocks if min(e, b) > max(s, a)]
    if len(cds) > 2 and cds[2]:
        s0, e0 = max(out, key=lambda x: x[1] - x[0])
        if e0 - s0 >= 3:
            out.append((s0 + 1, e0 - 1))
            out.sort()
    return out


def _frames(cds_blocks, strand, off=0):
    """Frame of each CDS block (plus-strand block order) for a reading frame that skips `off` bases of the 5' block."""
    order = list(reversed(cds_blocks)) if strand == "-" else list(cds_blocks)
    fr, cum = [], 0
    for k, (s, e) in enumerate(order):
        if k == 0:
            fr.append(off % 3)
            cum = max(0, e - s - off)
        else:
            fr.append(cum % 3)
            cum += e - s
    return list(reversed(fr)) if strand == "-" else fr


def _covered(blocks):
    return sorted(p for s, e in blocks for p in range(s, e))


def _cds_choices(blocks):
    pos = _covered(blocks)
    return [(a, b + 1) for i, a in enumerate(pos) for b in pos[i:]]


def _windows_all(blocks, length, step=1):
    s0, e0 = blocks[0][0], blocks[-1][1]
    return [[cs, ce, "+"] for cs in range(0, e0, step) for ce in range(max(cs, s0) + 1, length + 1, step) if ce > cs]


def _genome(n):
    return ("ACGTTGCAGA" * (n // 10 + 1))[:n]


# ------------------------------------------------------------------------------------------------------------ workload
def _ids(cls, k):
    if cls == "tx":
        return {"transcript_symbol": ["sym%d" % k, None, "Abc-1"][k % 3], "transcript_id": [None, "ENST%05d.1" % k][k % 2],
                "protein_id": ["prot_%d" % k, None][k % 2], "product": ["hypothetical protein", None, "kinase 7"][k % 3]}
    return {"feature_name": ["feat%d" % k, None, "site_A"][k % 3], "feature_id": [None, "F:%d" % k][k % 2]}


def cases(spec, ctx):
    i, n = spec["i"], spec["n"]
    sc = SCOPE[ctx.tier]
    rng = ctx.rng
    gs, length = sc["GS"], sc["GS"] + 2 * OFF
    idx = 0
    for lay in G.enum_layouts(gs, sc["K"]):
        if any(e <= s for s, e in lay):
            continue
        blocks = [[s + OFF, e + OFF] for s, e in lay]
        for strand in ("+", "-"):
            idx += 1
            if idx % n != i:
                continue
            k = idx // n
            common = {"kind": "small", "blocks": blocks, "strand": strand, "genome": length, "windows": "all",
                      "seqname": ["chrX", None][k % 2], "score": [0, 1000, 37][k % 3], "rgb": [[0, 0, 0], [255, 0, 128]][k % 2],
                      "minus_windows": [[rng.randint(0, blocks[0][0]), rng.randint(blocks[-1][1], length), "-"]]}
            yield dict(common, cls="feat", cds=None, ids=_ids("feat", k), name0=k)
            yield dict(common, cls="tx", cds=None, ids=_ids("tx", k), name0=k + 1)
            choices = _cds_choices(blocks)
            if sc["CDS"] is not None and len(choices) > sc["CDS"]:
                choices = rng.sample(choices, sc["CDS"])
            for j, cds in enumerate(choices):
                yield dict(common, cls="tx", cds=list(cds), ids=_ids("tx", k + j), name0=k + j, off=(k + j) % 3)
    thorough = ctx.tier == "thorough"
    nall = sc["NALL"] // n + 1
    for r in range(sc["NR"] // n + 1):
        length = 40 if r < nall else rng.choice([60, 400, 3000])
        nb = rng.randint(1, 5)
        if r >= nall and r % 25 == 7:
            # scale: 17..70 blocks, chromosomes of up to 200 kb
            length = rng.choice([3000, 3000, 200000])
            nb = rng.choice([rng.randint(17, 70), rng.randint(64, 140), rng.randint(129, 220)])
        lo = rng.randint(0, length - 2 * nb - 1)
        hi = rng.randint(lo + 2 * nb, min(length, lo + max(2 * nb, rng.choice([12, 40, 300, 3000]))))
        cuts = sorted(rng.sample(range(lo, hi + 1), 2 * nb))
        if nb > 1 and rng.random() < 0.2:  # adjacent exons
            j = rng.randrange(1, nb)
            cuts[2 * j] = cuts[2 * j - 1]
        if nb > 16:                       # many blocks: a few more abutting pairs
            for j in rng.sample(range(1, nb), 3):
                cuts[2 * j] = cuts[2 * j - 1]
        blocks = [[cuts[2 * j], cuts[2 * j + 1]] for j in range(nb)]
        cls = rng.choice(["tx", "tx", "feat"])
        strand = rng.choice("+-") if cls == "tx" or rng.random() < 0.85 else "."
        cds = None
        if cls == "tx" and rng.random() < 0.65:
            pos = _covered(blocks)
            a = rng.choice(pos)
            b = rng.choice([p for p in pos if p >= a]) + 1
            cds = [a, b, rng.random() < 0.15]
        s0, e0 = blocks[0][0], blocks[-1][1]
        if r < nall:  # every window that contains the interval, on a 40-base chromosome
            windows = "containing"
        else:
            windows = []
            for _ in range(8 if thorough else 5):  # containing
                windows.append([rng.choice([0, s0, rng.randint(0, s0)]), rng.choice([length, e0, rng.randint(e0, length)]), "+"])
            for _ in range(5 if thorough else 3):  # cutting / arbitrary overlapping
                cs = rng.randint(0, e0 - 1)
                windows.append([cs, rng.randint(max(cs, s0) + 1, length), "+"])
        yield {"kind": "random", "cls": cls, "blocks": blocks, "strand": strand, "cds": cds, "genome": length, "windows": windows,
               "minus_windows": [[rng.randint(0, s0), rng.randint(e0, length), "-"]],
               "seqname": rng.choice(["chr1", "NC_000913.3", None]), "score": rng.randint(0, 1000),
               "rgb": [rng.randint(0, 255) for _ in range(3)], "ids": _ids(cls, r), "name0": rng.randrange(100), "off": rng.choice([0, 0, 1, 2])}


# ------------------------------------------------------------------------------------------------------------- running
def _build(case, blocks, parent):
    from inscripta.biocantor.gene import TranscriptInterval, FeatureInterval, CDSFrame

    st = G.strand_of(case["strand"])
    starts, ends = [b[0] for b in blocks], [b[1] for b in blocks]
    if case["cls"] == "feat":
        return FeatureInterval(starts, ends, st, sequence_name=case["seqname"], parent_or_seq_chunk_parent=parent, **case["ids"])
    kw = {}
    if case["cds"] is not None:
        cb = _cds_blocks(blocks, case["cds"])
        kw = {"cds_starts": [b[0] for b in cb], "cds_ends": [b[1] for b in cb],
              "cds_frames": [CDSFrame(f) for f in _frames(cb, case["strand"], case.get("off", 0))]}
    return TranscriptInterval(starts, ends, st, sequence_name=case["seqname"], parent_or_seq_chunk_parent=parent, **case["ids"], **kw)


def _parent(case, window):
    from inscripta.biocantor.io.parser import seq_to_parent, seq_chunk_to_parent

    if window is None:
        return None
    if window == "chrom":
        return seq_to_parent(_genome(case["genome"]), seq_id=case["seqname"] or "chrX")
    cs, ce, cst = window
    return seq_chunk_to_parent(_genome(case["genome"])[cs:ce], case["seqname"] or "chrX", cs, ce, strand=G.strand_of(cst))


def _expected_name(obj, case, name):
    if name.startswith("lit:"):
        return name[4:], name[4:]
    ids = case["ids"]
    if name in ids:
        return name, str(ids[name])
    if name == "guid":
        return name, str(obj.guid)
    if name == "name":
        return name, str(ids["transcript_symbol" if case["cls"] == "tx" else "feature_name"])
    if name == "id":
        return name, str(ids["transcript_id" if case["cls"] == "tx" else "feature_id"])
    return name, name  # an identifier of the other class: not an attribute here, used literally


def _library_chunk_blocks(obj):
    try:
        return sorted((b.start, b.end) for b in obj.chunk_relative_location.blocks)
    except Exception:  # noqa: BLE001 - only used to decide whether a cut-window comparison is meaningful
        return None


def _one_parent(case, ctx, blocks, window, pidx):
    """Build the object on one parent and check both export modes."""
    from inscripta.biocantor.exc import EmptyLocationException, NoSuchAncestorException
    from inscripta.biocantor.io.bed import RGB, BED12

    cls, strand, cds = case["cls"], case["strand"], case["cds"]
    s0, e0 = blocks[0][0], blocks[-1][1]
    chunk = window not in (None, "chrom")
    containing = (not chunk) or (window[0] <= s0 and e0 <= window[1])
    minus_chunk = chunk and window[2] == "-"
    adjacent = any(blocks[j][1] == blocks[j + 1][0] for j in range(len(blocks) - 1))
    pk = "none" if window is None else ("chromosome" if window == "chrom" else
                                        ("chunk-minus" if minus_chunk else ("chunk-containing" if containing else "chunk-cutting")))
    lens, gaps, _ = G.layout_signature(blocks, strand)
    wsig = (window[0] - s0, window[1] - e0) if chunk else None
    ctx.note((cls, tuple(lens), tuple(gaps), strand, (cds[0] - s0, cds[1] - s0) if cds else None, pk, wsig),
             nontrivial=len(blocks) >= 2 or cds is not None or strand == "-" or (chunk and window[0] > 0),
             klass=f"{cls}-{'coding' if cds else 'noncoding'}-{pk}")

    obj = _build(case, blocks, _parent(case, window))
    names = TX_NAMES if cls == "tx" else FT_NAMES
    name_arg, want_name = _expected_name(obj, case, names[(case["name0"] + pidx) % len(names)])
    rgb = tuple(case["rgb"])
    chrom_export_blocks = None  # blocks decoded from this object's chromosome-mode record
    for chrom_mode in (True, False):
        mode = "chromosome" if chrom_mode else "chunk-relative"
        if chrom_mode or not chunk:
            want_blocks = [tuple(b) for b in blocks]
            want_cds = tuple(cds[:2]) if cds else None
            cds_inside = True
        else:
            want_blocks = _chunk_blocks(blocks, window)
            cb = _chunk_blocks(_cds_blocks(blocks, cds), window) if cds else []
            want_cds = (min(x[0] for x in cb), max(x[1] for x in cb)) if cb else None
            cds_inside = bool(cb) or not cds
        cds_in_window = (not chunk) or containing or not cds or bool(_chunk_blocks(_cds_blocks(blocks, cds), window))
        key = (cls, mode, pk)
        default_call = pidx % 4 == 0 and chrom_mode
        if default_call:  # the documented defaults: name = transcript_symbol / feature_name, score 0, rgb 0,0,0
            bed, exc = ctx.call(obj.to_bed12)
            w_name = str(case["ids"]["transcript_symbol" if cls == "tx" else "feature_name"])
            w_score, w_rgb = 0, (0, 0, 0)
        else:
            # (on objects with sequence every other export is preceded by reading the spliced sequence of the SAME object - an export is a
            # function of the object, not of what was asked before)
            flag = chrom_mode      # always a bool: the library itself tests flags by identity (`is True` / `is False`) in several places
            if (pidx + case["score"]) % 2 == 0:
                ctx.call(lambda: str(obj.get_spliced_sequence()))
            bed, exc = ctx.call(obj.to_bed12, score=case["score"], rgb=RGB(*rgb), name=name_arg, chromosome_relative_coordinates=flag)
            w_name, w_score, w_rgb = want_name, case["score"], rgb
        text = None
        if exc is None:
            text, exc = ctx.call(str, bed)
        if exc is not None:
            excused = (not containing) and isinstance(exc, EmptyLocationException) and (not want_blocks or not cds_in_window)
            if excused:
                ctx.bump("cut_window_empty_location_refused")
            elif not chunk and not chrom_mode and isinstance(exc, NoSuchAncestorException):
                ctx.bump("chunk_mode_without_chunk_refused")  # what the docstring of to_bed12 announces
            else:
                ctx.check("bed.exported", False, key=key + (type(exc).__name__,), window=window, exc=repr(exc)[:200])
            continue
        ctx.check("bed.exported", isinstance(bed, BED12) and isinstance(text, str), key=key + ("type",), window=window, got=repr(bed)[:200])
        rec, problems = R.decode(text)
        pnames = {p for p, _ in problems}
        for inv in FORMAT_INVARIANTS:
            ctx.check("bed.format", inv not in pnames, key=(inv,) + key, window=window, text=text,
                      problems=[m for p, m in problems if p == inv])
        if rec is None:
            continue
        coding_record = cds is not None and cds_in_window
        ts, te = rec["thick_start"], rec["thick_end"]
        if coding_record:
            ctx.check("bed.thick", "thick-inside" not in pnames, key=("coding-inside",) + key, window=window, text=text)
        else:
            # latitude: no thick part = an empty thick range, either inside [start,end] or the 0/0 sentinel ("chromStart to
            # chromEnd, or 0 if no CDS" is the rule of UCSC's own validator); a cut-away CDS may also keep its bounds
            ok = (ts == te and (ts == 0 or "thick-inside" not in pnames)) or (cds is not None and "thick-inside" not in pnames)
            ctx.check("bed.thick", ok, key=("noncoding-empty",) + key, window=window, text=text)
            if ts == te == 0 and rec["start"] > 0:
                ctx.bump("noncoding_thick_zero_sentinel")
        # ---- decoded content
        compare_blocks = True
        compare_cds = True
        if chunk and not chrom_mode and not containing:
            compare_blocks = bool(want_blocks) and _library_chunk_blocks(obj) == want_blocks
            if not compare_blocks:
                ctx.bump("cut_window_location_differs")
            if cds is not None and want_cds is not None:
                compare_cds = _library_chunk_blocks(obj.cds) == _chunk_blocks(_cds_blocks(blocks, cds), window)
                if not compare_cds:
                    ctx.bump("cut_window_cds_location_differs")
        if compare_blocks:
            got = [tuple(b) for b in rec["blocks"]]
            ok = (_covered(got) == _covered(want_blocks)) if adjacent else (got == want_blocks)
            ok = ok and bool(want_blocks) and (rec["start"], rec["end"]) == (want_blocks[0][0], want_blocks[-1][1])
            ctx.check("bed.decode-blocks", ok, key=key, window=window, text=text, got=got, want=want_blocks,
                      decoded_if_starts_were_taken_from_chromosome_start=[(want_blocks[0][0] + s - s0, want_blocks[0][0] + e - s0)
                                                                          for s, e in want_blocks] if want_blocks else None)
        if chrom_mode:
            chrom_export_blocks = [tuple(b) for b in rec["blocks"]]
        elif containing and chrom_export_blocks is not None:
            # same object, same interval: the chunk-relative record must carry, block for block, the blocks of the
            # chromosome-mode record moved into chunk coordinates (no merged-block latitude between the two modes)
            same = _chunk_blocks(chrom_export_blocks, window) if chunk else chrom_export_blocks
            got = [tuple(b) for b in rec["blocks"]]
            ctx.check("bed.decode-blocks", got == same, key=("same-blocks-as-chromosome-export",) + key, window=window, text=text,
                      got=got, chromosome_export_in_chunk_coordinates=same)
        want_strands = {strand}
        if minus_chunk and not chrom_mode:
            want_strands.add({"+": "-", "-": "+", ".": "."}[strand])
        ctx.check("bed.decode-strand", rec["strand"] in want_strands, key=key, window=window, text=text, want=sorted(want_strands))
        nkey = "default" if default_call else (name_arg if name_arg in names else "literal")
        ctx.check("bed.decode-name", rec["name"] == w_name, key=key + (nkey,), name_arg=None if default_call else name_arg,
                  got=rec["name"], want=w_name, text=text)
        if coding_record and cds_inside and want_cds is not None and compare_cds:
            ctx.check("bed.decode-cds", (ts, te) == want_cds, key=key, window=window, text=text, got=[ts, te], want=list(want_cds))
        ok_chrom = True
        if case["seqname"] is not None:
            allowed = {case["seqname"]}
            if chunk and not chrom_mode:
                allowed.add(f"{case['seqname']}:{window[0]}-{window[1]}")
            ok_chrom = rec["chrom"] in allowed
        rgb_got = rec["rgb"] if len(rec["rgb"]) == 3 else rec["rgb"] * 3
        ctx.check("bed.passthrough", rec["score"] == w_score and rgb_got == tuple(w_rgb) and ok_chrom, key=key, text=text,
                  want_score=w_score, want_rgb=list(w_rgb), seqname=case["seqname"])


def run_case(case, ctx):
    if case.get("kind") not in ("small", "random"):
        from bcv.core import HarnessError

        raise HarnessError(f"unknown kind {case.get('kind')}")
    blocks = [tuple(b) for b in case["blocks"]]
    windows = case["windows"]
    if windows == "all":
        windows = _windows_all(blocks, case["genome"])
    elif windows == "containing":
        windows = [[cs, ce, "+"] for cs in range(blocks[0][0] + 1) for ce in range(blocks[-1][1], case["genome"] + 1)]
    plist = [None, "chrom"] + [list(w) for w in windows] + [list(w) for w in case.get("minus_windows", [])]
    for pidx, window in enumerate(plist):
        _one_parent(case, ctx, blocks, window, pidx)


def classify(v):
    return None
