"""C01  Location <-> parent coordinate maps are exact, mutually inverse and strand-aware.

Reference model: bcv.models.posmodel (position list P in 5'->3' order).  Monitors:
  map.rel-to-parent          relative_to_parent_pos(i) == P[i]; i outside [0,len) rejected
  map.parent-to-rel          P[parent_to_relative_pos(p)] == p for p in P; p not in P rejected (span +-1 probed)
  map.rel-interval           enum(relative_interval_to_parent_location(s,e,r)) == P[s:e] (reversed for r='-'),
                             strand == strand o r; zero-width requests answered with an empty location
  map.parent-location        enum(parent_to_relative_location(Q)) == [index(p) for p in enum(Q) if p in P], strand
                             Q.strand o L.strand; LocationOverlapException iff no shared base; both optimize_blocks modes
  map.feature-wrappers       FeatureInterval.sequence_pos_to_feature / feature_pos_to_sequence / *_interval_* agree
  map.derived                locations derived from an already used location (reverse_strand, reset_strand, reverse,
                             shift_position) obey the point maps of their own (blocks, strand)
"""
from bcv.gen import loc as G
from bcv.models import posmodel as PM

ID = "C01"
LEVEL = "exploration"
EXHAUSTIVE = False
RULE = (
    "exhaustive: every sorted layout of 1..3 blocks (lengths and gaps incl. 0) over a genome of GQ positions x both "
    "strands x every relative position x every (start,end,relative strand) sub-interval x every parent position in "
    "span+-1; every ordered pair (location, query) of <=2-block layouts over a genome of GP positions x strands x "
    "optimize_blocks; seeded random layouts (1..6 blocks, genome<=300, 20% with mutually overlapping blocks). "
    "Non-trivial = distinct (block lengths, gaps, strand) shape with >=2 non-empty blocks, or minus strand, or an "
    "empty block; for pairs the pair of shapes plus relation."
)
SCOPE = {"quick": {"G1": 8, "K1": 3, "G2": 5, "K2": 2, "NR": 6000}, "thorough": {"G1": 11, "K1": 3, "G2": 7, "K2": 2, "NR": 80000}}
EXHAUSTIVE_SCOPE = {t: f"layouts: genome {s['G1']}, <= {s['K1']} blocks; pairs: genome {s['G2']}, <= {s['K2']} blocks" for t, s in SCOPE.items()}
FLOOR = {"quick": 1500, "thorough": 5000}
REQUIRED_MONITORS = ["map.rel-to-parent", "map.parent-to-rel", "map.rel-interval", "map.parent-location", "map.feature-wrappers", "map.derived"]
REACH = [
    "inscripta.biocantor.location.location_impl:SingleInterval.relative_to_parent_pos",
    "inscripta.biocantor.location.location_impl:SingleInterval.parent_to_relative_pos",
    "inscripta.biocantor.location.location_impl:SingleInterval.relative_interval_to_parent_location",
    "inscripta.biocantor.location.location_impl:SingleInterval._location_relative_to",
    "inscripta.biocantor.location.location_impl:CompoundInterval.relative_to_parent_pos",
    "inscripta.biocantor.location.location_impl:CompoundInterval.parent_to_relative_pos",
    "inscripta.biocantor.location.location_impl:CompoundInterval.relative_interval_to_parent_location",
    "inscripta.biocantor.location.location_impl:CompoundInterval._location_relative_to",
    "inscripta.biocantor.location.location:Location.parent_to_relative_location",
]
REACH_REQUIRED = REACH
ASSUMPTIONS = ["oracle: position-list model (bcv/models/posmodel.py), built without BioCantor code"]
WATCHDOG = {"quick": 1200, "thorough": 3 * 3600}


def selftest():
    from bcv.core import HarnessError

    try:
        PM.selftest()
    except AssertionError as e:
        raise HarnessError(f"posmodel self-test: {e!r}")


def cases(spec, ctx):
    i, n = spec["i"], spec["n"]
    sc = SCOPE[ctx.tier]
    idx = 0
    modes = ("none", "seq")
    for blocks in G.enum_layouts(sc["G1"], sc["K1"]):
        for strand in ("+", "-"):
            idx += 1
            if idx % n != i:
                continue
            yield {"kind": "layout", "blocks": blocks, "strand": strand, "parent": modes[idx // n % 2], "genome": sc["G1"],
                   "compound": bool((idx // n) % 3 == 0)}
    lay2 = list(G.enum_layouts(sc["G2"], sc["K2"]))
    idx = 0
    for lb in lay2:
        for ls in ("+", "-"):
            idx += 1
            if idx % n != i:
                continue
            yield {"kind": "pairs", "blocks": lb, "strand": ls, "genome": sc["G2"], "kmax": sc["K2"], "parent": modes[idx // n % 2]}
    rng = ctx.rng
    for k in range(sc["NR"] // n + 1):
        g = rng.choice([12, 30, 80, 300])
        ov = rng.random() < 0.2
        blocks = G.rand_layout(rng, g, 6, overlap=ov)
        qblocks = G.rand_layout(rng, g, 4, overlap=(rng.random() < 0.15))
        yield {"kind": "random", "blocks": blocks, "strand": rng.choice("+-"), "genome": g, "parent": rng.choice(modes),
               "q": qblocks, "qstrand": rng.choice("+-."), "seed": rng.randrange(1 << 30)}
    # scale legs (own stream): many blocks (strategies that switch by block count), and coordinates far beyond 2^31 / 2^53
    # (sequence-less locations: nothing in the property bounds the magnitude of a coordinate)
    srng = __import__("random").Random(f"C01-scale:{ctx.seed}:{i}")
    for k in range(sc["NR"] // (8 * n) + 1):
        g = srng.choice([1000, 3000, 6000])
        ov = srng.random() < 0.3
        nb = srng.choice([srng.randint(9, 30), srng.randint(17, 40), srng.randint(33, 70), srng.randint(64, 150), srng.randint(129, 300)])
        blocks = ()
        while len(blocks) < 9:
            blocks = G.rand_layout(srng, g, nb, overlap=ov)
        qblocks = G.rand_layout(srng, g, srng.choice([1, 4, 12]), overlap=False)
        if k % 2 and not ov:
            # roles swapped: a window (1..2 blocks) whose edges fall inside blocks of a many-block QUERY (a transcript lifted onto a chunk)
            inner = [b for b in blocks if b[1] - b[0] >= 2]
            if len(inner) >= 2:
                b1, b2 = sorted(srng.sample(inner, 2))
                win = ((srng.randint(b1[0] + 1, b1[1] - 1), srng.randint(b2[0] + 1, b2[1] - 1)),)
                blocks, qblocks = win, blocks
        if k % 4 == 3:
            # nested layout: one enclosing block with many short blocks inside it; the query's blocks lie in the enclosing block only, each
            # behind one of the short blocks (many x many blocks, and only the enclosing block overlaps the query)
            m = srng.choice([12, 20, 41, 61, 120])
            step = srng.choice([12, 20])
            blocks = tuple(sorted([(0, step * m + step)] + [(step * j + srng.randint(2, 5), step * j + srng.randint(6, 8)) for j in range(m)]))
            picks = sorted(srng.sample(range(m), min(m, srng.choice([1, 4, 12, 30, 60]))))
            qblocks = tuple((step * j + 9, step * j + 11) for j in picks)
            g = step * m + step
        yield {"kind": "random", "blocks": blocks, "strand": srng.choice("+-"), "genome": g, "parent": srng.choice(modes),
               "q": qblocks, "qstrand": srng.choice("+-."), "seed": srng.randrange(1 << 30), "scale": "many-blocks"}
    for k in range(sc["NR"] // (8 * n) + 1):
        g = srng.choice([12, 30, 80])
        off = srng.choice([(1 << 31) - 5, (1 << 31) + 7, (1 << 32) - 3, (1 << 53) + 11, 10 ** 12, (1 << 63) - 100])
        blocks = tuple((s + off, e + off) for s, e in G.rand_layout(srng, g, 5, overlap=srng.random() < 0.2))
        qblocks = tuple((s + off, e + off) for s, e in G.rand_layout(srng, g, 3, overlap=False))
        yield {"kind": "random", "blocks": blocks, "strand": srng.choice("+-"), "genome": g + off, "parent": "none",
               "q": qblocks, "qstrand": srng.choice("+-."), "seed": srng.randrange(1 << 30), "scale": "huge-coordinates"}


REJECT = None


def _reject_types():
    global REJECT
    if REJECT is None:
        from inscripta.biocantor.exc import BioCantorException

        REJECT = (BioCantorException, ValueError)
    return REJECT


def _mk(case, blocks, strand, force_compound=False):
    parent = G.make_parent(case.get("parent", "none"), genome="A" * (case["genome"] + 2) if case.get("parent") == "seq" else None)
    return G.build(blocks, strand, parent=parent, force_compound=force_compound)


def _enum(loc):
    r = PM.read_location(loc)
    if r is None:
        return [], None
    blocks, st = r
    return PM.positions(blocks, st), st


def check_point_maps(ctx, loc, P, span, overlapping):
    rej = _reject_types()
    n = len(P)
    for i in range(n):
        r, e = ctx.call(loc.relative_to_parent_pos, i)
        ctx.check("map.rel-to-parent", e is None and r == P[i], key="value", i=i, got=r, want=P[i], exc=repr(e) if e else None)
    for i in (-1, n, n + 1):
        r, e = ctx.call(loc.relative_to_parent_pos, i)
        ctx.check("map.rel-to-parent", isinstance(e, rej), key="reject", i=i, length=n, got=r, exc=repr(e) if e else None)
    pset = set(P)
    for p in range(span[0] - 1, span[1] + 2):
        r, e = ctx.call(loc.parent_to_relative_pos, p)
        if p in pset:
            ok = e is None and isinstance(r, int) and 0 <= r < n and P[r] == p
            ctx.check("map.parent-to-rel", ok, key="inverse", p=p, got=r, exc=repr(e) if e else None)
        else:
            ctx.check("map.parent-to-rel", isinstance(e, rej), key="reject-outside", p=p, got=r, exc=repr(e) if e else None)


def check_rel_interval(ctx, loc, P, lstrand, s, e, r, overlapping):
    from collections import Counter

    res, exc = ctx.call(loc.relative_interval_to_parent_location, s, e, G.strand_of(r))
    want = P[s:e]
    if exc is not None:
        at_3p = (s == e == len(P))
        ctx.check("map.rel-interval", False, key=("raised", "zero-width-at-3p-end" if at_3p else ("zero-width" if s == e else "non-empty"),
                                                 type(loc).__name__, type(exc).__name__),
                  s=s, e=e, r=r, length=len(P), exc=repr(exc)[:200], cls=type(loc).__name__)
        return
    if s == e:
        ctx.check("map.rel-interval", len(res) == 0, key="zero-width-len", s=s, e=e, r=r, got=repr(res))
        return
    got, gst = _enum(res)
    wst = PM.compose_strand(lstrand, r)
    if r == "-":
        want = want[::-1]
    if wst == "." or overlapping:
        ok = Counter(got) == Counter(want) if not overlapping or not PM.self_overlapping([(b.start, b.end) for b in res.blocks]) else set(got) == set(want)
        if overlapping:
            ok = set(got) == set(want) and len(got) >= len(set(want))
    else:
        ok = got == want
    ctx.check("map.rel-interval", ok and gst == wst, key=("value", "overlapping" if overlapping else "plain"), s=s, e=e, r=r, got=got, want=want,
              got_strand=gst, want_strand=wst)


def check_parent_location(ctx, loc, P, lstrand, qloc, Q, qstrand, l_overlapping, q_overlapping):
    from inscripta.biocantor.exc import LocationOverlapException
    from collections import Counter

    pset = set(P)
    shared = [p for p in Q if p in pset]
    for opt in (True, False):
        res, exc = ctx.call(loc.parent_to_relative_location, qloc, optimize_blocks=opt)
        if not shared:
            ctx.check("map.parent-location", isinstance(exc, LocationOverlapException), key="no-overlap-refused", opt=opt,
                      got=repr(res), exc=repr(exc) if exc else None)
            continue
        if exc is not None:
            ctx.check("map.parent-location", False, key=("raised", type(exc).__name__), opt=opt, exc=repr(exc)[:200])
            continue
        got, gst = _enum(res)
        wst = PM.compose_strand(qstrand, lstrand)
        if l_overlapping or q_overlapping:
            # a doubly covered base has two preimages (either accepted); only the image is compared
            ok = all(0 <= i < len(P) for i in got) and {P[i] for i in got if 0 <= i < len(P)} == set(shared)
        else:
            want = [P.index(p) for p in shared]
            ok = (sorted(got) == sorted(want)) if wst == "." else (got == want)
            if not opt:
                ok = ok and Counter(got) == Counter(want)
        ctx.check("map.parent-location", ok and gst == wst, key=("value", "opt" if opt else "noopt", "overlapping" if (l_overlapping or q_overlapping) else "plain"),
                  opt=opt, got=got, got_strand=gst, want_strand=wst, shared=shared)


def _wrapper_parents(blocks, genome):
    """(label, parent) for the feature wrappers: no parent, the whole chromosome, and sequence chunks that hold the feature, cut it, or lie
    next to it (nothing of the feature is on that chunk: its chromosome coordinates still hold).  Two of the four parented modes per layout,
    chosen by the content."""
    from inscripta.biocantor.io.parser import seq_chunk_to_parent, seq_to_parent

    lo, hi = min(b[0] for b in blocks), max(b[1] for b in blocks)
    glen = max(genome, hi) + 2
    seq = ("ACGTTGCAAGGCTTAACCGGATATCGCG" * (glen // 28 + 1))[:glen]
    modes = [("chromosome", lambda: seq_to_parent(seq, seq_id="chr1"))]

    def chunk(cs, ce):
        return lambda: seq_chunk_to_parent(seq[cs:ce], "chr1", cs, ce)

    modes.append(("chunk-holds", chunk(max(0, lo - 1), min(glen, hi + 1))))
    if hi - lo >= 2:
        modes.append(("chunk-cuts", chunk(lo + 1, hi - (1 if hi - lo >= 3 else 0))))
    if lo >= 1:
        modes.append(("chunk-beside", chunk(0, lo)))
    elif hi < glen:
        modes.append(("chunk-beside", chunk(hi, glen)))
    r = (sum(b[0] + b[1] for b in blocks) + len(blocks)) % len(modes)
    yield "none", None
    for label, mk in (modes[r:] + modes[:r])[:2]:
        yield label, mk()


def check_feature_wrappers(ctx, blocks, strand, P, genome=0):
    from inscripta.biocantor.gene import FeatureInterval

    if not P:
        return
    n = len(P)
    for label, parent in _wrapper_parents(blocks, genome):
        ft, exc = ctx.call(FeatureInterval, [b[0] for b in blocks], [b[1] for b in blocks], G.strand_of(strand), parent_or_seq_chunk_parent=parent)
        if exc is not None:
            ctx.check("map.feature-wrappers", False, key=("construct", label), exc=repr(exc)[:200])
            continue
        ok = True
        bad = None
        for i in range(n):
            a, e1 = ctx.call(ft.feature_pos_to_sequence, i)
            b, e2 = ctx.call(ft.sequence_pos_to_feature, P[i])
            if e1 or e2 or a != P[i] or b != i:
                ok, bad = False, ("point", i, a, b, repr(e1 or e2))
        ctx.check("map.feature-wrappers", ok, key=("points", label), bad=bad)
        for (s, e) in ((0, n), (0, 1), (n - 1, n), (n // 3, max(n // 3 + 1, 2 * n // 3))):
            res, exc = ctx.call(ft.feature_interval_to_sequence, s, e, G.strand_of("+"))
            got = _enum(res)[0] if exc is None else None
            ctx.check("map.feature-wrappers", got == P[s:e], key=("interval-to-seq", label), s=s, e=e, got=got, want=P[s:e], exc=repr(exc) if exc else None)
        lo, hi = min(P), max(P) + 1
        res, exc = ctx.call(ft.sequence_interval_to_feature, lo, hi, G.strand_of("+"))
        got = sorted(_enum(res)[0]) if exc is None else None
        ctx.check("map.feature-wrappers", got == list(range(n)), key=("seq-interval-to-feature", label), got=got, n=n, exc=repr(exc) if exc else None)


def check_derived(ctx, loc, blocks, strand, ov):
    """Locations derived from `loc` AFTER it has been used (its lazily built block list exists) are locations in their
    own right: their point maps and sub-interval conversion must follow their own (blocks, strand)."""
    _ = loc.blocks  # the source has materialised its blocks by now anyway; make it explicit
    rs = {"+": "-", "-": "+"}[strand]
    span = (min(b[0] for b in blocks), max(b[1] for b in blocks))
    derived = [("reverse_strand", lambda: loc.reverse_strand(), blocks, rs),
               ("reset_strand-opposite", lambda: loc.reset_strand(G.strand_of(rs)), blocks, rs),
               ("reset_strand-same", lambda: loc.reset_strand(G.strand_of(strand)), blocks, strand),
               ("shift_position", lambda: loc.shift_position(1), [(a + 1, b + 1) for a, b in blocks], strand)]
    if type(loc).__name__ == "CompoundInterval":
        refl = sorted((span[0] + span[1] - b, span[0] + span[1] - a) for a, b in blocks)
        derived.append(("reverse", lambda: loc.reverse(), refl, rs))
    for name, fn, dblocks, dstrand in derived:
        d, exc = ctx.call(fn)
        if exc is not None:
            if name == "shift_position" and loc.parent is not None and loc.parent.sequence is not None:
                continue  # may legitimately leave the parent sequence
            ctx.check("map.derived", False, key=(name, "raised", type(exc).__name__), exc=repr(exc)[:200])
            continue
        DP = PM.positions(dblocks, dstrand)
        n = len(DP)
        bad = None
        for i in range(n):
            r, e = ctx.call(d.relative_to_parent_pos, i)
            if e is not None or r != DP[i]:
                bad = ("rel-to-parent", i, r, repr(e))
                break
            r2, e2 = ctx.call(d.parent_to_relative_pos, DP[i])
            if e2 is not None or not (isinstance(r2, int) and 0 <= r2 < n and DP[r2] == DP[i]):
                bad = ("parent-to-rel", DP[i], r2, repr(e2))
                break
        if bad is None and n >= 2 and not ov:
            res, e3 = ctx.call(d.relative_interval_to_parent_location, 0, n - 1, G.strand_of("+"))
            got = _enum(res)[0] if e3 is None else None
            if got != DP[0:n - 1]:
                bad = ("rel-interval", got, DP[0:n - 1], repr(e3))
        ctx.check("map.derived", bad is None, key=(name, bad[0] if bad else None), derived=name, bad=bad, source_strand=strand)


def run_case(case, ctx):
    k = case["kind"]
    blocks = [tuple(b) for b in case["blocks"]]
    strand = case["strand"]
    P = PM.positions(blocks, strand)
    ov = PM.self_overlapping(blocks)
    span = (min(b[0] for b in blocks), max(b[1] for b in blocks))

    if k == "layout":
        loc = _mk(case, blocks, strand, force_compound=case.get("compound", False))
        ctx.note(G.layout_signature(blocks, strand) + (type(loc).__name__,), nontrivial=G.nontrivial_layout(blocks, strand),
                 klass="layout-" + type(loc).__name__)
        check_point_maps(ctx, loc, P, span, ov)
        n = len(P)
        for s in range(n + 1):
            for e in range(s, n + 1):
                for r in G.STRANDS:
                    check_rel_interval(ctx, loc, P, strand, s, e, r, ov)
        for (s, e) in ((-1, 0), (0, n + 1), (2, 1), (n + 1, n + 1)):
            res, exc = ctx.call(loc.relative_interval_to_parent_location, s, e, G.strand_of("+"))
            ctx.check("map.rel-interval", isinstance(exc, _reject_types()), key="reject-invalid", s=s, e=e, n=n, got=repr(res))
        if all(b[1] >= b[0] for b in blocks) and (case.get("compound") or len(blocks) > 1):
            check_feature_wrappers(ctx, blocks, strand, P, case.get("genome", 0))
        check_derived(ctx, loc, blocks, strand, ov)
        return

    if k == "pairs":
        loc = _mk(case, blocks, strand)
        ctx.note(("pairs",) + G.layout_signature(blocks, strand), nontrivial=G.nontrivial_layout(blocks, strand), klass="pairs-from-location")
        for qb in G.enum_layouts(case["genome"], case["kmax"]):
            for qs in G.STRANDS:
                qloc = _mk(case, qb, qs)
                Q = PM.positions(qb, qs)
                ctx.note(("pair", G.layout_signature(blocks, strand), G.layout_signature(qb, qs), blocks[0][0] - qb[0][0]),
                         nontrivial=bool(set(Q) & set(P)))
                check_parent_location(ctx, loc, P, strand, qloc, Q, qs, False, False)
        return

    if k == "random":
        import random

        rng = random.Random(case["seed"])
        loc = _mk(case, blocks, strand)
        ctx.note(("rand",) + G.layout_signature(blocks, strand) + (case.get("scale"),), nontrivial=True,
                 klass=("random-" + case["scale"]) if case.get("scale") else ("random-overlapping" if ov else "random"))
        check_point_maps(ctx, loc, P, span, ov)
        n = len(P)
        for _ in range(25):
            s = rng.randint(0, n)
            e = rng.randint(s, n)
            check_rel_interval(ctx, loc, P, strand, s, e, rng.choice(G.STRANDS), ov)
        qb = [tuple(b) for b in case["q"]]
        qloc = _mk(case, qb, case["qstrand"])
        Q = PM.positions(qb, case["qstrand"])
        check_parent_location(ctx, loc, P, strand, qloc, Q, case["qstrand"], ov, PM.self_overlapping(qb))
        return
    from bcv.core import HarnessError

    raise HarnessError(f"unknown kind {k}")


def classify(v):
    """K16: L has mutually overlapping blocks and a query block spans a doubly covered base.  The library maps only the
    two end points of (query block n L) and answers with the contiguous relative range between them; the finding is
    recognised by recomputing exactly that hull from the point-wise map (first preimage) - anything else stays a violation."""
    if v["monitor"] != "map.parent-location":
        return None
    case, d = v.get("case") or {}, v.get("detail") or {}
    if case.get("kind") != "random" or not isinstance(d.get("got"), list):
        return None
    blocks = [tuple(b) for b in case["blocks"]]
    if not PM.self_overlapping(blocks):
        return None
    P = PM.positions(blocks, case["strand"])
    first = {}
    for i, p in enumerate(P):
        first.setdefault(p, i)
    hull = set()
    for (qs, qe) in case["q"]:
        inter = [p for p in range(qs, qe) if p in first]
        if not inter:
            continue
        a, b = first[min(inter)], first[max(inter)]
        hull.update(range(min(a, b), max(a, b) + 1))
    if set(d["got"]) == hull and d.get("got_strand") == d.get("want_strand"):
        return "K16-relative-location-within-self-overlapping-location"
    return None
