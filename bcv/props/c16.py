"""C16  Genomic bin assignment is the UCSC scheme and never hides a contained feature.

Monitors (reference model = bcv.models.kentbins, a transcription of kent's binRange.c):
  bin.smallest        bins(s, e, fmt, one=True) == smallest standard bin containing the interval (1 out of range)
  bin.extent          the assigned bin's extent contains the interval (weaker half of 'smallest', checked on its own)
  bin.safety          for I contained in / overlapping Q: assigned(I) in bins(Q, one=False)
  bin.set-superset    bins(Q, one=False) contains every bin whose extent overlaps Q (in range)
  bin.stored          the `bin` attribute stored on transcripts / features / genes / feature collections / variants /
                      annotation collections equals bins(start, end, "bed") and obeys the same model
  bin.query-e2e       end to end: a strict range query returns every gene inside the range although the bin
                      shortcut is active (ranges and genes straddling 2^17..2^29 multiples)
"""
import itertools

from bcv.models import kentbins

ID = "C16"
LEVEL = "exploration"
EXHAUSTIVE = False
RULE = (
    "exhaustive inside bands: every (start,end), end>start, with both ends in {k*2^j + d : j=17..29, k=1..3, |d|<=W} "
    "plus {0..W} (W=6 thorough / 3 quick) for one=True in both coordinate conventions; every (interval I, range Q) pair "
    "over a thinner band grid for the safety half; seeded random pairs up to 2^30 and negative/out-of-range values. "
    "A case is non-trivial when the interval or the pair is distinct and touches or crosses a bin boundary of some level "
    "(start and end-1 fall in different finest bins, or an end point is a multiple of 2^17)."
)
FLOOR = {"quick": 5000, "thorough": 20000}
REQUIRED_MONITORS = ["bin.smallest", "bin.extent", "bin.safety", "bin.set-superset", "bin.stored", "bin.query-e2e"]
REACH = [
    "inscripta.biocantor.util.bins:bins",
    "inscripta.biocantor.gene.collections:AnnotationCollection._query_by_position",
]
REACH_REQUIRED = ["inscripta.biocantor.util.bins:bins"]
ASSUMPTIONS = [
    "oracle: transcription of kent src/lib/binRange.c with the level offsets documented in util/bins.py (4681/585/73/9/1)",
    "intervals are non-empty (end > start); GFF convention means 1-based closed [s, e] == BED [s-1, e)",
]


def selftest():
    from bcv.core import HarnessError

    try:
        kentbins.selftest()
    except AssertionError as e:
        raise HarnessError(f"kentbins self-test failed: {e!r}")


def band_points(width, ks=(1, 2, 3), js=range(17, 30)):
    pts = set(range(0, width + 1))
    for j in js:
        for k in ks:
            c = k << j
            for d in range(-width, width + 1):
                if c + d >= 0:
                    pts.add(c + d)
    return sorted(pts)


def shards(tier, seed):
    n = 16
    return [{"i": i, "n": n} for i in range(n)]


def cases(spec, ctx):
    i, n = spec["i"], spec["n"]
    thorough = ctx.tier == "thorough"
    W = 6 if thorough else 3
    pts = band_points(W)
    # (a) exhaustive one=True sweep, one case per start point (all ends), sharded by start index
    for idx, s in enumerate(pts):
        if idx % n == i:
            yield {"kind": "sweep", "start": s, "width": W}
    # (b) safety pairs: one case per query start (all Q ends x all I), thinner grid
    W2 = 2 if thorough else 1
    ks = (1, 2, 3) if thorough else (1, 2)
    pts2 = band_points(W2, ks=ks)
    pts2 = sorted(set(pts2) | {(1 << 29) + 5, (1 << 30) - 1, 1 << 30})
    for idx, qs in enumerate(pts2):
        if idx % n == i:
            yield {"kind": "safety", "qstart": qs, "width": W2, "ks": list(ks)}
    # (c) random
    rng = ctx.rng
    nrand = 4000 if thorough else 600
    for _ in range(nrand):
        hi = rng.choice([1 << 18, 1 << 21, 1 << 24, 1 << 27, 1 << 29, 1 << 30])
        a = rng.randrange(0, hi)
        ln = rng.choice([1, 2, rng.randrange(1, 1 << 10), rng.randrange(1, 1 << 18), rng.randrange(1, 1 << 25)])
        qa = max(0, a - rng.choice([0, 1, rng.randrange(0, 1 << 12), rng.randrange(0, 1 << 20)]))
        qb = a + ln + rng.choice([0, 1, rng.randrange(0, 1 << 12), rng.randrange(0, 1 << 20)])
        yield {"kind": "random", "i": [a, a + ln], "q": [qa, qb], "form": rng.choice(["int", "int", "int", "int64"])}
    # (c2) wide queries (2^21 .. 2^28 bases) around a small interval that straddles a 2^17 / 2^20 / 2^23 / 2^26 boundary deep inside
    # the query: the interval's bin lives on a level whose interior bins the query's bin set has to enumerate completely
    for _ in range(nrand // 2):
        lvl = rng.choice([17, 17, 20, 23, 26])
        width = 1 << rng.randint(21, 28)
        b = (rng.randrange(1, ((1 << 29) - 1) >> lvl)) << lvl      # a boundary of that level
        a = b - rng.choice([1, 2, 50, 5000])
        e2 = b + rng.choice([1, 2, 50, 5000])
        left = rng.randrange(1, width)
        qa = max(1, a - left)
        qb = min((1 << 29) - 1, e2 + (width - left))
        yield {"kind": "random", "i": [a, e2], "q": [qa, qb]}
    if i == 0:
        for s, e in [(-5, 10), (-1, 0), (5, -1), (1 << 29, (1 << 29) + 10), ((1 << 29) - 1, 1 << 29), (0, 1 << 29),
                     ((1 << 30), (1 << 30) + 1), (-10, -5)]:
            yield {"kind": "oor", "s": s, "e": e}
    # (d) stored bin on objects + end-to-end query, sharded by boundary
    centres = [(k << j) for j in range(17, 30) for k in (1, 3)]
    for idx, c in enumerate(centres):
        if idx % n == i:
            yield {"kind": "stored", "centre": c}
            yield {"kind": "query", "centre": c}
    # (e) one big collection per shard (more children than any indexing threshold a collection could plausibly use), with and
    # without variant collections among the sorted children, strict and relaxed windows around the first 2^17 boundaries
    yield {"kind": "query-big", "n": rng.choice([510, 640, 900]) if i % 2 else rng.choice([140, 300, 520]), "nvar": i % 3,
           "seed": rng.randrange(1 << 30)}


def _nontrivial(s, e):
    return (s >> 17) != ((e - 1) >> 17) or s % (1 << 17) == 0 or e % (1 << 17) == 0


def _check_one(ctx, bins, s, e):
    """one=True in both conventions against the model; returns the library's BED answer."""
    got = bins(s, e, fmt="bed", one=True)
    want = kentbins.smallest_bin(s, e)
    ctx.check("bin.smallest", got == want, key="bed", start=s, end=e, got=got, want=want,
              want_if_end_plus_1=kentbins.smallest_bin(s, e + 1))
    if isinstance(got, int) and kentbins.in_range(s, e):
        lo, hi = kentbins.bin_extent(got) if 1 <= got < 4681 + 4096 else (0, -1)
        ctx.check("bin.extent", lo <= s and e <= hi, key="bed-extent", start=s, end=e, got=got, extent=[lo, hi])
    g2 = bins(s + 1, e, fmt="gff", one=True)
    ctx.check("bin.smallest", g2 == want, key="gff", start=s + 1, end=e, got=g2, want=want,
              want_if_end_plus_1=kentbins.smallest_bin(s, e + 1))
    if s >= 1:
        # the same pair of numbers asked in both conventions within one process, in alternating order: the answer
        # must depend on the convention named in the call, not on which convention was asked first
        if s % 2:
            g3 = bins(s, e, fmt="gff", one=True)
            b3 = bins(s, e, fmt="bed", one=True)
        else:
            b3 = bins(s, e, fmt="bed", one=True)
            g3 = bins(s, e, fmt="gff", one=True)
        w3 = kentbins.smallest_bin(s - 1, e)
        ctx.check("bin.smallest", g3 == w3, key="gff-same-numbers", start=s, end=e, got=g3, want=w3,
                  want_if_end_plus_1=kentbins.smallest_bin(s - 1, e + 1))
        ctx.check("bin.smallest", b3 == got, key="bed-repeat", start=s, end=e, got=b3, want=want, first_answer=got,
                  want_if_end_plus_1=kentbins.smallest_bin(s, e + 1))
    return got


def run_case(case, ctx):
    from inscripta.biocantor.util.bins import bins

    k = case["kind"]
    if k == "sweep":
        s = case["start"]
        pts = band_points(case["width"])
        for e in pts:
            if e <= s:
                continue
            ctx.note(("one", s, e), nontrivial=_nontrivial(s, e))
            _check_one(ctx, bins, s, e)
        ctx.note(("sweep", s), klass="sweep-from-start")
        return

    if k == "safety":
        qs = case["qstart"]
        pts = band_points(case["width"], ks=tuple(case["ks"]))
        pts = sorted(set(pts) | {(1 << 29) + 5, (1 << 30) - 1, 1 << 30})
        assigned = {}
        for qe in pts:
            if qe <= qs:
                continue
            qset = bins(qs, qe, fmt="bed", one=False)
            qset_gff = bins(qs + 1, qe, fmt="gff", one=False)
            ctx.note(("q", qs, qe), nontrivial=_nontrivial(qs, qe))
            if kentbins.in_range(qs, qe):
                want = kentbins.overlapping_bins(qs, qe)
                ctx.check("bin.set-superset", isinstance(qset, set) and want <= qset and want <= qset_gff, key="superset",
                          q=[qs, qe], missing=sorted(want - set(qset))[:5])
            else:
                ctx.check("bin.set-superset", isinstance(qset, set) and 1 in qset, key="superset-oor", q=[qs, qe], got=sorted(qset)[:5])
            # every interval with both ends on the grid that is contained in or overlaps Q
            for a in pts:
                if a >= qe:
                    break
                for b in pts:
                    if b <= a or b <= qs:
                        continue
                    # [a,b) overlaps [qs,qe) here
                    ab = assigned.get((a, b))
                    if ab is None:
                        ab = assigned[(a, b)] = bins(a, b, fmt="bed", one=True)
                    contained = qs <= a and b <= qe
                    ok = ab in qset
                    ctx.seen("bin.safety")
                    if not ok:
                        ctx.violation("bin.safety", key=("contained" if contained else "overlapping",
                                                         "query-end>=2^29" if qe >= kentbins.MAX else "in-range"),
                                      interval=[a, b], assigned=ab, query=[qs, qe], contained=contained,
                                      query_bins_size=len(qset))
        ctx.note(("safety", qs), klass="safety-from-query-start")
        return

    if k == "random":
        (a, b), (qa, qb) = case["i"], case["q"]
        if case.get("form") == "int64":
            # coordinates taken out of a numpy array (signed 64 bit): the same answers as for Python ints
            import numpy as np

            a, b, qa, qb = np.int64(a), np.int64(b), np.int64(qa), np.int64(qb)
            ctx.note(("form", "int64"), klass="int64-coordinates")
        ctx.note(("rand", a, b, qa, qb), nontrivial=_nontrivial(a, b) or _nontrivial(qa, qb), klass="random-pair")
        ab = _check_one(ctx, bins, a, b)
        qset = bins(qa, qb, fmt="bed", one=False)
        ok = ab in qset
        ctx.seen("bin.safety")
        if not ok:
            ctx.violation("bin.safety", key=("contained", "query-end>=2^29" if qb >= kentbins.MAX else "in-range"),
                          interval=[a, b], assigned=ab, query=[qa, qb], contained=True)
        if kentbins.in_range(qa, qb):
            want = kentbins.overlapping_bins(qa, qb)
            ctx.check("bin.set-superset", want <= qset, key="superset", q=[qa, qb], missing=sorted(want - qset)[:5])
        return

    if k == "oor":
        s, e = case["s"], case["e"]
        ctx.note(("oor", s, e), klass="out-of-range")
        for fmt in ("bed", "gff"):
            got = bins(s, e, fmt=fmt, one=True)
            want = 1 if not kentbins.in_range(s, e) else kentbins.smallest_bin(s, e)
            ctx.check("bin.smallest", got == want, key="oor", start=s, end=e, fmt=fmt, got=got, want=want)
            gs = bins(s, e, fmt=fmt, one=False)
            ctx.check("bin.set-superset", isinstance(gs, set) and 1 in gs, key="oor-set", start=s, end=e, got=repr(gs)[:80])
        return

    if k == "stored":
        _stored(case, ctx, bins)
        return
    if k == "query":
        _query(case, ctx)
        _query_two_collections(case, ctx)
        _query_sub_collections(case, ctx)
        return
    if k == "query-big":
        _query_big(case, ctx)
        return
    from bcv.core import HarnessError

    raise HarnessError(f"unknown case kind {k}")


def _objects_at(c):
    """Yield (label, object) for each interval class, with an end point on / next to the boundary c."""
    from inscripta.biocantor.gene import (TranscriptInterval, FeatureInterval, GeneInterval, FeatureIntervalCollection,
                                          AnnotationCollection, CDSFrame)
    from inscripta.biocantor.gene.variants import VariantInterval
    from inscripta.biocantor.location import Strand

    for d_end in (-1, 0, 1):
        for d_start in (-300, -1, 0):
            s = c - 200 + d_start if d_start != 0 else c
            e = c + d_end if d_start != 0 else c + 50 + d_end
            if s < 0 or e <= s + 20:
                continue
            mid = s + 10
            tx = TranscriptInterval([s, mid + 2], [mid, e], Strand.PLUS, cds_starts=[s + 1], cds_ends=[s + 7],
                                    cds_frames=[CDSFrame.ZERO])
            yield ("transcript", tx, s, e)
            ft = FeatureInterval([s, mid + 2], [mid, e], Strand.MINUS)
            yield ("feature", ft, s, e)
            g = GeneInterval([tx, TranscriptInterval([s + 3], [e - 2], Strand.PLUS)])
            yield ("gene", g, s, e)
            fc = FeatureIntervalCollection([ft])
            yield ("feature-collection", fc, s, e)
            v = VariantInterval(s, e, "A" * (e - s), "SNV")
            yield ("variant", v, s, e)
            ac = AnnotationCollection(genes=[g], feature_collections=[fc])
            yield ("annotation-collection", ac, s, e)
            ac2 = AnnotationCollection(genes=[g], start=max(0, s - 7), end=e + 9)
            yield ("annotation-collection-bounds", ac2, max(0, s - 7), e + 9)
    # members whose children lie on either side of the boundary with none of them spanning it: the member's own bin is the bin of
    # its span, which is coarser than every child's
    for w in (30, 3000):
        if c - w < 1:
            continue
        t1 = TranscriptInterval([c - w], [c - 10], Strand.PLUS)
        t2 = TranscriptInterval([c + 10], [c + w], Strand.PLUS)
        yield ("gene-split-across-boundary", GeneInterval([t1, t2]), c - w, c + w)
        f1 = FeatureInterval([c - w], [c - 10], Strand.MINUS)
        f2 = FeatureInterval([c + 10], [c + w], Strand.PLUS)
        yield ("feature-collection-split-across-boundary", FeatureIntervalCollection([f1, f2]), c - w, c + w)


def _stored(case, ctx, bins):
    c = case["centre"]
    for label, obj, s, e in _objects_at(c):
        ctx.note(("stored", label, s - c, e - c, c), klass="stored-" + label)
        ok_span = (obj.start, obj.end) == (s, e)
        got = obj.bin
        ctx.check("bin.stored", ok_span and got == bins(s, e, fmt="bed"), key=("stored-eq", label), cls=label, start=s, end=e,
                  got=got, lib=bins(s, e, fmt="bed"))
        want = kentbins.smallest_bin(s, e)
        ctx.check("bin.smallest", got == want, key="stored-" + label, start=s, end=e, got=got, want=want,
                  want_if_end_plus_1=kentbins.smallest_bin(s, e + 1))


def _query(case, ctx):
    """End to end: strict range queries around a boundary must return every gene inside the range."""
    from inscripta.biocantor.gene import TranscriptInterval, GeneInterval, AnnotationCollection
    from inscripta.biocantor.location import Strand

    c = case["centre"]
    genes = []
    spans = []
    for k2, (s, e) in enumerate([(c - 90, c - 60), (c - 50, c - 10), (c - 30, c), (c - 5, c + 5), (c, c + 20), (c + 30, c + 40)]):
        if s < 1:
            continue
        genes.append(GeneInterval([TranscriptInterval([s], [e], Strand.PLUS)], gene_id=f"g{k2}"))
        spans.append((s, e, f"g{k2}"))
    # a gene whose two isoforms lie on either side of the boundary (different fine bins) with a gap between them
    if c - 150 >= 1:
        genes.append(GeneInterval([TranscriptInterval([c - 150], [c - 120], Strand.PLUS), TranscriptInterval([c + 120], [c + 150], Strand.PLUS)],
                                  gene_id="gspan"))
        spans.append((c - 150, c + 150, "gspan"))
    far = (1 << 17) + 20
    if c - far - 30 >= 1:
        # isoforms more than one finest bin apart: a query in the middle shares no fine bin with either isoform
        genes.append(GeneInterval([TranscriptInterval([c - far - 30], [c - far], Strand.PLUS), TranscriptInterval([c + far], [c + far + 30], Strand.PLUS)],
                                  gene_id="gfar"))
        spans.append((c - far - 30, c + far + 30, "gfar"))
    lo_b = max(0, min(s for s, _, _ in spans) - 50) if spans else max(0, c - 200)
    ac = AnnotationCollection(genes=genes, start=min(lo_b, max(0, c - 200)), end=max(c + 200, max(e for _, e, _ in spans) + 50) if spans else c + 200)
    for qs, qe in itertools.product([c - 100, c - 50, c - 30, c - 5, c, c + 1], [c - 10, c, c + 1, c + 5, c + 20, c + 100]):
        if qs < 1 or qe <= qs:
            continue
        ctx.note(("query", c, qs - c, qe - c), klass="query-e2e")
        want = sorted(n for s, e, n in spans if qs <= s and e <= qe)
        res, exc = ctx.call(ac.query_by_position, qs, qe, completely_within=True)
        if exc is not None:
            ctx.check("bin.query-e2e", False, key="raised", centre=c, q=[qs, qe], exc=repr(exc)[:200])
            continue
        got = sorted(g.gene_id for g in res.genes)
        missing = sorted(set(want) - set(got))
        ctx.seen("bin.query-e2e")
        if got != want:
            ctx.violation("bin.query-e2e", key=("dropped" if missing else "extra", "query-end>=2^29" if qe >= kentbins.MAX else "in-range"),
                          centre=c, q=[qs, qe], got=got, want=want)
        # relaxed mode: members whose span overlaps the range (the bin shortcut must not be applied at all)
        want2 = sorted(n for s, e, n in spans if s < qe and qs < e)
        res, exc = ctx.call(ac.query_by_position, qs, qe, completely_within=False)
        got2 = None if exc is not None else sorted(g.gene_id for g in res.genes)
        ctx.check("bin.query-e2e", got2 == want2, key=("relaxed", "raised" if exc else "value"), centre=c, q=[qs, qe], got=got2, want=want2,
                  exc=repr(exc)[:150] if exc else None)


def _query_two_collections(case, ctx):
    """The same strict window asked of two different collections in one process (either order): each answer depends on its own
    collection only (bin sets computed for a window must not be narrowed by what another collection happened to hold)."""
    from inscripta.biocantor.gene import TranscriptInterval, GeneInterval, AnnotationCollection
    from inscripta.biocantor.location import Strand

    c = case["centre"]
    if c - 120 < 1:
        return

    def coll(side, shared):
        s, e = (c - 90, c - 60) if side == "left" else (c + 30, c + 40)
        genes = [GeneInterval([TranscriptInterval([s], [e], Strand.PLUS)], gene_id="g-" + side)]
        if shared:      # a member both collections hold, in a bin of its own (it spans the boundary)
            genes.append(GeneInterval([TranscriptInterval([c - 5], [c + 5], Strand.PLUS)], gene_id="g-shared"))
        return AnnotationCollection(genes=genes, start=c - 120, end=c + 120)

    for shared in (False, True):
        for order in (("left", "right"), ("right", "left")):
            cols = {side: coll(side, shared) for side in order}
            # windows no other leg of this process has asked before (a shared cache entry is still in its first state)
            w = (101, 118) if shared else (100, 119)
            k = 0 if order[0] == "left" else 1
            for qs, qe in ((c - w[0] - k, c + w[0]), (c - w[1], c + w[1] - k)):
                for side in order + order:      # asked twice: the second round sees whatever the first one left behind
                    res, exc = ctx.call(cols[side].query_by_position, qs, qe, completely_within=True)
                    got = None if exc is not None else sorted(g.gene_id for g in res.genes)
                    want = sorted(["g-" + side] + (["g-shared"] if shared else []))
                    ctx.check("bin.query-e2e", got == want, key=("two-collections-same-window", "raised" if exc else "value"), centre=c, q=[qs, qe],
                              order=list(order), asked=side, shared_member=shared, got=got, want=want, exc=repr(exc)[:150] if exc else None)


def _query_sub_collections(case, ctx):
    """Sub-collections of one collection obtained by identifier queries (one isoform each; the gene keeps its identifiers), each then asked
    a strict window around its own isoform, in either order: the answer depends on the coordinates held by the collection that is asked."""
    from inscripta.biocantor.gene import TranscriptInterval, GeneInterval, AnnotationCollection
    from inscripta.biocantor.location import Strand

    c = case["centre"]
    far = (1 << 17) + 20
    if c - far - 60 < 1:
        return
    spans = {"txL": (c - far - 30, c - far), "txR": (c + far, c + far + 30)}
    for order in (("txL", "txR"), ("txR", "txL")):
        txs = [TranscriptInterval([s], [e], Strand.PLUS, transcript_id=n, transcript_symbol=n) for n, (s, e) in spans.items()]
        ac = AnnotationCollection(genes=[GeneInterval(txs, gene_id="g1", gene_symbol="g1")], start=max(0, c - far - 200), end=c + far + 200)
        guids = {t.transcript_id: t.guid for t in txs}
        for n in order:
            sub, exc = ctx.call(ac.query_by_transcript_interval_guids, guids[n])
            if exc is not None or [t.transcript_id for g in sub.genes for t in g.transcripts] != [n]:
                ctx.check("bin.query-e2e", False, key=("sub-collection", "id-query"), centre=c, isoform=n, exc=repr(exc)[:150] if exc else None)
                continue
            s, e = spans[n]
            for qs, qe in ((s - 20, e + 20), (s, e), (s + 1, e + 20)):
                want = [n] if qs <= s and e <= qe else []
                res, exc = ctx.call(sub.query_by_position, qs, qe, completely_within=True)
                got = None if exc is not None else sorted(t.transcript_id for g in res.genes for t in g.transcripts)
                ctx.check("bin.query-e2e", got == want, key=("sub-collection", "raised" if exc else "value"), centre=c, q=[qs, qe], order=list(order),
                          isoform=n, got=got, want=want, exc=repr(exc)[:150] if exc else None)
        # and the collection they were taken from still answers for both isoforms
        qs, qe = spans["txL"][0] - 10, spans["txR"][1] + 10
        res, exc = ctx.call(ac.query_by_position, qs, qe, completely_within=True)
        got = None if exc is not None else sorted(t.transcript_id for g in res.genes for t in g.transcripts)
        ctx.check("bin.query-e2e", got == ["txL", "txR"], key=("sub-collection", "source-afterwards"), centre=c, q=[qs, qe], got=got, want=["txL", "txR"],
                  exc=repr(exc)[:150] if exc else None)


def _query_big(case, ctx):
    """A collection of several hundred members (genes and feature collections alternating, 1 kb apart) with 0..2 variant collections in gaps
    between them: strict and relaxed windows against a brute-force scan of the literal coordinates."""
    import random

    from inscripta.biocantor.gene import TranscriptInterval, GeneInterval, AnnotationCollection, FeatureInterval, FeatureIntervalCollection
    from inscripta.biocantor.gene.variants import VariantInterval, VariantIntervalCollection
    from inscripta.biocantor.location import Strand

    rs = random.Random(case["seed"])
    n, nvar = case["n"], case["nvar"]
    spans, genes, fcs = {}, [], []
    for j in range(n):
        s = j * 1000 + rs.randrange(50, 300)
        e = s + rs.randrange(200, 650)
        name = f"m{j:04d}"
        spans[name] = (s, e)
        if j % 2:
            genes.append(GeneInterval([TranscriptInterval([s], [e], Strand.PLUS)], gene_id=name))
        else:
            fcs.append(FeatureIntervalCollection([FeatureInterval([s], [e], Strand.MINUS)], feature_collection_id=name))
    vcs, vspans = [], {}
    for v, j in enumerate(sorted(rs.sample(range(n), nvar))):
        # in the gap in front of member j (members start at j*1000 + 50 at the earliest)
        p = j * 1000 + rs.randrange(2, 40)
        vname = f"vc{v}"
        vspans[vname] = (p, p + 1)
        vcs.append(VariantIntervalCollection([VariantInterval(p, p + 1, "T", "SNV", variant_name=vname)], variant_collection_name=vname))
    ac = AnnotationCollection(genes=genes, feature_collections=fcs, variant_collections=vcs or None, start=0, end=n * 1000 + 1000)
    top = n * 1000 + 999
    wins = []
    b17 = 1 << 17
    for b in (b17, 2 * b17, 3 * b17, 4 * b17, 1 << 19):
        if b < top:
            wins += [(max(1, b - 31000), min(top, b - 72)), (max(1, b - 2500), min(top, b + 2500)), (1000, min(top, b + 700))]
    for _ in range(10):
        a = rs.randrange(1, top - 10)
        wins.append((a, min(top, a + rs.choice([900, 5000, 40000, 200000, top]))))
    wins.append((1, top))
    ctx.note(("big", n, nvar), klass=f"big-collection-{'over' if n > 500 else 'under'}-500-children-{nvar}-variant-collections")
    for qs, qe in wins:
        if qe <= qs:
            continue
        for cw in (True, False):
            res, exc = ctx.call(ac.query_by_position, qs, qe, completely_within=cw)
            key = ("big-collection", "strict" if cw else "relaxed", f"variant-collections={min(nvar, 1)}", "over-500" if n > 500 else "under-500")
            if exc is not None:
                ctx.check("bin.query-e2e", False, key=key + ("raised",), q=[qs, qe], n=n, exc=repr(exc)[:200])
                continue
            inside = (lambda s, e: qs <= s and e <= qe) if cw else (lambda s, e: s < qe and qs < e)
            want = sorted(nm for nm, (s, e) in spans.items() if inside(s, e))
            got = sorted([g.gene_id for g in res.genes] + [f.feature_collection_id for f in res.feature_collections])
            wantv = sorted(nm for nm, (s, e) in vspans.items() if inside(s, e))
            gotv = sorted(v.variant_collection_name for v in (res.variant_collections or []))
            missing, extra = sorted(set(want) - set(got)), sorted(set(got) - set(want))
            ctx.check("bin.query-e2e", got == want and gotv == wantv, key=key + ("dropped" if missing else "extra" if extra else "variant-collections",), q=[qs, qe],
                      n=n, nvar=nvar, n_got=len(got), n_want=len(want), missing=missing[:5], extra=extra[:5], got_variants=gotv, want_variants=wantv)


def classify(v):
    """Mechanistic classifiers of the recorded findings (DESIGN section 7)."""
    d = v.get("detail", {})
    m = v["monitor"]
    if m == "bin.smallest":
        s, e = d.get("start"), d.get("end")
        if None in (s, e):
            return None
        end0 = e  # exclusive end in BED terms is the same number in both conventions
        if d.get("got") != d.get("want") and d.get("got") == d.get("want_if_end_plus_1") and end0 % (1 << 17) == 0:
            return "K6-exclusive-end-on-bin-boundary"
        return None
    return None
