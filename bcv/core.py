"""Per-shard monitor context: counts what the monitors observed, collects violations with witnesses."""
import hashlib
import json
import os
import random
import traceback

from bcv import env


class MonitorViolation(Exception):
    """Raised by icontract contracts attached to the real classes (error= factories)."""

    def __init__(self, monitor, detail):
        super().__init__(f"{monitor}: {detail}")
        self.monitor = monitor
        self.detail = detail


class HarnessError(Exception):
    """A defect of the harness itself (model self-test failed, generator bug): never a violation."""


def jsonable(x, depth=0):
    if depth > 8:
        return repr(x)[:200]
    if x is None or isinstance(x, (bool, int, float, str)):
        return x
    if isinstance(x, (list, tuple)):
        return [jsonable(i, depth + 1) for i in x]
    if isinstance(x, (set, frozenset)):
        try:
            return sorted(jsonable(i, depth + 1) for i in x)
        except TypeError:
            return sorted((jsonable(i, depth + 1) for i in x), key=repr)
    if isinstance(x, dict):
        return {str(k): jsonable(v, depth + 1) for k, v in x.items()}
    return repr(x)[:400]


def sig_hash(sig):
    return hashlib.blake2b(repr(sig).encode(), digest_size=8).hexdigest()


def innermost_repo_frame(tb):
    """(filename relative to repo, lineno, source line, is_explicit_raise, innermost_is_repo)"""
    import linecache

    frames = traceback.extract_tb(tb)
    last_repo = None
    for fr in frames:
        if fr.filename.startswith(env.REPO + os.sep):
            last_repo = fr
    innermost = frames[-1] if frames else None
    if last_repo is None:
        return None
    line = (last_repo.line or linecache.getline(last_repo.filename, last_repo.lineno)).strip()
    return {
        "file": os.path.relpath(last_repo.filename, env.REPO),
        "line": last_repo.lineno,
        "src": line,
        "func": last_repo.name,
        "explicit_raise": line.startswith("raise "),
        "innermost_is_repo": innermost is last_repo,
        "innermost_file": innermost.filename if innermost else None,
    }


class Ctx:
    MAX_VIOLS_PER_KEY = 3
    MAX_VIOLS = 400
    MAX_SAMPLES_PER_CLASS = 2

    def __init__(self, pid, tier, seed, shard=0, nshards=1):
        self.pid = pid
        self.tier = tier
        self.seed = seed
        self.shard = shard
        self.nshards = nshards
        self.rng = random.Random(f"{pid}:{seed}:{shard}")
        self.evaluations = 0
        self.sigs = set()
        self.sig_hist = {}
        self.monitor_evals = {}
        self.exceptions = {}
        self.violations = []
        self.viol_count = 0
        self._viol_keys = {}
        self.samples = {}
        self.extra = {}
        self.case = None
        self.harness_errors = []

    # -- case bookkeeping ---------------------------------------------------------------------
    def begin(self, case):
        self.case = case
        self.evaluations += 1

    def note(self, sig, nontrivial=True, klass=None):
        """Record the abstract signature of the current case (for distinct_nontrivial)."""
        if nontrivial:
            self.sigs.add(sig_hash(sig))
        if klass is not None:
            self.sig_hist[klass] = self.sig_hist.get(klass, 0) + 1
            s = self.samples.setdefault(klass, [])
            if len(s) < self.MAX_SAMPLES_PER_CLASS and self.case is not None:
                s.append(jsonable(self.case))

    def bump(self, name, n=1):
        self.extra[name] = self.extra.get(name, 0) + n

    # -- monitors ---------------------------------------------------------------------------
    def seen(self, monitor, n=1):
        self.monitor_evals[monitor] = self.monitor_evals.get(monitor, 0) + n

    def check(self, monitor, cond, key=None, **detail):
        """Count one evaluation of `monitor`; record a violation when cond is false.  Returns cond."""
        self.monitor_evals[monitor] = self.monitor_evals.get(monitor, 0) + 1
        if not cond:
            self.violation(monitor, key=key, **detail)
        return bool(cond)

    def violation(self, monitor, key=None, **detail):
        self.viol_count += 1
        k = (monitor, repr(key))
        n = self._viol_keys.get(k, 0)
        self._viol_keys[k] = n + 1
        if n >= self.MAX_VIOLS_PER_KEY or len(self.violations) >= self.MAX_VIOLS:
            return
        self.violations.append(
            {
                "monitor": monitor,
                "key": jsonable(key),
                "case": jsonable(self.case),
                "detail": jsonable(detail),
                "hashseed": int(os.environ.get("PYTHONHASHSEED") or 0) if (os.environ.get("PYTHONHASHSEED") or "0").isdigit() else 0,
            }
        )

    def saw_exception(self, e):
        n = type(e).__name__
        self.exceptions[n] = self.exceptions.get(n, 0) + 1

    def call(self, fn, *a, **kw):
        """Call library code; returns (result, None) or (None, exception).  Counts exception types.
        MonitorViolation (from attached contracts) is turned into a violation record and returned as exc."""
        try:
            return fn(*a, **kw), None
        except MonitorViolation as mv:
            self.violation(mv.monitor, key=mv.detail.get("key") if isinstance(mv.detail, dict) else None,
                           **(mv.detail if isinstance(mv.detail, dict) else {"detail": mv.detail}))
            return None, mv
        except RecursionError as e:
            self.saw_exception(e)
            return None, e
        except Exception as e:  # noqa: BLE001 - the whole point is to observe what escapes
            self.saw_exception(e)
            return None, e

    def escaped(self, e, where="run_case"):
        """An exception escaped the property driver itself."""
        info = innermost_repo_frame(e.__traceback__)
        tb = "".join(traceback.format_exception(type(e), e, e.__traceback__))[-3000:]
        if isinstance(e, MonitorViolation):
            d = e.detail if isinstance(e.detail, dict) else {"detail": e.detail}
            self.violation(e.monitor, key=d.get("key"), **d)
        elif isinstance(e, HarnessError) or info is None or not info.get("innermost_is_repo") and not _raised_in_repo(e):
            # raised by harness code (not inside BioCantor): harness defect => inconclusive, never a violation
            self.harness_errors.append({"where": where, "case": jsonable(self.case), "traceback": tb})
        else:
            self.saw_exception(e)
            self.violation(
                "escaped-exception",
                key=(type(e).__name__, info["file"], info["func"]),
                exception=type(e).__name__,
                message=str(e)[:300],
                frame=info,
                traceback=tb,
            )

    def result(self):
        return {
            "shard": self.shard,
            "evaluations": self.evaluations,
            "sigs": sorted(self.sigs),
            "sig_hist": self.sig_hist,
            "monitor_evals": self.monitor_evals,
            "exceptions": self.exceptions,
            "violations": self.violations,
            "viol_count": self.viol_count,
            "samples": self.samples,
            "extra": self.extra,
            "harness_errors": self.harness_errors[:5],
            "n_harness_errors": len(self.harness_errors),
        }


def _raised_in_repo(e):
    """True when the exception was raised by a frame inside the repository or inside a third-party library
    called from the repository (so BioCantor let it escape); False when the harness raised it."""
    frames = traceback.extract_tb(e.__traceback__)
    if not frames:
        return False
    last = frames[-1].filename
    if last.startswith(env.VERIF + os.sep) and not last.startswith(env.DEPS + os.sep):
        return False
    # the innermost frame is not harness code; was BioCantor on the stack at all?
    return any(f.filename.startswith(env.REPO + os.sep) for f in frames)


def codon_storm(ctx, n=900):
    """Create and drop `n` distinct (IUPAC / gapped) codon objects, as a long annotation run would have done by the time anything is
    translated or exported: what the library says about start codons and translations must not depend on how many codons the
    process has seen.  Called from the setup() of the properties that translate."""
    import itertools

    from inscripta.biocantor.gene.codon import Codon

    k = 0
    for trip in itertools.product("ACGTNRYKMSWBDHV", repeat=3):
        try:
            Codon("".join(trip))
        except Exception:  # noqa: BLE001 - a refusal of a spelling is not this helper's business
            pass
        k += 1
        if k >= n:
            break
    ctx.bump("codon-storm-codons", k)


def anchor_files(pid):
    """anchors.files of the property (relative to the repository root), from the given properties.jsonl."""
    try:
        with open(os.path.join(env.VERIF, "properties.jsonl")) as fh:
            for ln in fh:
                p = json.loads(ln)
                if p.get("id") == pid:
                    return [f for f in p.get("anchors", {}).get("files", []) if f.endswith(".py")]
    except OSError:
        pass
    return []


def dump(path, obj):
    tmp = path + ".tmp"
    with open(tmp, "w") as fh:
        json.dump(obj, fh, indent=1, sort_keys=True, default=repr)
        fh.write("\n")
    os.replace(tmp, path)
