"""Serialisation workloads for C08: JSON-able collection specs with *every* serialised field populated (identifiers,
secondary guids, sequence guid/path, completely_within, explicit or computed guids, variant collections), hostile
qualifier text (unicode, mixed value types), parents (none / chromosome with or without sequence / plus or minus
strand chunk, several alphabets), builders for the real objects with an optional insertion-order shuffle, and the
list of single-field perturbations used by the sensitivity monitor.  Used by bcv/props/c08.py and by the child
interpreters of the cross-process monitor (bcv/monitors/c08_child.py), so nothing here may depend on the hash seed.

Spec shapes (extends bcv.gen.genes; chromosome coordinates; plain lists / ints / strings / None):
  transcript: genes.transcript + {"transcript_guid", "sequence_guid"}
  feature:    genes.feature + {"feature_guid", "sequence_guid"}
  gene:       genes.gene + {"sequence_guid"}
  fcoll:      genes.fcoll + {"sequence_guid"}
  variant:    {"start","end","sequence","variant_type","phase_block","variant_name","variant_id","qualifiers","guid","variant_guid"}
  vcoll:      {"variants":[..], "variant_collection_name","variant_collection_id","qualifiers","guid","sequence_guid"}
  collection: genes.collection + {"vcolls":[..], "id","sequence_guid","sequence_path","completely_within"}
  parent:     {"mode": "none"|"chrom"|"chrom-noseq"|"chunk"|"chunk-minus", "genome", "seqname", "window":[cs,ce], "alphabet"}
"""
import random
import uuid

from bcv.gen import genes as GG
from bcv.models import seqmodel as SM

UNICODE_WORDS = ["γ-globin", "naïve", "基因", "Ünïcödé", "ген", "á", "🧬", "x​y", "שלום", "ß", "ﬁ", "𝔊1", "Ω≈ç√", "tab\there",
                 "semi;colon", "com,ma", "eq=uals", 'quo"te', "back\\slash", "new\nline", "per%cent", " lead", "trail ", "", "None", "null"]
ASCII_KEYS = ["note", "evidence", "db_xref", "function", "colour", "score", "my_key", "Note", "ID", "Parent", "gene_id", "key with space"]
UNI_KEYS = ["clé", "ключ", "鍵", "k🔑", "nötë"]
LOOKALIKES = [1, "1", 1.0, "1.0", True, "True", False, "False", 0, "0", 0.5, "0.5", -3, 1e-07, 12345678901234567890, "01", "1e3", 1000.0]


# Families of strings that are *different* values but collide under a common non-injective sort / comparison key (casefold, strip,
# unicode normalisation NFC/NFD/NFKC, numeric value, common prefix).  A canonical order of a set must separate them; an order computed
# with such a key leaves them in the set's iteration order, which depends on the hash seed and on the insertion history.  Written with
# escapes so that no editor can normalise them.
TWIN_FAMILIES = [
    ["Cdc2", "CDC2", "cdc2", "cDC2", "CdC2"],                                        # case
    ["Promoter", "promoter", "PROMOTER", "pROMOTER"],                                # case (feature types)
    ["stra\u00dfe", "STRASSE", "strasse", "Stra\u00dfe", "STRA\u1e9eE"],              # casefold-only
    ["\u03c3\u03c2", "\u03a3\u03a3", "\u03c3\u03c3", "\u03a3\u03c2"],                    # Greek sigma forms (casefold equal)
    ["pad", " pad", "pad ", " pad ", "\tpad", "pad\n"],                              # strip
    ["\u00e9t\u00e9", "e\u0301te\u0301", "\u00e9te\u0301", "e\u0301t\u00e9"],          # NFC vs NFD
    ["\u00c5", "A\u030a", "\u212b"],                                                # NFC / NFD / compatibility (Angstrom sign)
    ["\ufb01n", "fin", "FIN", "Fin"],                                                # ligature: NFKC and casefold
    ["\uff21\uff22", "AB", "ab", "\uff41\uff42"],                                    # full-width: NFKC
    ["1", "01", "1.0", "1e0", "+1", "1.00", " 1", "001"],                            # numeric value 1
    ["10", "1e1", "10.0", "010", "1_0"],                                             # numeric value 10
    ["0", "-0", "0.0", "00", "0e0"],                                                 # numeric value 0
    ["True", "true", "TRUE", "tRUE"],                                                # boolean words
    ["a", "ab", "abc", "abcd", "abcde"],                                             # prefixes
    ["gene", "gene1", "gene10", "gene_1", "gene-1"],                                 # prefixes / natural sort
    ["x", "x.", "x..", "x ", "x\u200b"],                                             # trailing punctuation / zero-width
]


def twin_values(rng, kmin=3):
    """>= kmin members of one family, in random order (so that a set built from them really has several possible iteration orders)."""
    fam = rng.choice(TWIN_FAMILIES)
    k = rng.randint(min(kmin, len(fam)), len(fam))
    return rng.sample(fam, k)


def _uuid(rng):
    return str(uuid.UUID(int=rng.getrandbits(128)))


def rand_quals(rng, nmax=4, hostile=False):
    """Qualifier dict: 0..nmax keys, 1..4 values of mixed types (str / int / bool / float, look-alikes such as 1 and "1",
    duplicates).  Every value is JSON-able; the library stores str(value) in a set."""
    out = {}
    for _ in range(rng.randint(0, nmax)):
        k = rng.choice(ASCII_KEYS + (UNI_KEYS if hostile else []))
        vals = []
        for _ in range(rng.randint(1, 4)):
            t = rng.random()
            if t < 0.35:
                vals.append("v" + str(rng.randint(0, 99)))
            elif t < 0.6:
                vals.append(rng.choice(LOOKALIKES))
            elif t < 0.7:
                vals.append(rng.randint(-5, 50))
            elif t < 0.78:
                vals.append(round(rng.random() * 10, rng.randint(0, 4)))
            elif t < 0.85:
                vals.append(rng.choice([True, False]))
            elif hostile:
                vals.append(rng.choice(UNICODE_WORDS))
            else:
                vals.append("w" + str(rng.randint(0, 9)))
        if rng.random() < 0.15:
            vals.append(vals[0])  # duplicate value
        if rng.random() < 0.4:
            vals += twin_values(rng)  # >= 3 values that collide under casefold / strip / normalisation / numeric value / prefix keys
            rng.shuffle(vals)
        out[k] = vals
    if out and (sum(len(v) for v in out.values()) + len(out)) % 7 == 0:
        # a flag-like qualifier: a key whose value list is empty (kept as an empty set / empty list by every round trip); chosen by
        # content so that the random stream of everything else is what it was
        out["pseudo" if "pseudo" not in out else "flag"] = []
    return out


def _name(rng, base, hostile):
    if hostile and rng.random() < 0.5:
        return base + rng.choice(UNICODE_WORDS)
    return base


def decorate_transcript(rng, t, hostile, explicit):
    t["qualifiers"] = rand_quals(rng, hostile=hostile)
    t["transcript_guid"] = _uuid(rng) if rng.random() < 0.4 else None
    t["sequence_guid"] = _uuid(rng) if rng.random() < 0.3 else None
    t["guid"] = _uuid(rng) if explicit else None
    t["transcript_symbol"] = _name(rng, t["transcript_symbol"], hostile)
    if t.get("product"):
        t["product"] = _name(rng, t["product"], hostile)
    if rng.random() < 0.15:
        t["transcript_id"] = None
    if rng.random() < 0.15:
        t["transcript_symbol"] = None
    return t


def decorate_feature(rng, f, hostile, explicit):
    f["qualifiers"] = rand_quals(rng, hostile=hostile)
    f["feature_guid"] = _uuid(rng) if rng.random() < 0.4 else None
    f["sequence_guid"] = _uuid(rng) if rng.random() < 0.3 else None
    f["guid"] = _uuid(rng) if explicit else None
    f["feature_name"] = _name(rng, f["feature_name"], hostile)
    types = list(f.get("feature_types") or [])
    if hostile and rng.random() < 0.5:
        types.append(rng.choice(UNICODE_WORDS[:12]))
    if rng.random() < 0.3:
        types += rng.sample(["promoter", "enhancer", "site", "binding", "repeat", "CpG", "TATA_box", "misc"], rng.randint(1, 4))
    if rng.random() < 0.35:
        types += twin_values(rng)
    f["feature_types"] = sorted(set(types))
    if rng.random() < 0.15:
        f["feature_id"] = None
    return f


def rand_variant(rng, lo, hi, ident, hostile, explicit):
    """One variant inside [lo, hi), hi - lo >= 1."""
    kind = rng.choice(["SNV", "SNV", "insertion", "deletion", "deletion-unpadded", "MNV"])
    span = 1 if kind in ("SNV", "insertion") else rng.randint(1, max(1, min(4, hi - lo)))
    s = rng.randint(lo, hi - span)
    alt = {"SNV": lambda: rng.choice("ACGTN"), "insertion": lambda: "".join(rng.choice("ACGT") for _ in range(rng.randint(2, 5))),
           "deletion": lambda: rng.choice("ACGT"), "deletion-unpadded": lambda: "",
           "MNV": lambda: "".join(rng.choice("ACGT") for _ in range(span))}[kind]()
    return {"start": s, "end": s + span, "sequence": alt, "variant_type": kind.split("-")[0],
            "phase_block": rng.choice([None, None, 0, 1, 7]), "variant_name": rng.choice([None, _name(rng, "var" + ident, hostile)]),
            "variant_id": rng.choice([None, "vid" + ident]), "qualifiers": rand_quals(rng, 2, hostile),
            "guid": _uuid(rng) if explicit else None, "variant_guid": _uuid(rng) if rng.random() < 0.4 else None}


def rand_vcoll(rng, lo, hi, ident, hostile, explicit):
    n = rng.choice([1, 1, 2, 3])
    width = max(1, (hi - lo) // n)
    variants = []
    for k in range(n):
        a, b = lo + k * width, min(hi, lo + (k + 1) * width)
        if b - a >= 1:
            variants.append(rand_variant(rng, a, b, f"{ident}_{k}", hostile, explicit))
    return {"variants": variants, "variant_collection_name": rng.choice([None, _name(rng, "vc" + ident, hostile)]),
            "variant_collection_id": rng.choice([None, "vcid" + ident]), "qualifiers": rand_quals(rng, 2, hostile),
            "guid": _uuid(rng) if explicit else None, "sequence_guid": _uuid(rng) if rng.random() < 0.3 else None}


def rand_parent(rng, glen, seqname):
    mode = rng.choice(["none", "chrom", "chrom", "chrom-noseq", "chunk", "chunk", "chunk-minus"])
    alpha_name, letters = rng.choice([("NT_EXTENDED_GAPPED", "ACGT"), ("NT_EXTENDED_GAPPED", "ACGT"), ("NT_EXTENDED_GAPPED", "ACGTNRYKMSWacgtn-"),
                                      ("NT_STRICT", "ACGT"), ("NT_STRICT_UNKNOWN", "ACGTN"), ("NT_EXTENDED", "ACGTNRY")])
    genome = "".join(rng.choice(letters) for _ in range(glen))
    cs = rng.choice([0, 0, rng.randint(0, glen // 4)])
    ce = rng.choice([glen, glen, rng.randint(3 * glen // 4, glen)])
    return {"mode": mode, "genome": genome, "seqname": seqname, "window": [cs, ce], "alphabet": alpha_name}


def rand_case(rng, glen=None, shape=None):
    """-> {"coll": collection spec, "parent": parent spec, "shape": label}."""
    glen = glen or rng.choice([60, 120, 300])
    shape = shape or rng.choice(["genes", "genes", "mixed", "mixed", "features", "variants", "mixed-variants", "mixed-variants", "empty"])
    hostile = rng.random() < 0.4
    explicit_mode = rng.choice(["computed", "computed", "explicit", "mixed"])

    def ex():
        return explicit_mode == "explicit" or (explicit_mode == "mixed" and rng.random() < 0.5)

    seqname = rng.choice(["chr1", "chr1", "NC_000913.3", "seq:with:colons-1-2", "chrΩ" if hostile else "chrX"])
    parent = rand_parent(rng, glen, seqname)
    ng = {"genes": rng.randint(1, 4), "mixed": rng.randint(1, 3), "mixed-variants": rng.randint(1, 3)}.get(shape, 0)
    nf = {"features": rng.randint(1, 3), "mixed": rng.randint(1, 2), "mixed-variants": rng.randint(0, 2)}.get(shape, 0)
    nv = {"variants": rng.randint(1, 2), "mixed-variants": rng.randint(1, 2)}.get(shape, 0)
    cs, ce = parent["window"] if parent["mode"].startswith("chunk") else (0, glen)
    # children are placed inside the chunk most of the time (a child wholly outside a chunk is another property's business)
    lo0, hi0 = (cs, ce) if rng.random() < 0.8 else (0, glen)
    coll = GG.rand_collection_spec(random.Random(rng.getrandbits(64)), hi0 - lo0, ngenes=ng, nfcolls=nf, seqname=seqname, qualifiers=False)
    _shift(coll, lo0)
    for g in coll["genes"]:
        g["qualifiers"] = rand_quals(rng, hostile=hostile)
        g["sequence_guid"] = _uuid(rng) if rng.random() < 0.3 else None
        g["guid"] = _uuid(rng) if ex() else None
        g["gene_symbol"] = _name(rng, g["gene_symbol"], hostile)
        if rng.random() < 0.15:
            g["locus_tag"] = None
        for t in g["transcripts"]:
            decorate_transcript(rng, t, hostile, ex())
        if rng.random() < 0.3:
            g["transcripts"][rng.randrange(len(g["transcripts"]))]["is_primary_tx"] = True
        elif rng.random() < 0.2:
            for t in g["transcripts"]:
                t["is_primary_tx"] = False
    if rng.random() < 0.3:
        # identifier-like strings of siblings that are twins of each other
        fam = rng.choice(TWIN_FAMILIES)
        for k, g in enumerate(coll["genes"]):
            g["gene_symbol"] = fam[k % len(fam)]
            for j, t in enumerate(g["transcripts"]):
                t["transcript_symbol"] = fam[(k + j + 1) % len(fam)]
        for k, fc in enumerate(coll["fcolls"]):
            for j, f in enumerate(fc["features"]):
                f["feature_name"] = fam[(k + j) % len(fam)]
    for fc in coll["fcolls"]:
        fc["qualifiers"] = rand_quals(rng, hostile=hostile)
        fc["sequence_guid"] = _uuid(rng) if rng.random() < 0.3 else None
        fc["guid"] = _uuid(rng) if ex() else None
        fc["feature_collection_type"] = rng.choice([None, "regulatory", _name(rng, "type", hostile)])
        fc["feature_collection_name"] = _name(rng, fc["feature_collection_name"], hostile)
        for f in fc["features"]:
            decorate_feature(rng, f, hostile, ex())
        if rng.random() < 0.3:
            fc["features"][rng.randrange(len(fc["features"]))]["is_primary_feature"] = True
    # blocks nested in another block of the same feature / non-coding transcript (the location classes keep such blocks; starts and
    # ends are then not both sorted).  Own stream, so that everything else of the case is what it was before this leg existed.
    nrng = random.Random(rng.getrandbits(32) ^ 0x5EED)
    def _nest(blocks):
        s0, e0 = max(blocks, key=lambda b: b[1] - b[0])
        if e0 - s0 >= 3 and nrng.random() < 0.3:
            a = nrng.randint(s0 + 1, e0 - 2)
            blocks.append([a, nrng.randint(a + 1, e0 - 1)])
            blocks.sort()
    for fc in coll["fcolls"]:
        for f in fc["features"]:
            _nest(f["blocks"])
    for g in coll["genes"]:
        for t in g["transcripts"]:
            if not t.get("cds"):
                _nest(t["exons"])
    coll["vcolls"] = []
    for k in range(nv):
        w = (hi0 - lo0) // max(1, nv)
        a, b = lo0 + k * w, lo0 + (k + 1) * w
        if b - a >= 2:
            coll["vcolls"].append(rand_vcoll(rng, a, b, f"v{k}", hostile, ex()))
    coll["qualifiers"] = rand_quals(rng, hostile=hostile)
    coll["name"] = rng.choice([None, _name(rng, "coll", hostile)])
    coll["id"] = rng.choice([None, "collid", _name(rng, "id", hostile)])
    coll["sequence_name"] = rng.choice([seqname, seqname, None])
    coll["sequence_guid"] = _uuid(rng) if rng.random() < 0.3 else None
    coll["sequence_path"] = rng.choice([None, None, "/data/genomes/x.fa", _name(rng, "path/", hostile)])
    coll["completely_within"] = rng.choice([None, None, True, False])
    unbounded_ok = bool(coll["genes"] or coll["fcolls"]) or parent["mode"] in ("chrom", "chunk", "chunk-minus")
    if not unbounded_ok or rng.random() < 0.3:
        # explicit bounds (always for collections whose bounds cannot be inferred: that refusal belongs to C19 / K9)
        full = (cs, ce) if parent["mode"].startswith("chunk") else (0, glen)
        coll["start"], coll["end"] = full
        spans = [b for g in coll["genes"] for t in g["transcripts"] for b in t["exons"]] + [b for fc in coll["fcolls"] for f in fc["features"] for b in f["blocks"]] \
            + [[v["start"], v["end"]] for vc in coll["vcolls"] for v in vc["variants"]]
        if spans and rng.random() < 0.5:
            lo, hi = min(b[0] for b in spans), max(b[1] for b in spans)
            if full[0] <= lo and hi <= full[1]:
                # bounds tighter than the parent but still containing every child
                coll["start"], coll["end"] = rng.randint(full[0], lo), rng.randint(hi, full[1])
    for g in coll["genes"]:
        for t in g["transcripts"]:
            t["sequence_name"] = coll["sequence_name"]
    return {"coll": coll, "parent": parent, "shape": shape, "hostile": hostile, "guids": explicit_mode}


def _shift(coll, d):
    if not d:
        return
    for g in coll["genes"]:
        for t in g["transcripts"]:
            t["exons"] = [[s + d, e + d] for s, e in t["exons"]]
            if t["cds"]:
                t["cds"] = [[s + d, e + d] for s, e in t["cds"]]
    for fc in coll["fcolls"]:
        for f in fc["features"]:
            f["blocks"] = [[s + d, e + d] for s, e in f["blocks"]]


# --------------------------------------------------------------------------------------------------------------
# builders
# --------------------------------------------------------------------------------------------------------------
class Shuffler:
    """Reorders qualifier dicts, value lists and feature-type lists (content unchanged).  seed None = keep the order."""

    def __init__(self, seed=None):
        self.rng = random.Random(f"shuffle:{seed}") if seed is not None else None

    def quals(self, q):
        if not q:
            return None
        items = [(k, list(v)) for k, v in q.items()]
        if self.rng is not None:
            self.rng.shuffle(items)
            for _, v in items:
                self.rng.shuffle(v)
        return dict(items)

    def lst(self, xs):
        xs = list(xs or [])
        if self.rng is not None:
            self.rng.shuffle(xs)
        return xs


def build_parent(pspec):
    from inscripta.biocantor.io.parser import seq_to_parent, seq_chunk_to_parent
    from inscripta.biocantor.location.strand import Strand
    from inscripta.biocantor.parent import Parent, SequenceType
    from inscripta.biocantor.sequence.alphabet import Alphabet

    mode = pspec.get("mode", "none")
    name = pspec.get("seqname", "chr1")
    alpha = Alphabet[pspec.get("alphabet", "NT_EXTENDED_GAPPED")]
    if mode == "none":
        return None
    if mode == "chrom":
        return seq_to_parent(pspec["genome"], alphabet=alpha, seq_id=name)
    if mode == "chrom-noseq":
        return Parent(id=name, sequence_type=SequenceType.CHROMOSOME)
    cs, ce = pspec["window"]
    if mode == "chunk":
        return seq_chunk_to_parent(pspec["genome"][cs:ce], name, cs, ce, alphabet=alpha)
    if mode == "chunk-minus":
        return seq_chunk_to_parent(SM.revcomp(pspec["genome"][cs:ce]), name, cs, ce, strand=Strand.MINUS, alphabet=alpha)
    raise ValueError(mode)


def _u(x):
    return uuid.UUID(x) if isinstance(x, str) else x


def build_cds(t, parent=None, guid=None):
    from inscripta.biocantor.gene.cds import CDSInterval

    return CDSInterval([b[0] for b in t["cds"]], [b[1] for b in t["cds"]], GG._strand(t["strand"]), GG._frames(t["frames"]),
                       sequence_guid=_u(t.get("sequence_guid")), sequence_name=t.get("sequence_name"), protein_id=t.get("protein_id"),
                       product=t.get("product"), guid=_u(guid), parent_or_seq_chunk_parent=parent)


def build_transcript(t, parent=None, sh=None):
    from inscripta.biocantor.gene.transcript import TranscriptInterval

    sh = sh or Shuffler()
    cds = t.get("cds")
    return TranscriptInterval(
        exon_starts=[b[0] for b in t["exons"]], exon_ends=[b[1] for b in t["exons"]], strand=GG._strand(t["strand"]),
        cds_starts=[b[0] for b in cds] if cds else None, cds_ends=[b[1] for b in cds] if cds else None,
        cds_frames=GG._frames(t["frames"]) if cds else None, qualifiers=sh.quals(t.get("qualifiers")),
        is_primary_tx=t.get("is_primary_tx"), transcript_id=t.get("transcript_id"), transcript_symbol=t.get("transcript_symbol"),
        transcript_type=GG._biotype(t.get("transcript_type")), sequence_guid=_u(t.get("sequence_guid")), sequence_name=t.get("sequence_name"),
        protein_id=t.get("protein_id"), product=t.get("product"), guid=_u(t.get("guid")), transcript_guid=_u(t.get("transcript_guid")),
        parent_or_seq_chunk_parent=parent)


def build_feature(f, parent=None, sh=None, seqname=None):
    from inscripta.biocantor.gene.feature import FeatureInterval

    sh = sh or Shuffler()
    return FeatureInterval(
        interval_starts=[b[0] for b in f["blocks"]], interval_ends=[b[1] for b in f["blocks"]], strand=GG._strand(f["strand"]),
        qualifiers=sh.quals(f.get("qualifiers")), sequence_guid=_u(f.get("sequence_guid")), sequence_name=seqname,
        feature_types=sh.lst(f.get("feature_types")) or None, feature_name=f.get("feature_name"), feature_id=f.get("feature_id"),
        guid=_u(f.get("guid")), feature_guid=_u(f.get("feature_guid")), is_primary_feature=f.get("is_primary_feature"),
        parent_or_seq_chunk_parent=parent)


def build_gene(g, parent=None, sh=None, seqname=None):
    from inscripta.biocantor.gene.gene import GeneInterval

    sh = sh or Shuffler()
    return GeneInterval(
        transcripts=[build_transcript(t, parent, sh) for t in g["transcripts"]], guid=_u(g.get("guid")), gene_id=g.get("gene_id"),
        gene_symbol=g.get("gene_symbol"), gene_type=GG._biotype(g.get("gene_type")), locus_tag=g.get("locus_tag"),
        qualifiers=sh.quals(g.get("qualifiers")), sequence_name=seqname, sequence_guid=_u(g.get("sequence_guid")),
        parent_or_seq_chunk_parent=parent)


def build_fcoll(fc, parent=None, sh=None, seqname=None):
    from inscripta.biocantor.gene.feature import FeatureIntervalCollection

    sh = sh or Shuffler()
    return FeatureIntervalCollection(
        feature_intervals=[build_feature(f, parent, sh, seqname) for f in fc["features"]],
        feature_collection_name=fc.get("feature_collection_name"), feature_collection_id=fc.get("feature_collection_id"),
        feature_collection_type=fc.get("feature_collection_type"), locus_tag=fc.get("locus_tag"), sequence_name=seqname,
        sequence_guid=_u(fc.get("sequence_guid")), guid=_u(fc.get("guid")), qualifiers=sh.quals(fc.get("qualifiers")),
        parent_or_seq_chunk_parent=parent)


def build_variant(v, parent=None, sh=None):
    from inscripta.biocantor.gene.variants import VariantInterval

    sh = sh or Shuffler()
    return VariantInterval(v["start"], v["end"], v["sequence"], v["variant_type"], phase_block=v.get("phase_block"), guid=_u(v.get("guid")),
                           variant_guid=_u(v.get("variant_guid")), variant_name=v.get("variant_name"), variant_id=v.get("variant_id"),
                           qualifiers=sh.quals(v.get("qualifiers")), parent_or_seq_chunk_parent=parent)


def build_vcoll(vc, parent=None, sh=None, seqname=None):
    from inscripta.biocantor.gene.variants import VariantIntervalCollection

    sh = sh or Shuffler()
    return VariantIntervalCollection(
        [build_variant(v, parent, sh) for v in vc["variants"]], variant_collection_name=vc.get("variant_collection_name"),
        variant_collection_id=vc.get("variant_collection_id"), sequence_name=seqname, sequence_guid=_u(vc.get("sequence_guid")),
        guid=_u(vc.get("guid")), qualifiers=sh.quals(vc.get("qualifiers")), parent_or_seq_chunk_parent=parent)


def build_collection(c, parent=None, sh=None):
    from inscripta.biocantor.gene.collections import AnnotationCollection

    sh = sh or Shuffler()
    seqname = c.get("sequence_name")
    return AnnotationCollection(
        feature_collections=[build_fcoll(fc, parent, sh, seqname) for fc in c.get("fcolls", [])] or None,
        genes=[build_gene(g, parent, sh, seqname) for g in c.get("genes", [])] or None,
        variant_collections=[build_vcoll(vc, parent, sh, seqname) for vc in c.get("vcolls", [])] or None,
        name=c.get("name"), id=c.get("id"), sequence_name=seqname, sequence_guid=_u(c.get("sequence_guid")),
        sequence_path=c.get("sequence_path"), qualifiers=sh.quals(c.get("qualifiers")), start=c.get("start"), end=c.get("end"),
        completely_within=c.get("completely_within"), parent_or_seq_chunk_parent=parent)


# --------------------------------------------------------------------------------------------------------------
# guid columns (spec order, so that two builds of one spec are comparable position by position)
# --------------------------------------------------------------------------------------------------------------
def guid_columns(ac):
    """{"collection": g, "genes": [..], "transcripts": [[..]], "cds": [[..|None]], "fcolls": [..], "features": [[..]],
    "vcolls": [..], "variants": [[..]]} as strings.  Variant collections sort their children by start: so do we."""
    return {
        "collection": str(ac.guid),
        "genes": [str(g.guid) for g in ac.genes],
        "transcripts": [[str(t.guid) for t in g.transcripts] for g in ac.genes],
        "cds": [[str(t.cds.guid) if t.cds is not None else None for t in g.transcripts] for g in ac.genes],
        "fcolls": [str(fc.guid) for fc in ac.feature_collections],
        "features": [[str(f.guid) for f in fc.feature_intervals] for fc in ac.feature_collections],
        "vcolls": [str(vc.guid) for vc in ac.variant_collections],
        "variants": [[str(v.guid) for v in vc.variant_intervals] for vc in ac.variant_collections],
    }


# --------------------------------------------------------------------------------------------------------------
# single-field perturbations (sensitivity monitor)
# --------------------------------------------------------------------------------------------------------------
def _valid_blocks(blocks, glen):
    return all(0 <= s < e <= glen for s, e in blocks) and all(b1[1] <= b2[0] for b1, b2 in zip(blocks, blocks[1:]))


def _inside(inner, outer):
    pos = {p for s, e in outer for p in range(s, e)}
    return all(p in pos for s, e in inner for p in range(s, e))


def perturbations(coll, glen):
    """Yield (kind, path, affected) for every admissible single-field change of the collection spec.
    path addresses the field; affected names the guid columns that must change: the object itself and its ancestors."""
    out = []
    for gi, g in enumerate(coll["genes"]):
        anc = [("collection",), ("genes", gi)]
        for ti, t in enumerate(g["transcripts"]):
            me = anc + [("transcripts", gi, ti)]
            for bi, b in enumerate(t["exons"]):
                for side in (0, 1):
                    for d in (-1, 1):
                        nb = [list(x) for x in t["exons"]]
                        nb[bi][side] += d
                        if _valid_blocks(nb, glen) and (not t["cds"] or (_inside(t["cds"], nb) and t["cds"][0][0] >= nb[0][0] and t["cds"][-1][1] <= nb[-1][1])):
                            out.append(("coordinate", ["genes", gi, "transcripts", ti, "exons", bi, side, d], me))
            if t["cds"]:
                mc = me + [("cds", gi, ti)]
                for bi, b in enumerate(t["cds"]):
                    for side in (0, 1):
                        for d in (-1, 1):
                            nb = [list(x) for x in t["cds"]]
                            nb[bi][side] += d
                            if _valid_blocks(nb, glen) and _inside(nb, t["exons"]):
                                out.append(("coordinate", ["genes", gi, "transcripts", ti, "cds", bi, side, d], mc))
                    for d in (1, 2):
                        out.append(("frame", ["genes", gi, "transcripts", ti, "frames", bi, d], mc))
            for field in ("transcript_id",):
                out.append(("identifier", ["genes", gi, "transcripts", ti, field], me))
        out.append(("strand", ["genes", gi, "strand"], anc + [("transcripts", gi, ti) for ti in range(len(g["transcripts"]))]
                    + [("cds", gi, ti) for ti, t in enumerate(g["transcripts"]) if t["cds"]]))
        out.append(("identifier", ["genes", gi, "gene_id"], anc))
    for ci, fc in enumerate(coll["fcolls"]):
        anc = [("collection",), ("fcolls", ci)]
        for fi, f in enumerate(fc["features"]):
            me = anc + [("features", ci, fi)]
            for bi, b in enumerate(f["blocks"]):
                for side in (0, 1):
                    for d in (-1, 1):
                        nb = [list(x) for x in f["blocks"]]
                        nb[bi][side] += d
                        if _valid_blocks(nb, glen):
                            out.append(("coordinate", ["fcolls", ci, "features", fi, "blocks", bi, side, d], me))
            out.append(("strand", ["fcolls", ci, "features", fi, "strand"], me))
            out.append(("identifier", ["fcolls", ci, "features", fi, "feature_id"], me))
        out.append(("identifier", ["fcolls", ci, "feature_collection_id"], anc))
    for ci, vc in enumerate(coll.get("vcolls", [])):
        anc = [("collection",), ("vcolls", ci)]
        order = sorted(range(len(vc["variants"])), key=lambda k: vc["variants"][k]["start"])
        for vi, v in enumerate(vc["variants"]):
            me = anc + [("variants", ci, order.index(vi))]
            for side, d in (("start", -1), ("start", 1), ("end", -1), ("end", 1)):
                nv = dict(v)
                nv[side] += d
                others = [x for k, x in enumerate(vc["variants"]) if k != vi]
                if 0 <= nv["start"] < nv["end"] <= glen and all(nv["end"] <= o["start"] or o["end"] <= nv["start"] for o in others) \
                        and sorted(range(len(vc["variants"])), key=lambda k: (nv if k == vi else vc["variants"][k])["start"]) == order:
                    out.append(("coordinate", ["vcolls", ci, "variants", vi, side, d], me))
        out.append(("identifier", ["vcolls", ci, "variant_collection_id"], anc))
    out.append(("identifier", ["name"], [("collection",)]))
    return out


def apply_perturbation(coll, kind, path):
    """Deep-copied collection spec with the single field changed."""
    import copy

    c = copy.deepcopy(coll)
    if kind == "coordinate":
        if path[0] == "vcolls":
            c["vcolls"][path[1]]["variants"][path[3]][path[4]] += path[5]
        elif path[0] == "genes":
            c["genes"][path[1]]["transcripts"][path[3]][path[4]][path[5]][path[6]] += path[7]
        else:
            c["fcolls"][path[1]]["features"][path[3]]["blocks"][path[5]][path[6]] += path[7]
    elif kind == "frame":
        fr = c["genes"][path[1]]["transcripts"][path[3]]["frames"]
        fr[path[5]] = (fr[path[5]] + path[6]) % 3
    elif kind == "strand":
        flip = {"+": "-", "-": "+"}
        if path[0] == "genes":
            for t in c["genes"][path[1]]["transcripts"]:
                t["strand"] = flip[t["strand"]]
        else:
            f = c["fcolls"][path[1]]["features"][path[3]]
            f["strand"] = flip[f["strand"]]
    elif kind == "identifier":
        node = c
        for p in path[:-1]:
            node = node[p]
        node[path[-1]] = (node[path[-1]] or "") + "_x"
    else:
        raise ValueError(kind)
    return c


def column(cols, addr):
    node = cols[addr[0]]
    for k in addr[1:]:
        node = node[k]
    return node
